"""C11 correspondence: an emitted SKR reads back identically, fits the schema; no truncation loads.

Responses are built as data objects from the signer's domain (1..9 bundles; ZSKs, KSKs, revoked KSKs
(flags 385); 1..2 signatures; RSA-SHA256/512 policies; whole-second durations 0 s..400 d incl. the
`>`-boundary values of the duration writer; ids/serials in and slightly outside the domain).  Real RSA
signatures (fixtures/keys.json) where validate_response is exercised, arbitrary base64 text otherwise.

SHARED KEY TAGS.  The key tag is a 16-bit checksum, not an identity: nothing the signer checks keeps two different keys
of one bundle from having the same tag (validate_signatures refuses duplicate key IDENTIFIERS only).  A dedicated
stream (`shared-tag:*`, every run, n = 1..9 bundles, real and arbitrary signatures) therefore holds bundles in which
2..4 different keys share a key tag, in every role combination ZSK/ZSK, ZSK/KSK, KSK/KSK, with a revoked KSK (385),
signing and non-signing: (i) the fixture `twins` (fixtures/special.json: pairs of real RSA keys with equal tag under
equal flags), both signing when they are KSKs, (ii) keys whose public material is solved for the tag of a victim key of
the bundle (keys.craft_public_key_with_tag: public material only; such keys never sign, which is what ZSKs and
stand-by KSKs do in an SKR).  Their tags are genuine (RFC 4034 App. B of their own RDATA).  These responses go through
(a)-(d) like all others, one of them is an every-prefix file of (e).  The writer's order among equal tags is Python's
stable sort of the set's iteration order; the model (List.mergeSort, stable) is given the same order.

For every response:
  (a) skr_to_xml(response) text  ==  model text (lean/Kskm/SkrXml.lean), byte for byte       [tie]
  (b) response_from_xml(text) == response (pydantic equality: sets as sets)                   [property]
  (c) validate_response accepts the re-read response when the signatures are real             [property]
  (d) xml.etree.ElementTree parses the text; the tree conforms to schema/ksr.rnc (interpreted by the
      small RELAX NG compact interpreter below: order, cardinalities, attributes, xsd datatypes),
      equals the model's `treeOf`, and an independent extractor gets the same response out of it [property]
      + Key elements appear in ascending keyTag order (output.py: "deterministic order")
  (e) truncation: every proper prefix (every byte offset) of four emitted files (one with shared key tags) either fails to load
      (decode + response_from_xml + validate_response, as load_skr does) or loads to the identical
      response — never to a different valid response                                          [property]
  (f) boundary witnesses (multi-line element text F6, year < 1000 F7, quote / control characters,
      empty algorithm set) replayed on the implementation; recorded in notes; F6 is reachable by the
      signer (a KSR with line-wrapped base64 loads and validates) and is reported as a violation
  (f') VERBATIM TEXT (REFERENCE_IDS / BARE_AMP_IDS; `verbatim:*` stream n = 1..9 real and arbitrary signatures, and every
      text at every position id / domain / bundle id / key identifier): attribute texts holding entity or character
      references (`&amp;`, `&amp;amp;`, `&lt;`, `&#252;`, `&#x2d;`, `&quot;`, `&apos;`), tabs, or ampersands that are no
      reference.  The repository's reader resolves no references, so such a text in a KSR reaches the signer verbatim and
      the response is REACHABLE although outside the Lean WriterDomain.  Judged by the property itself: (b) read-back
      identity, (c) validation, and — references well-formed — (d) well-formed, schema-conformant, read by the standards
      parser as the same response with the references resolved / tabs normalised (ceremony_run.resolve_references, this
      harness's own transcription of XML 1.0); (a) model text == implementation text as everywhere (the writer model is
      total: it renders the text verbatim).  Counters verbatim-text:*.
  (g) codecs: timedelta_to_duration / duration_to_timedelta / format_datetime / parse_datetime /
      _indent / str.isspace / date ordinals — implementation vs model on >= 20 000 values incl.
      malformed strings; the round-trip laws and ISO 8601 duration semantics are evaluated on the
      implementation's own answers.
  (g2) codecs_week_unicode (work package B2): ISO week dates (lattice years x W00/01/52/53/54 x day 0..9, both layouts,
      tails, mutations), non-ASCII characters of 2/3/4 octets at every position, durations in every decimal-digit
      script / Unicode white space / near-digits, int(): implementation vs model, where a model answer `unsupported`
      is a DISAGREEMENT (theorems parseDatetime_answers / parseDuration_answers / pyInt_answers); judged by the ISO
      8601 week definition (4 January / 28 December rule, own ordinal arithmetic) and by digit-script invariance; plus
      the pieces by themselves (iso_to_civil vs date.fromisocalendar, iso_calendar vs date.isocalendar, the separator
      finder vs _pydatetime, UTF-8 octets, the decimal-digit table) and the general octet-level transcription of
      fromisoformat on every timestamp text.
  (h) ENVIRONMENT INDEPENDENCE, every run: the emitted text is a function of the response, not of the time zone of the
      PROCESS.  Responses whose bundle / signature times start at every instant of harness/tzenv.lattice() (January /
      July, turn of the year, leap day, -1 h .. +1 h around the 2025 DST switches of every zone; 1..3 bundles, real and
      arbitrary signatures, datetimes carrying UTC and non-UTC tzinfo) plus a slice of the ordinary, shared-tag and
      real-signature responses go through (a)-(d) under UTC and AGAIN with the process zone switched (lib.ProcessTZ: TZ +
      tzset) to America/New_York, Australia/Lord_Howe, Asia/Kolkata and Europe/Berlin: same model text, same read-back,
      validate_response, standards parser — and the text must equal the UTC run's.  The timestamp codecs
      (format_datetime on aware datetimes in three tzinfos, parse_datetime on `+00:00` / `Z` / no designator / malformed
      strings) run on the lattice under every zone against the model and integer calendar arithmetic.
impl violates the spec -> VIOLATION (failing input);  impl != model, spec holds -> disagreement.
"""

from __future__ import annotations

import base64
import re
import xml.etree.ElementTree as ET
from datetime import date, datetime, timedelta, timezone
from pathlib import Path
from typing import Any, Iterable

import lib
import tzenv
from lib import REPO, Result, response_j, run_driver, run_impl, same_outcome, td_us, dt_us, us_dt, us_td

DRIVER = "kskm_driver_pkge"


class Watchdog(Exception):
    """The implementation did not return within the budget (the reader's attribute loop does not
    terminate on text its regular expression does not match: finding F1 of C13)."""


def guarded(fn: Any, seconds: float = 2.0) -> Any:
    """Run `fn` under a SIGALRM watchdog; a timeout is reported as {"error": "timeout"} by run_impl."""
    import signal

    def on_alarm(signum: int, frame: Any) -> None:
        raise Watchdog()

    old = signal.signal(signal.SIGALRM, on_alarm)
    signal.setitimer(signal.ITIMER_REAL, seconds)
    try:
        return fn()
    finally:
        signal.setitimer(signal.ITIMER_REAL, 0)
        signal.signal(signal.SIGALRM, old)


def read_back(text: str) -> Any:
    from kskm.skr.load import response_from_xml

    out = run_impl(lambda: guarded(lambda: response_from_xml(text)), conv=lambda x: x)
    if out == {"error": "other"}:
        return {"error": "timeout"}
    return out

ASSUMPTIONS = [
    "CPython 3.12 semantics of int(), datetime.fromisoformat, strftime('%Y') (glibc: unpadded), str.isspace, re — modelled, compared differentially on every run",
    "sys.get_int_max_str_digits() is the default 4300",
    "Unicode decimal digits / white space as the running Python has them (KskmGen.decimalZeros, intSpaceRanges: tabulated over all code points on every run, cross-checked against re \\d, int() and unicodedata.decimal); lone surrogates are not Lean characters and are not sent to the model",
    "xml.etree.ElementTree (expat) is the standards XML parser",
    "the RELAX NG compact subset interpreter in this module reads schema/ksr.rnc faithfully (subset: element/attribute/ref/group/choice/?/*/+/empty/xsd datatypes with min/maxInclusive)",
    "the signer emits bundles in the loader's order (expiration, inception, id): request bundles are sorted that way on load and sign_bundles keeps their order",
    "the process time zone is switched with TZ + tzset (lib.ProcessTZ, which verifies that localtime follows); zones and DST switch instants from the system tz database, cross-checked against the published 2025 rules in harness/tzenv.py",
    "writer domain (in_domain below): no timestamp, RSA policies with >= 1 entry, >= 1 bundle/key/signature, attribute values and element texts free of \" < > & and control characters, texts stripped, years 1000..9999, durations whole seconds 0..400 d, unsigned fields in their schema ranges",
]
TRUSTED = ["xml.etree.ElementTree as XML oracle and the RNC-subset interpreter in corr_C11"]

SEC = 10**6
DAY = 86400 * SEC
BOUNDARY_SECONDS = [0, 1, 59, 60, 61, 119, 120, 121, 3599, 3600, 3601, 3660, 3661, 7199, 7200, 7201, 86399, 86400, 86401, 86460, 90000, 90061, 172800, 7 * 86400, 21 * 86400, 400 * 86400 - 1, 400 * 86400]

# --------------------------------------------------------------------------------------
# generators
# --------------------------------------------------------------------------------------

GOOD_IDS = [
    "4fe9bb10-6f6b-4503-8575-7824e2d66925",
    "a",
    "Kjqmt7v",
    "Kjqmt7",  # (a proper prefix of / differing only in case from another identifier of the dictionary)
    "kjqmt7v",
    "id with spaces",
    " lead and trail ",
    "ключ-é-鍵",
    "it's",
    "a/b",
    "x=1;y=2",
    "trailing/",
    "KSR",
    "/KSR",
    "a]]b",
    "root--2024-q1--fallback",  # text that is legal in an attribute value but not everywhere in a document ("--" in a comment, "?>" in a PI, "]]>" in CDATA)
    "Q1--",
    "-->",
    "x?>y",
    "a]]>b",
    "0",
    "𝔘𝔫𝔦",
]
BAD_IDS = ['a"b', "a<b", "a>b", "a&b", "a&amp;b", "a\nb", "a\tb", "", "a\rb", "a\x00b", "a\x1fb"]
# XML-SPECIAL TEXT THE READER HANDS OVER VERBATIM.  The repository's reader resolves no references: a KSR whose id is written
# `root&amp;arpa` yields the id `root&amp;arpa` (ten characters), the signer copies it, and the writer must put exactly that back
# (the next ceremony compares a new KSR's id with what this SKR shows, both read by that reader).  Such responses are outside the
# Lean WriterDomain (TextSafe excludes `&`) but REACHABLE; they are judged by the property's clauses (b)(c)(d) all the same:
# read-back identity, validation, and — when the references are well-formed — a standards parser reading the same response
# with the references resolved (ceremony_run.resolve_references: this harness's transcription of XML 1.0 §3.3.3 / §4.1 / §4.6).
REFERENCE_IDS = ["a&amp;b", "root&amp;arpa-2026-q1", "a&amp;amp;b", "&lt;tag&gt;", "x&#252;y", "x&#x2d;y", "&quot;q&quot;", "it&apos;s", "&#169;&#x1F511;", "a\tb", "it's\ttabbed", "&amp;", "&#38;"]
# … and with ampersands that are not references (not well-formed XML; the reader accepts them verbatim as well)
BARE_AMP_IDS = ["AT&T", "a&amp", "a&;b", "&", "a&&b", "a& b", "a&#;b", "a&#xZ;b", "a&unknown;b"]


def rsa_pool() -> dict[int, list[Any]]:
    import keys as K

    return {bits: K.rsa_keys(bits) for bits in (1024, 2048)}


def pick_duration(r: Any) -> int:
    x = r.random()
    if x < 0.45:
        return r.choice(BOUNDARY_SECONDS) * SEC
    if x < 0.6:
        return (r.randrange(0, 401) * 86400) * SEC
    if x < 0.8:
        return (r.randrange(0, 400) * 86400 + r.choice(BOUNDARY_SECONDS[:20])) * SEC
    return r.randrange(0, 400 * 86400 + 1) * SEC


def mk_policy(r: Any, n_algs: int, durations: list[int] | None = None) -> Any:
    from kskm.common.data import AlgorithmDNSSEC, AlgorithmPolicyRSA, SignaturePolicy

    d = durations or [pick_duration(r) for _ in range(6)]
    algs: set[Any] = set()
    while len(algs) < n_algs:
        algs.add(
            AlgorithmPolicyRSA(
                bits=r.choice([1024, 2048, 3072, 4096]),
                exponent=r.choice([3, 17, 65537, 2**32 + 1]),
                algorithm=AlgorithmDNSSEC(r.choice([8, 10])),
            )
        )
    return SignaturePolicy(
        publish_safety=us_td(d[0]),
        retire_safety=us_td(d[1]),
        max_signature_validity=us_td(d[2]),
        min_signature_validity=us_td(d[3]),
        max_validity_overlap=us_td(d[4]),
        min_validity_overlap=us_td(d[5]),
        algorithms=algs,
    )


def fake_b64(r: Any, n: int) -> bytes:
    return base64.b64encode(r.randbytes(n))


def key_from_public(pk: bytes, alg: int, ident: str, ttl: int, flags: int) -> Any:
    """A repo `Key` for an RFC 3110 public key field (public material only), tag computed from its own RDATA."""
    from kskm.common.data import AlgorithmDNSSEC
    from kskm.common.dnssec import public_key_to_dnssec_key

    return public_key_to_dnssec_key(public_key=base64.b64encode(pk), key_identifier=ident, algorithm=AlgorithmDNSSEC(alg), ttl=ttl, flags=flags)


ROLE = {256: "ZSK", 257: "KSK", 385: "REV"}


def shared_tag_groups(bundle: Any) -> list[str]:
    """Role combinations ("KSK/ZSK", "ZSK/ZSK", "KSK/KSK/REV", …) of the keys of `bundle` that share a key tag."""
    by_tag: dict[int, list[Any]] = {}
    for k in bundle.keys:
        by_tag.setdefault(k.key_tag, []).append(k)
    return ["/".join(sorted(ROLE.get(k.flags, str(k.flags)) for k in ks)) for ks in by_tag.values() if len(ks) > 1]


def pick_collide(r: Any) -> dict[str, Any]:
    """What to add to a bundle so that different keys share a key tag: the real twins (equal flags: two ZSKs, two KSKs
    or two revoked KSKs) and / or 1..2 keys crafted to the tag of a victim key, each with flags 256 / 257 / 385."""
    x = r.random()
    twins = None if x < 0.45 else r.choice([256, 257, 257, 385])
    n_crafted = r.choice([1, 1, 2]) if twins is None else r.choice([0, 0, 1])
    return {"twins": twins, "crafted": [r.choice([256, 256, 257, 385]) for _ in range(n_crafted)]}


def mk_bundle(r: Any, idx: int, start_us: int, *, real: bool, alg: int, ids: list[str], n_zsk: int, n_ksk: int, revoked: bool, n_sig: int, tz: Any, pool: dict[int, list[Any]], ttl: int, collide: dict[str, Any] | None = None) -> Any:
    """One ResponseBundle: ZSKs (256) + KSKs (257) [+ one revoked KSK (385)], signed by n_sig KSKs.
    `collide` (see pick_collide) adds keys that share a key tag with another key of the bundle."""
    import keys as K
    from kskm.common.data import AlgorithmDNSSEC, Signature, TypeDNSSEC
    from kskm.skr.data import ResponseBundle

    inc = us_dt(start_us + idx * 10 * DAY).astimezone(tz)
    exp = us_dt(start_us + idx * 10 * DAY + 21 * DAY).astimezone(tz)
    tks = r.sample(pool[1024] + pool[2048], n_zsk + n_ksk + (1 if revoked else 0))
    keys = []
    ksks = []
    used: set[str] = set()

    def ident() -> str:
        while True:
            s = r.choice(ids) if r.random() < 0.5 else f"K{r.randrange(10**6)}"
            if s not in used:
                used.add(s)
                return s

    for n, tk in enumerate(tks):
        if n < n_zsk:
            keys.append(K.make_zsk(tk, alg, ident(), ttl=ttl, flags=256))
        elif n < n_zsk + n_ksk:
            k = K.make_zsk(tk, alg, ident(), ttl=ttl, flags=257)
            keys.append(k)
            ksks.append((k, tk))
        else:
            k = K.make_zsk(tk, alg, ident(), ttl=ttl, flags=257).as_revoked()
            keys.append(k)
            ksks.append((k, tk))
    if collide:
        if collide["twins"] is not None:
            # two different real keys, equal flags, equal tag; as KSKs / revoked KSKs they can both sign
            fl = collide["twins"]
            for tk in r.choice(K.special()["twins"]):
                k = K.make_zsk(tk, alg, ident(), ttl=ttl, flags=257).as_revoked() if fl == 385 else K.make_zsk(tk, alg, ident(), ttl=ttl, flags=fl)
                keys.append(k)
                if fl != 256:
                    ksks.append((k, tk))
            if r.random() < 0.5:
                r.shuffle(ksks)
        for fl in collide["crafted"]:
            victim = r.choice(keys)
            pk = K.craft_public_key_with_tag(victim.key_tag, fl, alg, r, n_len=r.choice([128, 128, 256]))
            keys.append(key_from_public(pk, alg, ident(), ttl, fl))
    signers = ksks[-n_sig:] if n_sig <= len(ksks) else ksks
    if real:
        sigs = K.sign_bundle_keys(keys, signers, inc, exp, ttl=ttl)
    else:
        sigs = set()
        for k, _tk in signers:
            sigs.add(
                Signature(
                    key_identifier=k.key_identifier,
                    ttl=ttl,
                    type_covered=TypeDNSSEC.DNSKEY,
                    algorithm=AlgorithmDNSSEC(alg),
                    labels=r.choice([0, 0, 1, 255]),
                    original_ttl=r.choice([ttl, ttl + 1, 0, 3600, 2**31]),
                    signature_expiration=exp if r.random() < 0.7 else us_dt(dt_us(exp) + r.randrange(-5, 5) * SEC).astimezone(tz),
                    signature_inception=inc if r.random() < 0.7 else us_dt(dt_us(inc) + r.randrange(-5, 5) * SEC).astimezone(tz),
                    key_tag=k.key_tag,
                    signers_name=r.choice([".", ".", "example.", "a b"]),
                    signature_data=fake_b64(r, r.choice([1, 2, 3, 128, 256])),
                )
            )
    r.shuffle(keys)
    return ResponseBundle(id=r.choice(ids) + f"-{idx}", inception=inc, expiration=exp, keys=set(keys), signatures=sigs)


def mk_response(r: Any, n_bundles: int, *, real: bool, ids: list[str] | None = None, n_algs: tuple[int, int] = (1, 1), serial: int | None = None, start_us: int | None = None, tz: Any = timezone.utc, pool: dict[int, list[Any]] | None = None, shared_tags: bool = False) -> Any:
    """`shared_tags`: at least one bundle (each with probability 1/2, one for certain) holds keys sharing a key tag."""
    from kskm.skr.data import Response

    ids = ids or GOOD_IDS
    pool = pool or rsa_pool()
    alg = r.choice([8, 10])
    if start_us is None:
        start_us = r.choice([1_500_000_000, 1_262_304_000, 4_000_000_000, 946_684_800, r.randrange(0, 2**32 - 120 * 86400)]) * SEC
    ttl = r.choice([172800, 3600, 0, 2**31 - 1])
    bundles = []
    certain = r.randrange(n_bundles) if shared_tags and n_bundles else -1
    for i in range(n_bundles):
        n_ksk = r.choice([1, 1, 2])
        revoked = r.random() < 0.3
        n_sig = r.choice([1, 1, 2])
        collide = pick_collide(r) if shared_tags and (i == certain or r.random() < 0.5) else None
        if collide and collide["twins"] in (257, 385):
            n_sig = r.choice([1, 2, 2, 3])
        n_signers = n_ksk + (1 if revoked else 0) + (2 if collide and collide["twins"] in (257, 385) else 0)
        bundles.append(
            mk_bundle(r, i, start_us, real=real, alg=alg, ids=ids, n_zsk=r.choice([1, 1, 2]), n_ksk=n_ksk, revoked=revoked, n_sig=min(n_sig, n_signers), tz=tz, pool=pool, ttl=ttl, collide=collide)
        )
    return Response(
        id=r.choice(ids),
        serial=r.choice([0, 1, 2, 17, 2**31, 10**30]) if serial is None else serial,
        domain=r.choice([".", ".", "example.", r.choice(ids)]),
        timestamp=None,
        bundles=bundles,
        ksk_policy=mk_policy(r, n_algs[0]),
        zsk_policy=mk_policy(r, n_algs[1]),
    )


# --------------------------------------------------------------------------------------
# the writer's domain (transliterated from the property's quantifier / DESIGN §4-C11)
# --------------------------------------------------------------------------------------

FORBIDDEN_TEXT = set('"<>&')


def plain_text(s: str, *, attr: bool) -> bool:
    """Text that a plain XML document carries verbatim and the repository's reader returns unchanged."""
    if attr and s == "":
        return False
    if any(c in FORBIDDEN_TEXT or ord(c) < 0x20 or 0x7F <= ord(c) <= 0x9F or 0xD800 <= ord(c) <= 0xDFFF or ord(c) in (0xFFFE, 0xFFFF) for c in s):
        return False
    if not attr and s != s.strip():
        return False
    return True


_REFERENCE = re.compile(r"&(?:amp|lt|gt|quot|apos|#[0-9]+|#x[0-9A-Fa-f]+);")


def attr_texts(resp: Any) -> list[str]:
    """The texts a response carries into ATTRIBUTES of the document (copied from the KSR / configuration)."""
    out = [resp.id, resp.domain]
    for b in resp.bundles:
        out.append(b.id)
        out += [k.key_identifier for k in b.keys] + [s.key_identifier for s in b.signatures]
    return out


def map_attr_texts(resp: Any, f: Any) -> Any:
    bundles = [
        b.replace(id=f(b.id), keys={k.replace(key_identifier=f(k.key_identifier)) for k in b.keys}, signatures={s.replace(key_identifier=f(s.key_identifier)) for s in b.signatures})
        for b in resp.bundles
    ]
    return resp.replace(id=f(resp.id), domain=f(resp.domain), bundles=bundles)


def special_text_class(resp: Any) -> str | None:
    """None, or how a response OUTSIDE in_domain is special only by XML-special attribute text that the reader hands over
    verbatim: "references" (every `&` starts a well-formed reference; tabs) / "not-wellformed" (some `&` does not).  Decided by
    replacing every reference, ampersand and tab by a plain character and asking in_domain again: nothing else may be unusual."""
    import ceremony_run as R

    texts = attr_texts(resp)
    if not any("&" in t or "\t" in t for t in texts):
        return None
    try:
        plain = map_attr_texts(resp, lambda t: _REFERENCE.sub("x", t).replace("&", "x").replace("\t", " "))
    except Exception:  # noqa: BLE001
        return None
    if not in_domain(plain)[0]:
        return None
    try:
        for t in texts:
            R.resolve_references(t, attr=True)
    except ValueError:
        return "not-wellformed"
    return "references"


def as_standard_parser_shows(resp: Any) -> Any:
    """The response with every attribute text as a standard XML parser shows it (references resolved, tabs normalised)."""
    import ceremony_run as R

    return map_attr_texts(resp, lambda t: R.resolve_references(t, attr=True))


def whole_seconds_in_range(td: timedelta) -> bool:
    us = td_us(td)
    return us % SEC == 0 and 0 <= us <= 400 * DAY


def year_ok(dt: datetime) -> bool:
    return 1000 <= dt.astimezone(timezone.utc).year <= 9999 and dt.microsecond == 0


def canonical_b64(text: str) -> bool:
    try:
        return base64.b64encode(base64.b64decode(text, validate=True)).decode() == text
    except Exception:  # noqa: BLE001
        return False


PRINTABLE = 10**4300


def in_domain(resp: Any) -> tuple[bool, str]:
    from kskm.common.data import AlgorithmPolicyRSA

    if resp.timestamp is not None:
        return False, "timestamp"
    if not (plain_text(resp.id, attr=True) and plain_text(resp.domain, attr=True)):
        return False, "id/domain text"
    if resp.serial < 0:
        return False, "negative serial"
    if resp.serial >= PRINTABLE:
        return False, "serial not printable"
    if not resp.bundles:
        return False, "no bundles"
    keys = [(b.expiration, b.inception, b.id) for b in resp.bundles]
    if keys != sorted(keys):
        return False, "bundle order"
    for p in (resp.ksk_policy, resp.zsk_policy):
        if not p.algorithms:
            return False, "empty algorithm set"
        for a in p.algorithms:
            if not isinstance(a, AlgorithmPolicyRSA) or a.algorithm.value not in (5, 8, 10) or not (0 <= a.bits < PRINTABLE) or not (0 <= a.exponent < PRINTABLE):
                return False, "non-RSA algorithm policy"
        for f in ("publish_safety", "retire_safety", "max_signature_validity", "min_signature_validity", "max_validity_overlap", "min_validity_overlap"):
            if not whole_seconds_in_range(getattr(p, f)):
                return False, "duration"
    for b in resp.bundles:
        if not plain_text(b.id, attr=True):
            return False, "bundle id text"
        if not (year_ok(b.inception) and year_ok(b.expiration)):
            return False, "year"
        if not b.keys or not b.signatures:
            return False, "empty keys/signatures"
        for k in b.keys:
            try:
                pk = k.public_key.decode("utf-8")
            except UnicodeDecodeError:
                return False, "key text"
            if not (plain_text(k.key_identifier, attr=True) and plain_text(pk, attr=False) and pk and canonical_b64(pk)):
                return False, "key text"
            if not (0 <= k.key_tag <= 65535 and 0 <= k.ttl < PRINTABLE and 0 <= k.flags <= 65535 and k.protocol == 3):
                return False, "key field range"
        for s in b.signatures:
            try:
                sd = s.signature_data.decode("utf-8")
            except UnicodeDecodeError:
                return False, "signature text"
            if not (plain_text(s.key_identifier, attr=True) and plain_text(sd, attr=False) and sd and canonical_b64(sd) and plain_text(s.signers_name, attr=False) and s.signers_name):
                return False, "signature text"
            if not (year_ok(s.signature_inception) and year_ok(s.signature_expiration)):
                return False, "year"
            if not (0 <= s.key_tag <= 65535 and 0 <= s.ttl < PRINTABLE and 0 <= s.original_ttl < PRINTABLE and 0 <= s.labels <= 255):
                return False, "signature field range"
    return True, ""


# --------------------------------------------------------------------------------------
# RELAX NG compact (subset) interpreter for schema/ksr.rnc
# --------------------------------------------------------------------------------------

TOKEN = re.compile(r'\s*(?:(#[^\n]*)|("(?:[^"\\]|\\.)*")|([A-Za-z_][\w.\-]*(?::[A-Za-z_][\w.\-]*)?)|([{}()|,?*+=]))')


def rnc_tokens(text: str) -> list[str]:
    out = []
    pos = 0
    while pos < len(text):
        m = TOKEN.match(text, pos)
        if not m:
            if text[pos:].strip() == "":
                break
            raise ValueError(f"rnc: cannot tokenise at {text[pos:pos+30]!r}")
        pos = m.end()
        if m.group(1):
            continue
        out.append(m.group(2) or m.group(3) or m.group(4))
    return out


class Rnc:
    """Grammar: name -> pattern.  Patterns are tuples:
    ("element", name, p) ("attribute", name, p) ("ref", name) ("group", [p]) ("choice", [p])
    ("opt", p) ("star", p) ("plus", p) ("empty",) ("data", type, {facet: value})"""

    def __init__(self, text: str) -> None:
        self.t = rnc_tokens(text)
        self.i = 0
        self.defs: dict[str, Any] = {}
        while self.i < len(self.t):
            if self.t[self.i] == "datatypes":
                self.i += 4  # datatypes xsd = "…"
                continue
            name = self.t[self.i]
            assert self.t[self.i + 1] == "=", f"rnc: expected '=' after {name}"
            self.i += 2
            self.defs[name] = self.pattern()

    def peek(self) -> str | None:
        return self.t[self.i] if self.i < len(self.t) else None

    def pattern(self) -> Any:
        items = [self.postfix()]
        op = None
        while self.peek() in (",", "|"):
            if op is None:
                op = self.peek()
            assert self.peek() == op, "rnc: mixed , and | without parentheses"
            self.i += 1
            items.append(self.postfix())
        if op is None:
            return items[0]
        return ("group" if op == "," else "choice", items)

    def postfix(self) -> Any:
        p = self.primary()
        while self.peek() in ("?", "*", "+"):
            p = ({"?": "opt", "*": "star", "+": "plus"}[self.t[self.i]], p)
            self.i += 1
        return p

    def primary(self) -> Any:
        tok = self.t[self.i]
        if tok in ("element", "attribute"):
            name = self.t[self.i + 1]
            assert self.t[self.i + 2] == "{"
            self.i += 3
            p = self.pattern()
            assert self.t[self.i] == "}", f"rnc: expected }} in {tok} {name}"
            self.i += 1
            return (tok, name, p)
        if tok == "(":
            self.i += 1
            p = self.pattern()
            assert self.t[self.i] == ")"
            self.i += 1
            return p
        if tok == "empty":
            self.i += 1
            return ("empty",)
        if ":" in tok:  # datatype, optional facets
            self.i += 1
            facets: dict[str, str] = {}
            if self.peek() == "{":
                self.i += 1
                while self.t[self.i] != "}":
                    facets[self.t[self.i]] = self.t[self.i + 2].strip('"')
                    assert self.t[self.i + 1] == "="
                    self.i += 3
                self.i += 1
            return ("data", tok, facets)
        # a reference; it is a definition start if followed by '=' (handled by the caller's loop)
        self.i += 1
        return ("ref", tok)


B64_LEX = re.compile(r"^((([A-Za-z0-9+/] ?){4})*(([A-Za-z0-9+/] ?){3}[A-Za-z0-9+/]|([A-Za-z0-9+/] ?){2}[AEIMQUYcgkosw048] ?=|[A-Za-z0-9+/] ?[AQgw] ?= ?=))?$")
DATETIME_LEX = re.compile(r"^-?([1-9]\d{4,}|\d{4})-(\d\d)-(\d\d)T(\d\d):(\d\d):(\d\d)(\.\d+)?(Z|[+-](\d\d):(\d\d))?$")
DURATION_LEX = re.compile(r"^-?P(\d+Y)?(\d+M)?(\d+D)?(T(\d+H)?(\d+M)?(\d+(\.\d+)?S)?)?$")


def xsd_valid(typ: str, facets: dict[str, str], text: str) -> bool:
    """Lexical + facet validity for the XSD datatypes the schema uses (whitespace collapsed first)."""
    if typ == "xsd:string":
        return True
    t = " ".join(text.split(" ")).strip(" \t\n\r") if False else re.sub(r"[ \t\n\r]+", " ", text).strip(" ")
    if typ == "xsd:nonNegativeInteger":
        if not re.match(r"^(\+?\d+|-0+)$", t):
            return False
        v = int(t)
        if "maxInclusive" in facets and v > int(facets["maxInclusive"]):
            return False
        if "minInclusive" in facets and v < int(facets["minInclusive"]):
            return False
        return True
    if typ == "xsd:dateTime":
        m = DATETIME_LEX.match(t)
        if not m:
            return False
        y, mo, d, h, mi, s = (int(m.group(i)) for i in range(1, 7))
        if y == 0 or not 1 <= mo <= 12 or h > 24 or mi > 59 or s > 59 or (h == 24 and (mi or s)):
            return False
        dim = [31, 29 if (y % 4 == 0 and y % 100 != 0) or y % 400 == 0 else 28, 31, 30, 31, 30, 31, 31, 30, 31, 30, 31][mo - 1]
        if not 1 <= d <= dim:
            return False
        if m.group(9) and (int(m.group(9)) > 14 or int(m.group(10)) > 59):
            return False
        return True
    if typ == "xsd:duration":
        m = DURATION_LEX.match(t)
        if not m:
            return False
        if not any(m.group(i) for i in (1, 2, 3, 5, 6, 7)):
            return False
        if m.group(4) is not None and not any(m.group(i) for i in (5, 6, 7)):
            return False
        return True
    if typ == "xsd:base64Binary":
        return bool(B64_LEX.match(t))
    raise ValueError(f"rnc: datatype {typ} not interpreted")


class RncValidator:
    def __init__(self, grammar: Rnc) -> None:
        self.g = grammar

    def validate(self, root: ET.Element) -> list[str]:
        """Errors of the document against `start` ([] = valid)."""
        self.errors: list[str] = []
        ok = self.match_items(self.g.defs["start"], [root], 0, {}, frozenset())
        if not any(i == 1 for i, _ in ok):
            return self.errors[-3:] or ["root element does not match start"]
        return []

    # matching of a content pattern against (children[i:], attributes) — returns the set of reachable
    # states (next child index, attributes consumed)
    def match_items(self, p: Any, ch: list[ET.Element], i: int, attrs: dict[str, str], used: frozenset[str]) -> set[tuple[int, frozenset[str]]]:
        kind = p[0]
        if kind == "ref":
            return self.match_items(self.g.defs[p[1]], ch, i, attrs, used)
        if kind == "group":
            states = {(i, used)}
            for q in p[1]:
                nxt: set[tuple[int, frozenset[str]]] = set()
                for j, u in states:
                    nxt |= self.match_items(q, ch, j, attrs, u)
                states = nxt
                if not states:
                    break
            return states
        if kind == "choice":
            out: set[tuple[int, frozenset[str]]] = set()
            for q in p[1]:
                out |= self.match_items(q, ch, i, attrs, used)
            return out
        if kind == "opt":
            return {(i, used)} | self.match_items(p[1], ch, i, attrs, used)
        if kind in ("star", "plus"):
            seen: set[tuple[int, frozenset[str]]] = set()
            frontier = self.match_items(p[1], ch, i, attrs, used)
            res = set(frontier) if kind == "plus" else {(i, used)} | set(frontier)
            while frontier:
                nxt = set()
                for j, u in frontier:
                    for st in self.match_items(p[1], ch, j, attrs, u):
                        if st not in seen and st != (j, u):
                            seen.add(st)
                            nxt.add(st)
                res |= nxt
                frontier = nxt
            return res
        if kind == "attribute":
            name = p[1]
            if name in attrs and name not in used and self.match_text(p[2], attrs[name]):
                return {(i, used | {name})}
            if name in attrs and name not in used:
                self.errors.append(f"attribute {name}={attrs[name]!r} fails its datatype")
            return set()
        if kind == "element":
            if i < len(ch) and ch[i].tag == p[1] and self.match_element(p[2], ch[i]):
                return {(i + 1, used)}
            return set()
        if kind == "empty":
            return {(i, used)}
        if kind == "data":
            return set()  # text is matched by match_element
        raise ValueError(kind)

    def match_text(self, p: Any, text: str) -> bool:
        if p[0] == "ref":
            return self.match_text(self.g.defs[p[1]], text)
        if p[0] == "data":
            return xsd_valid(p[1], p[2], text)
        if p[0] == "choice":
            return any(self.match_text(q, text) for q in p[1])
        return False

    def is_text_pattern(self, p: Any) -> bool:
        if p[0] == "ref":
            return self.is_text_pattern(self.g.defs[p[1]])
        return p[0] == "data"

    def match_element(self, p: Any, el: ET.Element) -> bool:
        children = list(el)
        attrs = dict(el.attrib)
        if self.is_text_pattern(p):
            if children or attrs:
                self.errors.append(f"<{el.tag}>: text element with children/attributes")
                return False
            if not self.match_text(p, el.text or ""):
                self.errors.append(f"<{el.tag}>{(el.text or '')[:40]!r} fails its datatype")
                return False
            return True
        # element-only content: no character data besides whitespace
        if (el.text or "").strip(" \t\n\r") or any((c.tail or "").strip(" \t\n\r") for c in children):
            self.errors.append(f"<{el.tag}>: character data in element-only content")
            return False
        states = self.match_items(p, children, 0, attrs, frozenset())
        ok = any(j == len(children) and u == frozenset(attrs) for j, u in states)
        if not ok:
            self.errors.append(f"<{el.tag}>: children {[c.tag for c in children][:12]} / attributes {sorted(attrs)} do not match the content model")
        return ok


_RNC: RncValidator | None = None


def schema() -> RncValidator:
    global _RNC
    if _RNC is None:
        _RNC = RncValidator(Rnc((REPO / "schema" / "ksr.rnc").read_text()))
    return _RNC


# --------------------------------------------------------------------------------------
# independent extractor: ElementTree -> Response (written from the schema, not from skr/load.py)
# --------------------------------------------------------------------------------------


def xsd_duration_us(text: str) -> int:
    m = re.match(r"^P(?:(\d+)D)?(?:T(?:(\d+)H)?(?:(\d+)M)?(?:(\d+)S)?)?$", text.strip())
    if not m:
        raise ValueError(f"extractor: duration {text!r}")
    d, h, mi, s = (int(x) if x else 0 for x in m.groups())
    return (((d * 24 + h) * 60 + mi) * 60 + s) * SEC


def xsd_datetime(text: str) -> datetime:
    m = re.match(r"^(\d{4})-(\d\d)-(\d\d)T(\d\d):(\d\d):(\d\d)(?:Z|\+00:00)$", text.strip())
    if not m:
        raise ValueError(f"extractor: dateTime {text!r}")
    return datetime(*(int(x) for x in m.groups()), tzinfo=timezone.utc)


def et_extract(root: ET.Element) -> Any:
    from kskm.common.data import AlgorithmDNSSEC, AlgorithmPolicyRSA, Key, Signature, SignaturePolicy, TypeDNSSEC
    from kskm.skr.data import Response, ResponseBundle

    def txt(el: ET.Element, name: str) -> str:
        c = el.findall(name)
        if len(c) != 1:
            raise ValueError(f"extractor: {name} x{len(c)} in {el.tag}")
        return c[0].text or ""

    def pol(el: ET.Element) -> Any:
        algs = set()
        for sa in el.findall("SignatureAlgorithm"):
            rsa = sa.find("RSA")
            assert rsa is not None
            algs.add(AlgorithmPolicyRSA(bits=int(rsa.attrib["size"]), exponent=int(rsa.attrib["exponent"]), algorithm=AlgorithmDNSSEC(int(sa.attrib["algorithm"]))))
        f = lambda n: us_td(xsd_duration_us(txt(el, n)))  # noqa: E731
        return SignaturePolicy(
            publish_safety=f("PublishSafety"),
            retire_safety=f("RetireSafety"),
            max_signature_validity=f("MaxSignatureValidity"),
            min_signature_validity=f("MinSignatureValidity"),
            max_validity_overlap=f("MaxValidityOverlap"),
            min_validity_overlap=f("MinValidityOverlap"),
            algorithms=algs,
        )

    resp = root.find("Response")
    assert root.tag == "KSR" and resp is not None
    rp = resp.find("ResponsePolicy")
    assert rp is not None
    bundles = []
    for b in resp.findall("ResponseBundle"):
        keys = {
            Key(
                key_identifier=k.attrib["keyIdentifier"],
                key_tag=int(k.attrib["keyTag"]),
                ttl=int(txt(k, "TTL")),
                flags=int(txt(k, "Flags")),
                protocol=int(txt(k, "Protocol")),
                algorithm=AlgorithmDNSSEC(int(txt(k, "Algorithm"))),
                public_key=txt(k, "PublicKey").encode(),
            )
            for k in b.findall("Key")
        }
        sigs = {
            Signature(
                key_identifier=s.attrib["keyIdentifier"],
                ttl=int(txt(s, "TTL")),
                type_covered=TypeDNSSEC[txt(s, "TypeCovered")],
                algorithm=AlgorithmDNSSEC(int(txt(s, "Algorithm"))),
                labels=int(txt(s, "Labels")),
                original_ttl=int(txt(s, "OriginalTTL")),
                signature_expiration=xsd_datetime(txt(s, "SignatureExpiration")),
                signature_inception=xsd_datetime(txt(s, "SignatureInception")),
                key_tag=int(txt(s, "KeyTag")),
                signers_name=txt(s, "SignersName"),
                signature_data=txt(s, "SignatureData").encode(),
            )
            for s in b.findall("Signature")
        }
        bundles.append(ResponseBundle(id=b.attrib["id"], inception=xsd_datetime(txt(b, "Inception")), expiration=xsd_datetime(txt(b, "Expiration")), keys=keys, signatures=sigs))
    k = rp.find("KSK")
    z = rp.find("ZSK")
    assert k is not None and z is not None
    return Response(id=root.attrib["id"], serial=int(root.attrib["serial"]), domain=root.attrib["domain"], timestamp=None, bundles=bundles, ksk_policy=pol(k), zsk_policy=pol(z))


def et_tree(el: ET.Element) -> dict[str, Any]:
    """ElementTree element -> the JSON shape of the model's XTree."""
    attrs = [[k, v] for k, v in el.attrib.items()]
    children = list(el)
    if children:
        return {"name": el.tag, "attrs": attrs, "children": [et_tree(c) for c in children]}
    if el.text is None:
        return {"name": el.tag, "attrs": attrs}
    return {"name": el.tag, "attrs": attrs, "text": el.text}


def key_order_ok(root: ET.Element) -> bool:
    for b in root.iter("ResponseBundle"):
        tags = [int(k.attrib["keyTag"]) for k in b.findall("Key")]
        if tags != sorted(tags):
            return False
    return True


# --------------------------------------------------------------------------------------
# one response through (a)–(d)
# --------------------------------------------------------------------------------------


def describe(resp: Any) -> dict[str, Any]:
    return {"response": response_j(resp)}


def response_from_j(j: dict[str, Any]) -> Any:
    """Rebuild the repo objects from the JSON shape of lib.response_j (for --replay)."""
    from kskm.common.data import AlgorithmDNSSEC, AlgorithmPolicyRSA, Key, Signature, SignaturePolicy, TypeDNSSEC
    from kskm.skr.data import Response, ResponseBundle

    def pol(p: dict[str, Any]) -> Any:
        return SignaturePolicy(
            publish_safety=us_td(p["publishSafety"]),
            retire_safety=us_td(p["retireSafety"]),
            max_signature_validity=us_td(p["maxSignatureValidity"]),
            min_signature_validity=us_td(p["minSignatureValidity"]),
            max_validity_overlap=us_td(p["maxValidityOverlap"]),
            min_validity_overlap=us_td(p["minValidityOverlap"]),
            algorithms={AlgorithmPolicyRSA(bits=a["bits"], exponent=a["exponent"], algorithm=AlgorithmDNSSEC(a["algorithm"])) for a in p["algorithms"]},
        )

    bundles = []
    for b in j["bundles"]:
        keys = {Key.model_construct(key_identifier=k["keyIdentifier"], key_tag=k["keyTag"], ttl=k["ttl"], flags=k["flags"], protocol=k["protocol"], algorithm=AlgorithmDNSSEC(k["algorithm"]), public_key=k["publicKey"].encode("utf-8", "surrogateescape")) for k in b["keys"]}
        sigs = {
            Signature(
                key_identifier=s["keyIdentifier"],
                ttl=s["ttl"],
                type_covered=TypeDNSSEC(s["typeCovered"]),
                algorithm=AlgorithmDNSSEC(s["algorithm"]),
                labels=s["labels"],
                original_ttl=s["originalTtl"],
                signature_expiration=us_dt(s["expiration"]),
                signature_inception=us_dt(s["inception"]),
                key_tag=s["keyTag"],
                signers_name=s["signersName"],
                signature_data=s["signatureData"].encode("utf-8", "surrogateescape"),
            )
            for s in b["signatures"]
        }
        bundles.append(ResponseBundle(id=b["id"], inception=us_dt(b["inception"]), expiration=us_dt(b["expiration"]), keys=keys, signatures=sigs))
    return Response(id=j["id"], serial=j["serial"], domain=j["domain"], timestamp=None if j["timestamp"] is None else us_dt(j["timestamp"]), bundles=bundles, ksk_policy=pol(j["kskPolicy"]), zsk_policy=pol(j["zskPolicy"]))


def judge_response(res: Result, tag: str, resp: Any, model_text: Any, model_tree: Any, *, real: bool, sample: bool = False, zone: str | None = None) -> tuple[Any, Any]:
    """Property clauses (b)(c)(d) on the implementation + tie (a) for one response.  `zone`: the name of the time zone the
    PROCESS is in while this runs (the caller switched it; recorded in the case so that --replay switches too)."""
    from kskm.common.config_misc import ResponsePolicy
    from kskm.skr.load import response_from_xml
    from kskm.skr.output import skr_to_xml
    from kskm.skr.validate import validate_response

    dom, why = in_domain(resp)
    special = None if dom else special_text_class(resp)  # reachable all the same: XML-special text handed over verbatim
    n = len(resp.bundles)
    case = {"tag": tag, "n_bundles": n, "real_signatures": real, "in_domain": dom, **describe(resp)}
    if special:
        case["verbatim_text"] = special
        res.bump("verbatim-text:" + special)
    if zone is not None:
        case["process_time_zone"] = zone
    res.count({"tag": tag, "r": case["response"]})
    res.bump(f"bundles:{n}")
    res.bump("domain:in" if dom else f"domain:out:{why}")
    groups = [g for b in resp.bundles for g in shared_tag_groups(b)]
    case["shared_key_tags"] = groups
    if groups:
        res.bump("shared-key-tag:responses" + (":real-signatures" if real else ":arbitrary-signatures"))
        for g in groups:
            res.bump("shared-key-tag:bundle-group:" + g)
    impl_text = run_impl(lambda: skr_to_xml(resp), conv=lambda x: x)
    # (a) the tie
    if model_text is not None:
        if lib.is_unsupported(model_text):
            res.unsupported += 1
        elif not same_outcome(impl_text, model_text):
            res.disagreement("skr_to_xml: model text != implementation text", case, _clip(impl_text), _clip(model_text), first_difference=_first_diff(impl_text, model_text))
    if "ok" not in impl_text:
        if dom or special:
            res.violation("emitted SKR: the writer fails on a response of its domain", case, key=f"writer:{impl_text}", impl=impl_text)
        else:
            res.bump("out-of-domain:writer-error")
        return impl_text, None
    text = impl_text["ok"]
    if sample:
        res.sample({"tag": tag, "bundles": n, "text_head": text[:400], "text_len": len(text)})
    # (b) read back
    back = read_back(text)
    readback_ok = "ok" in back and back["ok"] == resp
    if dom or special:
        if not readback_ok:
            key = ("one-bundle" if n == 1 else "readback") if dom else f"readback-verbatim:{special}"
            res.violation(
                "emitted SKR does not read back",
                case,
                key=key,
                impl=_short_outcome(back),
                expected="response_from_xml(skr_to_xml(r)) == r",
                difference=None if "ok" not in back else _diff_response(resp, back["ok"]),
            )
    else:
        res.bump("out-of-domain:readback-" + ("same" if readback_ok else "differs"))
    # (c) validation of the re-read response
    if real and (dom or special) and readback_ok:
        v = run_impl(lambda: validate_response(back["ok"], ResponsePolicy(num_bundles=n, validate_signatures=True)), conv=bool)
        res.bump("validate_response:" + ("accepted" if v == {"ok": True} else "refused"))
        if v != {"ok": True}:
            res.violation("emitted SKR: re-read response fails validate_response", case, key="validate", impl=v)
    # (d) standards parser, schema, tree, extractor
    try:
        root = ET.fromstring(text.encode("utf-8", "surrogatepass"))
    except Exception as exc:  # noqa: BLE001
        root = None
        if dom or special == "references":
            res.violation("emitted SKR is not well-formed XML", case, key="wellformed", impl=repr(exc)[:200])
        elif special:
            res.bump("verbatim-text:not-wellformed in, not-wellformed out (read-back and validation judged)")
        else:
            res.bump("out-of-domain:not-wellformed")
    if root is not None:
        errs = schema().validate(root)
        if dom or special == "references":
            if errs:
                res.violation("emitted SKR does not conform to schema/ksr.rnc", case, key="schema", errors=errs)
            try:
                ext = et_extract(root)
            except Exception as exc:  # noqa: BLE001
                ext = exc
            # (texts with references: the standards parser shows them resolved — compared with this harness's own resolution)
            shown = resp if dom else as_standard_parser_shows(resp)
            if isinstance(ext, Exception) or ext != shown:
                res.violation(
                    "emitted SKR: a standards XML parser reads a different response",
                    case,
                    key="standards-parser" if dom else "standards-parser-verbatim",
                    impl=repr(ext)[:200] if isinstance(ext, Exception) else _diff_response(shown, ext),
                )
            if not key_order_ok(root):
                res.violation("emitted SKR: keys not in ascending key-tag order", case, key="key-order")
            if model_tree is not None and "tree" in model_tree:
                if dom and et_tree(root) != model_tree["tree"]:
                    res.disagreement("treeOf: model tree != ElementTree reading of the implementation's text", case, _clip(et_tree(root)), _clip(model_tree["tree"]))
                if model_tree.get("render") != text:
                    res.disagreement("renderDoc (treeOf r) != implementation text", case, _clip(text), _clip(model_tree.get("render")), first_difference=_first_diff({"ok": text}, {"ok": model_tree.get("render")}))
        else:
            res.bump("out-of-domain:schema-" + ("ok" if not errs else "violated"))
    return impl_text, back


def _clip(x: Any, n: int = 1500) -> Any:
    s = repr(x)
    return x if len(s) <= n else s[:n] + "…"


def _first_diff(a: Any, b: Any) -> Any:
    if isinstance(a, dict) and isinstance(b, dict) and "ok" in a and "ok" in b and isinstance(a["ok"], str) and isinstance(b["ok"], str):
        x, y = a["ok"], b["ok"]
        for i, (p, q) in enumerate(zip(x, y)):
            if p != q:
                return {"offset": i, "impl": x[max(0, i - 60) : i + 60], "model": y[max(0, i - 60) : i + 60]}
        return {"offset": min(len(x), len(y)), "impl_len": len(x), "model_len": len(y)}
    return None


def _short_outcome(o: Any) -> Any:
    if isinstance(o, dict) and "ok" in o:
        return {"ok": "<Response with %d bundles>" % len(o["ok"].bundles)}
    return o


def _diff_response(a: Any, b: Any) -> list[str]:
    out = []
    for f in ("id", "serial", "domain", "timestamp", "ksk_policy", "zsk_policy"):
        if getattr(a, f) != getattr(b, f):
            out.append(f"{f}: {getattr(a, f)!r:.150} != {getattr(b, f)!r:.150}")
    if len(a.bundles) != len(b.bundles):
        out.append(f"bundle count {len(a.bundles)} != {len(b.bundles)}")
    for i, (x, y) in enumerate(zip(a.bundles, b.bundles)):
        for f in ("id", "inception", "expiration"):
            if getattr(x, f) != getattr(y, f):
                out.append(f"bundle {i} {f}: {getattr(x, f)!r} != {getattr(y, f)!r}")
        if x.keys != y.keys:
            out.append(f"bundle {i} keys differ: only-in-original={[ (k.key_identifier, k.key_tag, k.public_key[:40]) for k in x.keys - y.keys][:3]} only-in-reread={[(k.key_identifier, k.key_tag, k.public_key[:40]) for k in y.keys - x.keys][:3]}")
        if x.signatures != y.signatures:
            out.append(f"bundle {i} signatures differ")
    return out[:8]


# --------------------------------------------------------------------------------------
# (e) truncation
# --------------------------------------------------------------------------------------


def load_like_load_skr(data: bytes, n_bundles: int) -> Any:
    """decode + response_from_xml + validate_response — the steps of skr.load.load_skr after the read."""
    from kskm.common.config_misc import ResponsePolicy
    from kskm.skr.load import response_from_xml
    from kskm.skr.validate import validate_response

    resp = response_from_xml(data.decode())
    validate_response(resp, ResponsePolicy(num_bundles=n_bundles, validate_signatures=True))
    return resp


def truncation(res: Result, tag: str, resp: Any, policy_bundles: int) -> None:
    from kskm.skr.output import skr_to_xml

    data = skr_to_xml(resp).encode()
    full = run_impl(lambda: load_like_load_skr(data, policy_bundles), conv=lambda x: x)
    res.bump(f"truncation:file:{tag}:bytes", len(data))
    if "ok" not in full or full["ok"] != resp:
        # nothing to compare prefixes with (e.g. the one-bundle defect): every prefix must still fail or equal `resp`
        res.bump(f"truncation:{tag}:full-file-does-not-load")
    loaded_same = 0
    for k in range(len(data)):
        prefix = data[:k]
        has_end = b"</KSR>" in prefix
        out = run_impl(lambda: guarded(lambda: load_like_load_skr(prefix, policy_bundles)), conv=lambda x: x)
        res.evaluations += 1
        if "ok" in out:
            if out["ok"] == resp:
                loaded_same += 1
                res.bump("truncation:prefix-loads-identically")
                if k != len(data) - 1:
                    res.notes.append(f"truncation {tag}: prefix of {k}/{len(data)} bytes loads identically (not only the final-newline cut)")
            else:
                res.violation(
                    "truncated SKR loads to a different response",
                    {"tag": tag, "offset": k, "file_bytes": len(data), **describe(resp)},
                    key=f"truncation:{tag}",
                    impl={"bundles": len(out["ok"].bundles)},
                    difference=_diff_response(resp, out["ok"]),
                )
        else:
            res.bump("truncation:prefix-fails:" + next(iter(out.values())))
        if has_end and k < len(data) - 1:
            res.violation("emitted SKR: the closing </KSR> occurs before the end of the file", {"tag": tag, "offset": k, **describe(resp)}, key="closing-tag-position")
    res.distinct.add(f"truncation:{tag}:{len(data)}")


# --------------------------------------------------------------------------------------
# (g) codecs
# --------------------------------------------------------------------------------------


def iso_duration_spec(s: str) -> Any:
    """ISO 8601 / xsd:duration semantics for the regular grammar PnWnDTnHnMnS (integers):
    value in µs, 'months' when a month designator is present (must not be read as minutes), None when
    the string is not in this grammar (no verdict)."""
    m = re.fullmatch(r"P(?:(\d+)W)?(?:(\d+)(M))?(?:(\d+)D)?(?:T(?:(\d+)H)?(?:(\d+)M)?(?:(\d+)S)?)?", s)
    if not m or s == "P" or s.endswith("T") or not s.isascii():
        return None
    w, mon, monflag, d, h, mi, sec = m.groups()
    if monflag:
        return "months"
    if max(len(x or "") for x in (w, d, h, mi, sec)) > 4300:
        return None
    tot = (((int(w or 0) * 7 + int(d or 0)) * 24 + int(h or 0)) * 60 + int(mi or 0)) * 60 + int(sec or 0)
    if tot // 86400 > 999999999 or max(int(x or 0) * u for x, u in ((w, 7), (d, 1), (h, 0), (mi, 0), (sec, 0))) > 999999999:
        return None
    return tot * SEC


def gen_duration_strings(r: Any, n: int) -> list[str]:
    from kskm.skr.output import timedelta_to_duration

    out = ["", "P", "PT", "PT0S", "P1D5", "P0D-86400", "P1D 5", "P1D\t5\n", "P1D+5", "P1D-5", "P1D5_0", "P1D_5", "P1D5_", "P1D5__0", "PT1H5M", "P1M", "P1MT1M", "PT1M", "P1DT", "P1D\nGARBAGE", "P1D\n5", "P1DT1H\nX", "P1W2DT3H4M5S", "P1w", "p1D", " P1D", "P1D ", "P-1D", "P+1D", "P1.5D", "PT1.5S", "P1Y", "P١D", "P1D٣", "P1D 5", "P1٣D", "P1D５", "PTT5M", "PT5MT", "PT5MT6S", "P1DT2D", "P5", "P5X", "PD", "PTS", "P1DZ", "1D", "T1H", "P1D\x005", "P1D5\x00", "P" + "0" * 4300 + "D", "P" + "0" * 4301 + "D", "P1D" + "0" * 4300, "P1D" + "0" * 4301, "P1D" + "1" * 4301, "P999999999D", "P1000000000D", "P999999999DT86399S", "P999999999DT86400S", "P142857142W", "P142857143W", "P0D-86399913600001", "P0D-86399913600000", "P0D-86400000000000", "P0D-86399999913600", "P0D-86399999913601", "P0D" + "9" * 30, "P1DT1H1M1S1", "PT59S", "PT60S", "PT60M", "PT24H", "P1D\r5", "P1D\x0b5\x0c", "P1D\x1c5"]
    for s in BOUNDARY_SECONDS:
        out.append(timedelta_to_duration(timedelta(seconds=s)))
    alpha = "PTWDHMS0123456789"
    noise = " -+_\n.,YZx:\t٣é\x00"
    while len(out) < n:
        x = r.random()
        if x < 0.35:
            # regular grammar with random components (the ISO oracle has a verdict on these)
            s = "P"
            if r.random() < 0.2:
                s += f"{r.randrange(0, 60)}W"
            if r.random() < 0.1:
                s += f"{r.randrange(0, 20)}M"
            if r.random() < 0.6:
                s += f"{r.choice([0, 1, 9, 10, 400, r.randrange(0, 500), 10**r.randrange(0, 12)])}D"
            if r.random() < 0.6:
                t = ""
                if r.random() < 0.5:
                    t += f"{r.choice([0, 1, 23, 24, 25, r.randrange(0, 100)])}H"
                if r.random() < 0.5:
                    t += f"{r.choice([0, 1, 59, 60, 61, r.randrange(0, 1000)])}M"
                if r.random() < 0.5:
                    t += f"{r.choice([0, 1, 59, 60, 61, 3600, r.randrange(0, 10**6)])}S"
                s += "T" + t
            out.append(s)
        elif x < 0.55:
            out.append(timedelta_to_duration(timedelta(seconds=r.randrange(0, 401 * 86400))))
        elif x < 0.75:
            # mutate a valid one
            s = list(timedelta_to_duration(timedelta(seconds=r.randrange(0, 401 * 86400))))
            for _ in range(r.randrange(1, 3)):
                op = r.random()
                pos = r.randrange(0, len(s) + 1)
                if op < 0.4:
                    s.insert(pos, r.choice(alpha + noise))
                elif op < 0.7 and s:
                    del s[min(pos, len(s) - 1)]
                elif s:
                    s[min(pos, len(s) - 1)] = r.choice(alpha + noise)
            out.append("".join(s))
        else:
            ln = r.randrange(0, 12)
            out.append(("P" if r.random() < 0.8 else "") + "".join(r.choice(alpha if r.random() < 0.8 else noise) for _ in range(ln)))
    return out


def gen_datetime_strings(r: Any, n: int) -> list[str]:
    from kskm.skr.output import format_datetime

    out = [
        "2020-01-01T12:30:+00:00", "2020-01-01T12:30:45.123456\x00junk", "2020-01-01T12:30:45+00:00:00.5", "2020-01-01T12:30:45-00:00", "2020-01-01T12:30:45+0000",
        "2020-01-01T12:30:45+00", "2020-01-01T12Z\x00x", "2020-01-01T123045123456", "2020-01-01T12:30:45:123", "20200101T120000", "2020-01-01", "2020-01-01T", "2020-01-01é12:00",
        "0999-01-01T00:00:00", "999-01-01T00:00:00+00:00", "2020-01-01T24:00:00", "2020-01-01T12:30:45,5", "2020-01-01T12:30:45.1234567", "2020001", "2020-W01", "2020W01", "2020-W01-1",
        "2020-01-01T12:30:45+00:00:00", "2020-01-01T12:30:45+00:00:01", "2020-01-01 12", "2020-01-01T1", "0000-01-01", "2020-02-30", "2020-02-29", "2019-02-29", "1900-02-29", "2000-02-29",
        "2020-01-01T12+", "2020-01-01T12:+00", "2020-01-01T12:30:45.+00:00", "2020-01-01T12:30:45.", "2020-01-01T12:3", "2020-01-01T-00:00", "2010-06-30T23:59:59Z", "2010-06-30T23:59:59ZZZ",
        "2010-06-30T23:59:59+00:00Z", "2010-06-30T23:59:59Z+00:00", "2010-06-30T23:59:59+01:00", "2010-06-30T23:59:59-01:00", "2010-06-30T23:59:59+24:00", "2010-06-30T23:59:59+00:00:00.000001",
        "2010-06-30T23:59:60", "2010-06-30T23:60:00", "2010-13-01T00:00:00", "2010-00-01", "2010-01-00", "2010-01-32", "9999-12-31T23:59:59", "10000-01-01T00:00:00", "2010-06-30T23:59:59.1", "2010-06-30T23:59:59.12",
        "2010-06-30T23:59:59.123", "2010-06-30T23:59:59.1234", "2010-06-30T23:59:59.12345", "2010-06-30T23:59:59.123456", "2010-06-30T23:59:59.123456789", "2010-06-30T235959", "2010-06-30T2359", "2010-06-30T23",
        "2010-06-30T23:59", "2010-06-30T23:5959", "2010-06-30T2359:59", "20100630", "20100630T23", "2010063", "2010-06-3", "2010-6-30", "2010-06-30T23:59:59 +00:00", "2010-06-30T23:59:59+00:00 ", " 2010-06-30T23:59:59",
        "2010-06-30 T23:59:59", "2010-06-30T23:59:59é", "２０１０-06-30", "2010-06-30T٢٣:59:59", "Z", "ZZZZZZZZ", "", "2010-06-30TZ", "2010-06-30T23:59:59+", "2010-06-30T23:59:59-", "2010-06-30T23:59:59+0", "2010-06-30T23:59:59+00:",
        "2010-06-30T23:59:59+00:0", "2010-06-30T23:59:59+000000", "2010-06-30T23:59:59+00:00:00:5", "2010-06-30T23:59:59.+", "2010-06-30T23:59:59,", "2010-06-30T23:59:59.x", "2010-06-30T23:59:59.123x", "2010-06-30T23:59:59.1234567x",
        "2010-06-30T23:59:59\x00", "2010-06-30T23:59\x00", "2010-06-30T23\x00junk", "2010-06-30\x0023:59:59", "2010-06-30T23:59:59.5\x00+05:00", "2010-06-30T23:59:59.5\x00Z", "2010-06-30T23:59:59+00:00\x00x",
    ]
    alpha = "0123456789-:T+Z., W\x00é"
    while len(out) < n:
        x = r.random()
        base = format_datetime(us_dt(r.randrange(-62135596800, 253402300800) * SEC))
        if len(base) < 25:
            base = base.rjust(25, "0")
        if x < 0.25:
            out.append(base)
        elif x < 0.5:
            # structured variants
            d, t = base[:10], base[11:19]
            if r.random() < 0.2:
                d = d.replace("-", "")
            if r.random() < 0.2:
                t = t.replace(":", "")
            t = t[: r.choice([2, 5, 8, 8, 8, len(t)])] if ":" in t else t[: r.choice([2, 4, 6, 6, len(t)])]
            frac = r.choice(["", "", ".5", ",25", ".123456", ".1234567", ".", ":5"])
            tz = r.choice(["", "", "Z", "+00:00", "-00:00", "+0000", "+00", "+01:00", "-00:01", "+00:00:00", "+00:00:01", "+00:00:00.5", "ZZ", "+", "Z+00:00"])
            sep = r.choice(["T", "T", " ", "t", "_", "é", "0", "-", "\x00"])
            out.append(d + sep + t + frac + tz)
        elif x < 0.8:
            s = list(base if r.random() < 0.7 else base[:19])
            for _ in range(r.randrange(1, 3)):
                op = r.random()
                pos = r.randrange(0, len(s) + 1)
                if op < 0.4:
                    s.insert(pos, r.choice(alpha))
                elif op < 0.7 and s:
                    del s[min(pos, len(s) - 1)]
                elif s:
                    s[min(pos, len(s) - 1)] = r.choice(alpha)
            out.append("".join(s))
        else:
            out.append("".join(r.choice(alpha) for _ in range(r.randrange(0, 30))))
    return out


def codecs(res: Result, tier: str, driver_ok: bool) -> None:
    from kskm.common.parse_utils import duration_to_timedelta, parse_datetime
    from kskm.skr.output import _indent, format_datetime, timedelta_to_duration

    r = lib.rng("C11:codecs")
    big = tier == "thorough"
    lines: list[dict[str, Any]] = []
    cases: list[tuple[str, Any, Any]] = []

    # --- format_duration + round trip on the implementation
    durs = [s * SEC for s in BOUNDARY_SECONDS] + [-SEC, -DAY, -DAY - SEC, -1, 1, 999999, SEC + 1, DAY + 500000, -DAY + 1, 999999999 * DAY, -999999999 * DAY]
    durs += [r.randrange(0, 401 * 86400) * SEC for _ in range(12000 if big else 3000)]
    durs += [r.randrange(-(10**12), 10**12) for _ in range(2000 if big else 500)]
    for us in durs:
        impl = run_impl(lambda: timedelta_to_duration(us_td(us)), conv=lambda x: x)
        cases.append(("format_duration", us, impl))
        lines.append({"op": "format_duration", "us": us})
        if "ok" in impl and us >= 0 and us % SEC == 0:
            back = run_impl(lambda: duration_to_timedelta(impl["ok"]), conv=td_us)
            res.bump("codec:duration-roundtrip")
            if back != {"ok": us}:
                res.violation("duration codec: whole-second duration does not round-trip", {"kind": "duration_roundtrip", "us": us, "text": impl["ok"]}, key="duration-roundtrip", impl=back)
            if not xsd_valid("xsd:duration", {}, impl["ok"]):
                res.violation("duration codec: emitted text is not an xsd:duration", {"kind": "duration_roundtrip", "us": us, "text": impl["ok"]}, key="duration-lexical")
    # --- parse_duration
    for s in gen_duration_strings(r, 24000 if big else 6000):
        impl = run_impl(lambda: duration_to_timedelta(s), conv=td_us)
        cases.append(("parse_duration", s, impl))
        lines.append({"op": "parse_duration", "text": s})
        want = iso_duration_spec(s)
        if want is not None:
            res.bump("codec:iso-duration-oracle")
            if want == "months":
                if "ok" in impl:
                    res.violation("duration codec: a month designator is read as a number", {"kind": "parse_duration", "text": s}, key="duration-months", impl=impl)
            elif impl != {"ok": want}:
                res.violation("duration codec: reader value differs from ISO 8601 semantics", {"kind": "parse_duration", "text": s}, key="duration-semantics", impl=impl, expected=want)
    # --- format_datetime + round trip
    insts = [0, -SEC, SEC, -1, 1, 999999, -62135596800 * SEC, 253402300799 * SEC, 253402300799 * SEC + 999999, -30610224000 * SEC, -30610224000 * SEC - SEC, 951782400 * SEC, 951868799 * SEC, 4107542400 * SEC, 2**31 * SEC, 2**32 * SEC]
    insts += [r.randrange(-62135596800, 253402300800) * SEC for _ in range(8000 if big else 2500)]
    insts += [r.randrange(-62135596800 * SEC, 253402300800 * SEC) for _ in range(2000 if big else 500)]
    for us in insts:
        tz = r.choice([timezone.utc, timezone.utc, timezone(timedelta(hours=2)), timezone(timedelta(hours=-11, minutes=-30))])
        impl = run_impl(lambda: format_datetime(us_dt(us).astimezone(tz)), conv=lambda x: x)
        if "error" in impl and tz is not timezone.utc:
            impl = run_impl(lambda: format_datetime(us_dt(us)), conv=lambda x: x)  # astimezone overflow at the ends of the range
        cases.append(("format_datetime", us, impl))
        lines.append({"op": "format_datetime", "us": us})
        if "ok" in impl and us % SEC == 0 and 1000 <= us_dt(us).year <= 9999:
            back = run_impl(lambda: parse_datetime(impl["ok"]), conv=dt_us)
            res.bump("codec:datetime-roundtrip")
            if back != {"ok": us}:
                res.violation("timestamp codec: whole-second instant does not round-trip", {"kind": "datetime_roundtrip", "us": us, "text": impl["ok"]}, key="datetime-roundtrip", impl=back)
            if not xsd_valid("xsd:dateTime", {}, impl["ok"]):
                res.violation("timestamp codec: emitted text is not an xsd:dateTime", {"kind": "datetime_roundtrip", "us": us, "text": impl["ok"]}, key="datetime-lexical")
    # --- parse_datetime
    for s in gen_datetime_strings(r, 24000 if big else 6000):
        impl = run_impl(lambda: parse_datetime(s), conv=dt_us)
        cases.append(("parse_datetime", s, impl))
        lines.append({"op": "parse_datetime", "text": s})
    # --- _indent
    pieces = ["", "", "\n", " ", "    ", "\t", " ", " ", "\x1c", "<a>", "</a>", "x", "<b c=\"d\"/>", "  y  ", "\r", "\x0b"]
    for _ in range(6000 if big else 1500):
        s = "".join(r.choice(pieces) + ("\n" if r.random() < 0.5 else "") for _ in range(r.randrange(0, 9)))
        impl = run_impl(lambda: _indent(s), conv=lambda x: x)
        cases.append(("indent", s, impl))
        lines.append({"op": "indent", "text": s})
    # --- civil calendar vs datetime.date ordinals
    days = [0, -1, 1, -719162, 2932896, 11016, 11017, 11382, -25509, 47540] + [r.randrange(-719162, 2932897) for _ in range(3000 if big else 800)]
    for z in days:
        d = date.fromordinal(z + 719163)
        cases.append(("civil_of_days", z, {"ok": [d.year, d.month, d.day]}))
        lines.append({"op": "civil_of_days", "days": z})
        cases.append(("days_of_civil", [d.year, d.month, d.day], {"ok": z}))
        lines.append({"op": "days_of_civil", "y": d.year, "m": d.month, "d": d.day})
    # --- str.isspace table
    codes = [c for c in range(0, 0x110000 if big else 0x3100) if not 0xD800 <= c <= 0xDFFF]
    if not big:
        codes += [r.randrange(0x3100, 0x110000) for _ in range(2000)]
    for i in range(0, len(codes), 20000):
        chunk = codes[i : i + 20000]
        cases.append(("is_space", chunk, {"ok": [chr(c).isspace() for c in chunk]}))
        lines.append({"op": "is_space", "codes": chunk})

    model = run_driver(lines, exe=DRIVER) if driver_ok else [None] * len(lines)
    for (kind, inp, impl), m in zip(cases, model):
        res.count({"codec": kind, "in": inp if not isinstance(inp, list) or len(inp) < 10 else len(inp)}, nontrivial=True)
        res.bump(f"codec:{kind}")
        if kind in ("parse_duration", "parse_datetime"):
            res.bump(f"codec:{kind}:" + ("ok" if "ok" in impl else "error"))
        if m is None:
            continue
        if kind in ("civil_of_days", "days_of_civil", "is_space", "indent", "format_duration"):
            mm = {"ok": m}
        else:
            mm = m
        if lib.is_unsupported(mm):
            # since work package B2 the codec models answer every text (week dates, non-ASCII octets, Unicode digits)
            res.bump(f"codec:{kind}:unsupported")
            res.disagreement(f"codec {kind}: the model declines an input", {"kind": kind, "input": _clip(inp, 300)}, _clip(impl, 300), mm)
            continue
        if not same_outcome(impl, mm):
            if kind == "format_datetime" and "error" in impl and "ok" in mm:
                continue  # no such datetime object (overflow while building the input), nothing to compare
            res.disagreement(f"codec {kind}: model != implementation", {"kind": kind, "input": _clip(inp, 300)}, _clip(impl, 300), _clip(mm, 300))


# --------------------------------------------------------------------------------------
# (g2) ISO week dates and Unicode decimal digits (work package B2): no `unsupported` any more
# --------------------------------------------------------------------------------------

WEEK_YEARS = [0, 1, 2, 4, 5, 1000, 1582, 1999, 2000, 2004, 2009, 2015, 2016, 2020, 2024, 2025, 2026, 2032, 9998, 9999]
# 2004/2032: leap, start on Thursday; 2020: leap, starts on Wednesday (53 weeks); 2025: starts on Wednesday, not leap (52);
# 2009/2015/2026: start on Thursday (53); 2016: leap, starts on Friday (52); 1/9999: the edges of `datetime`.


def iso_week_spec(year: int, week: int, day: int) -> int | None:
    """ISO 8601, from the standard's wording (not from CPython's iso_to_ymd): week 1 is the week (Monday..Sunday) with
    4 January in it; 28 December is always in the last week of its year; days 1..7 = Monday..Sunday.
    Proleptic ordinal (1 = 0001-01-01, a Monday) of year-Wweek-day, None when there is no such week/day."""

    def ordinal(y: int, m: int, d: int) -> int:
        y0 = y - 1
        before = [0, 31, 59, 90, 120, 151, 181, 212, 243, 273, 304, 334][m - 1]
        leap = (y % 4 == 0 and y % 100 != 0) or y % 400 == 0
        return y0 * 365 + y0 // 4 - y0 // 100 + y0 // 400 + before + (1 if leap and m > 2 else 0) + d

    if year < 1 or not 1 <= day <= 7 or week < 1:
        return None
    jan4 = ordinal(year, 1, 4)
    monday1 = jan4 - (jan4 - 1) % 7
    dec28 = ordinal(year, 12, 28)
    last_week = (dec28 - monday1) // 7 + 1
    if week > last_week:
        return None
    return monday1 + 7 * (week - 1) + (day - 1)


WEEK_RE = re.compile(r"(\d{4})(?:-W(\d\d)(?:-(\d))?|W(\d\d)(\d)?)(?:T(\d\d):(\d\d):(\d\d)(Z|\+00:00)?)?")


def week_text_spec(s: str) -> Any:
    """verdict of the ISO oracle on a text of the strict forms YYYY-Www[-d] / YYYYWww[d] [Thh:mm:ss[Z|+00:00]]:
    {"ok": µs} / {"error"} ; None = no verdict (other shapes)."""
    m = WEEK_RE.fullmatch(s)
    if not m or not s.isascii():
        return None
    y, w1, d1, w2, d2, hh, mm, ss, _tz = m.groups()
    week = int(w1 or w2)
    day = int(d1 or d2 or 1)
    o = iso_week_spec(int(y), week, day)
    if o is None or not 1 <= o <= 3652059:
        return {"error": "ValueError"}
    t = 0
    if hh is not None:
        if int(hh) > 23 or int(mm) > 59 or int(ss) > 59:
            return {"error": "ValueError"}
        t = int(hh) * 3600 + int(mm) * 60 + int(ss)
    return {"ok": ((o - 719163) * 86400 + t) * SEC}


def gen_week_date_strings(r: Any, n_random: int) -> list[tuple[str, str]]:
    out: list[tuple[str, str]] = []
    tails = ["", "T10:30:00+00:00", "T10:30:00Z", "T23:59:59", "T24:00:00", " 10", "T1030", "-1000", "01", "0100", "é12:00", "\U0001d7ce12", "€12:00:00", "T", "Z", "T10:30:00+01:00", "\x0012", "x"]
    for y in WEEK_YEARS:
        for w in (0, 1, 2, 26, 51, 52, 53, 54, 99):
            for d in (None, 0, 1, 4, 7, 8, 9):
                for ext in (True, False):
                    base = f"{y:04d}-W{w:02d}" + ("" if d is None else f"-{d}") if ext else f"{y:04d}W{w:02d}" + ("" if d is None else f"{d}")
                    out.append(("week:lattice", base))
                    out.append(("week:lattice", base + "T10:30:00+00:00"))
                    out.append(("week:lattice:tail", base + r.choice(tails)))
    alpha = "0123456789-W:T+Z é\x00٣"
    for _ in range(n_random):
        y, w, d = r.randrange(1, 10000), r.randrange(1, 54), r.randrange(1, 8)
        form = r.randrange(4)
        base = [f"{y:04d}-W{w:02d}-{d}", f"{y:04d}-W{w:02d}", f"{y:04d}W{w:02d}{d}", f"{y:04d}W{w:02d}"][form]
        x = r.random()
        if x < 0.4:
            out.append(("week:random", base + r.choice(["", "", "T10:30:00Z", "T00:00:00", "T23:59:59+00:00"])))
        elif x < 0.6:
            out.append(("week:random:tail", base + r.choice(tails)))
        else:
            t = list(base + r.choice(["", "T10:30:00", "T1030", "-1000"]))
            for _ in range(r.randrange(1, 3)):
                op, pos = r.random(), r.randrange(0, len(t) + 1)
                if op < 0.4:
                    t.insert(pos, r.choice(alpha))
                elif op < 0.7 and t:
                    del t[min(pos, len(t) - 1)]
                elif t:
                    t[min(pos, len(t) - 1)] = r.choice(alpha)
            out.append(("week:mutated", "".join(t)))
    # non-ASCII anywhere (UTF-8 octet lengths 2, 3, 4) in ordinary and week dates
    nonascii = ["é", "€", "\U0001d7ce", "٣", " ", "０"]
    bases = ["2010-06-30T23:59:59+00:00", "2010-06-30T23:59:59.500000", "20100630T235959", "2010-06-30", "2010-W26-3T23:59:59", "2010W263T2359", "2010-W26T23", "2010W26", "2010-06-30T23:59:59.123456\x00", "2010-06-30T23:59:59.1234567\x00x"]
    for b in bases:
        for pos in range(len(b) + 1):
            for c in nonascii[: 3 if pos not in (7, 8, 10) else 6]:
                out.append(("nonascii:insert", b[:pos] + c + b[pos:]))
                if pos < len(b):
                    out.append(("nonascii:replace", b[:pos] + c + b[pos + 1 :]))
    return out


def _decimal_chars() -> list[list[str]]:
    import unicodedata

    blocks: list[list[str]] = []
    for c in range(0x110000):
        if unicodedata.decimal(chr(c), -1) == 0:
            blocks.append([chr(c + k) for k in range(10)])
    return blocks


def ascii_digits(s: str) -> str:
    """every Unicode decimal digit as its ASCII digit, every non-ASCII white space as a blank"""
    import unicodedata

    return "".join(c if ord(c) < 128 else (str(unicodedata.decimal(c)) if unicodedata.decimal(c, -1) >= 0 else (" " if c.isspace() else c)) for c in s)


def gen_unicode_duration_strings(r: Any, n_random: int) -> list[tuple[str, str]]:
    blocks = _decimal_chars()
    out: list[tuple[str, str]] = []

    def uni(num: str, p: float = 1.0) -> str:
        return "".join(r.choice(blocks)[int(ch)] if ch.isdigit() and r.random() < p else ch for ch in num)

    # every script once: P<d>D with d = 0..9, and a two-digit number in that script
    for b in blocks:
        k = r.randrange(10)
        out.append(("uni:script", f"P{b[k]}D"))
        out.append(("uni:script", f"PT{b[1]}{b[k]}M{b[9]}S"))
    near = ["²", "½", "①", "〇", "Ⅷ", "௰", "፩", "₀", "\U0001f101", "฿", " ", " ", "\u0085", " ", "　", "​", "﻿", "\x7f", "\x80", "\x1c"]
    for c in near:
        out += [("uni:near", f"P{c}D"), ("uni:near", f"P1{c}D"), ("uni:near", f"P1D{c}5"), ("uni:near", f"P1D5{c}"), ("uni:near", f"P1D{c}"), ("uni:near", f"P1{c}"), ("uni:near", f"P1DT5{c}M")]
    z = blocks[1][0]
    out += [("uni:limit", "P" + z * 4300 + "D"), ("uni:limit", "P" + z * 4301 + "D"), ("uni:limit", "P1D" + z * 4300), ("uni:limit", "P1D" + z * 4301), ("uni:limit", "P" + "0" * 4299 + z + "1D"),
            ("uni:limit", "P" + blocks[1][9] * 9 + "D"), ("uni:limit", "P1" + z * 9 + "D"), ("uni:limit", "P14285714" + blocks[2][2] + "W"), ("uni:limit", "P14285714" + blocks[2][3] + "W")]
    tails = ["", "5", " 5", "-5", "+5", "5_0", "_5", "5 ", "\n5", "x"]
    while len(out) < n_random + 2 * len(blocks) + 7 * len(near) + 9:
        s = "P"
        if r.random() < 0.2:
            s += uni(str(r.randrange(0, 60)), 0.7) + "W"
        if r.random() < 0.1:
            s += uni(str(r.randrange(0, 20))) + "M"
        if r.random() < 0.7:
            s += uni(str(r.choice([0, 1, 9, 10, 400, r.randrange(0, 500), 10 ** r.randrange(0, 12)])), 0.7) + "D"
        if r.random() < 0.6:
            t = ""
            if r.random() < 0.5:
                t += uni(str(r.randrange(0, 100)), 0.7) + "H"
            if r.random() < 0.5:
                t += uni(str(r.randrange(0, 1000)), 0.7) + "M"
            if r.random() < 0.5:
                t += uni(str(r.randrange(0, 10**6)), 0.7) + "S"
            s += "T" + t
        x = r.random()
        if x < 0.6:
            out.append(("uni:regular", s))
        elif x < 0.8:
            tail = uni(r.choice(tails))
            if r.random() < 0.5:
                tail = tail.replace(" ", r.choice([" ", " ", "　", "\u0085", " "]))
            out.append(("uni:tail", s + tail))
        else:
            t2 = list(s)
            pos = r.randrange(0, len(t2) + 1)
            t2.insert(pos, r.choice(near + ["٣", "５", "T", "D"]))
            out.append(("uni:mutated", "".join(t2)))
    return out


def codecs_week_unicode(res: Result, tier: str, driver_ok: bool) -> None:
    """ISO week dates / non-ASCII octets in parse_datetime, Unicode decimal digits and white space in duration_to_timedelta
    and int(): real implementation vs model (an `unsupported` answer is a disagreement) vs two independent oracles —
    the ISO 8601 week definition (4 January / 28 December rule, own ordinal arithmetic) and the digit-script invariance
    of durations (a text and its ASCII transliteration mean the same)."""
    from kskm.common.parse_utils import duration_to_timedelta, parse_datetime

    r = lib.rng("C11:codecs:week-unicode")
    big = tier == "thorough"
    lines: list[dict[str, Any]] = []
    cases: list[tuple[str, str, str, Any]] = []
    for cls, s in gen_week_date_strings(r, 6000 if big else 1500):
        impl = run_impl(lambda: parse_datetime(s), conv=dt_us)
        cases.append(("parse_datetime", cls, s, impl))
        lines.append({"op": "parse_datetime", "text": s})
        want = week_text_spec(s)
        if want is not None:
            res.bump("codec:week:iso-oracle:" + ("ok" if "ok" in want else "error"))
            if ("ok" in want and impl != want) or ("error" in want and "ok" in impl):
                res.violation("timestamp codec: an ISO week date is not read as the day ISO 8601 defines", {"kind": "parse_datetime", "text": s}, key="week-date-semantics", impl=impl, expected=want)
    for cls, s in gen_unicode_duration_strings(r, 6000 if big else 1500):
        impl = run_impl(lambda: duration_to_timedelta(s), conv=td_us)
        cases.append(("parse_duration", cls, s, impl))
        lines.append({"op": "parse_duration", "text": s})
        t = ascii_digits(s)
        plain = run_impl(lambda: duration_to_timedelta(t), conv=td_us)
        res.bump("codec:uni:script-invariance")
        if not same_outcome(impl, plain) or ("ok" in impl and impl != plain):
            res.violation("duration codec: a text in other decimal digits is read differently from its ASCII spelling", {"kind": "parse_duration", "text": s}, key="duration-unicode-digits", impl=impl, ascii_text=t, ascii_result=plain)
        want = iso_duration_spec(t) if not any(c.isspace() for c in s) else None
        if want is not None and want != "months":
            res.bump("codec:uni:iso-duration-oracle")
            if impl != {"ok": want}:
                res.violation("duration codec: reader value differs from ISO 8601 semantics", {"kind": "parse_duration", "text": s}, key="duration-semantics", impl=impl, expected=want)
    blocks = _decimal_chars()
    ints = ["٣", "-٣", " ٣ ", " ٣　", "1_٣", "٣_", "_٣", "٣٣", "１２３", "²", "½", "٣x", " 5", "\x855", "\x1c5", "5\x1c", "​5", "+ ٣", "- ٣", "٣" * 4300, "٣" * 4301, "\x7f", "5\x7f", "?", "٣?", "", " ", " "]
    ints += ["".join(r.choice(blocks)[r.randrange(10)] if r.random() < 0.7 else r.choice("0123456789_ +- x") for _ in range(r.randrange(1, 8))) for _ in range(1500 if big else 400)]
    for s in ints:
        impl = run_impl(lambda: int(s), conv=lambda v: v)
        cases.append(("py_int", "int", s, impl if "ok" in impl else {"ok": None}))
        lines.append({"op": "py_int", "text": s})
    model = run_driver(lines, exe=DRIVER) if driver_ok else [None] * len(lines)
    for (kind, cls, s, impl), m in zip(cases, model):
        res.count({"codec": kind, "class": cls, "in": _clip(s, 60)}, nontrivial=True)
        res.bump(f"codec:{cls}")
        res.bump(f"codec:{cls}:" + ("ok" if impl.get("ok") is not None else "error"))
        if m is None:
            continue
        if lib.is_unsupported(m):
            res.disagreement(f"codec {kind}: the model declines an input of a class it must answer", {"kind": kind, "input": _clip(s, 300)}, _clip(impl, 300), m)
        elif not same_outcome(impl, m):
            res.disagreement(f"codec {kind}: model != implementation", {"kind": kind, "input": _clip(s, 300)}, _clip(impl, 300), _clip(m, 300))
    # --- the pieces by themselves: iso_to_ymd / isocalendar / separator finder / octets / decimal-digit table
    import _pydatetime
    import unicodedata

    piece_lines: list[dict[str, Any]] = []
    piece_cases: list[tuple[str, Any, Any]] = []
    ywd = [(y, w, d) for y in WEEK_YEARS for w in (0, 1, 2, 51, 52, 53, 54) for d in (0, 1, 4, 7, 8)]
    ywd += [(r.randrange(1, 10000), r.randrange(1, 54), r.randrange(1, 8)) for _ in range(4000 if big else 1000)]
    for y, w, d in ywd:
        impl = run_impl(lambda: date.fromisocalendar(y, w, d), conv=lambda v: [v.year, v.month, v.day])
        piece_cases.append(("iso_to_civil", [y, w, d], impl))
        piece_lines.append({"op": "iso_to_civil", "y": y, "w": w, "d": d})
        o = iso_week_spec(y, w, d)
        res.bump("codec:week:fromisocalendar-oracle")
        want = None if o is None or not 1 <= o <= 3652059 else date.fromordinal(o)
        if (want is None) != ("error" in impl) or (want is not None and impl.get("ok") != [want.year, want.month, want.day]):
            res.violation("ISO week date: date.fromisocalendar differs from the ISO 8601 definition", {"kind": "iso_to_civil", "input": [y, w, d]}, key="week-date-semantics", impl=impl, expected=str(want))
        if "ok" in impl:
            back = tuple(date(*impl["ok"]).isocalendar())
            if back != (y, w, d):
                res.violation("ISO week date: isocalendar does not undo fromisocalendar", {"kind": "iso_to_civil", "input": [y, w, d]}, key="week-date-roundtrip", impl=list(back))
    zs = [0, -1, 1, -719162, 2932896]
    for y in WEEK_YEARS[1:]:
        j = date(y, 1, 1).toordinal() - 719163
        zs += [j + k for k in range(-4, 5) if -719162 <= j + k <= 2932896]
    zs += [r.randrange(-719162, 2932897) for _ in range(3000 if big else 800)]
    for z in zs:
        piece_cases.append(("iso_calendar", z, {"ok": list(date.fromordinal(z + 719163).isocalendar())}))
        piece_lines.append({"op": "iso_calendar", "days": z})
    for kind, cls, s, _impl in cases:
        if kind == "parse_datetime" and s.isascii() and len(s) >= 7 and (cls.startswith("week") or r.random() < 0.3):
            impl = run_impl(lambda: _pydatetime._find_isoformat_datetime_separator(s), conv=lambda v: v)
            piece_cases.append(("find_iso_separator", s, impl if "ok" in impl else {"ok": -1}))
            piece_lines.append({"op": "find_iso_separator", "text": s})
        elif kind == "parse_datetime" and not s.isascii():
            piece_cases.append(("utf8_octets", s, {"ok": list(s.encode("utf-8"))}))
            piece_lines.append({"op": "utf8_octets", "text": s})
    # the general transcription of fromisoformat (octets + week dates) on every timestamp text, ordinary ones included
    for s in [c[2] for c in cases if c[0] == "parse_datetime"] + gen_datetime_strings(r, 8000 if big else 2500):
        piece_cases.append(("parse_datetime_octets", s, run_impl(lambda: parse_datetime(s), conv=dt_us)))
        piece_lines.append({"op": "parse_datetime_octets", "text": s})
    codes = sorted({c for b in blocks for c in range(ord(b[0]) - 11, ord(b[0]) + 21) if c >= 0} | set(range(0, 0x110000 if big else 0x800)) - set(range(0xD800, 0xE000)))
    for i in range(0, len(codes), 20000):
        chunk = codes[i : i + 20000]
        piece_cases.append(("py_decimal", chunk, {"ok": [unicodedata.decimal(chr(c), -1) for c in chunk]}))
        piece_lines.append({"op": "py_decimal", "codes": chunk})
    piece_model = run_driver(piece_lines, exe=DRIVER) if driver_ok else [None] * len(piece_lines)
    for (kind, inp, impl), m in zip(piece_cases, piece_model):
        res.count({"codec": kind, "in": inp if not isinstance(inp, list) or len(inp) < 10 else len(inp)}, nontrivial=True)
        res.bump(f"codec:{kind}")
        if m is None:
            continue
        mm: Any = {"ok": m}
        if kind == "parse_datetime_octets":
            mm = m
        if kind == "iso_to_civil":
            # the model returns the civil date even outside datetime's years 1..9999 (the caller refuses those)
            mm = {"error": "ValueError"} if m is None or not 1 <= m[0] <= 9999 else {"ok": m}
        if not same_outcome(impl, mm) or ("ok" in impl and impl != mm):
            res.disagreement(f"codec {kind}: model != implementation", {"kind": kind, "input": _clip(inp, 300)}, _clip(impl, 300), _clip(mm, 300))
    res.sample({"week/unicode codec stream": {"week_dates": sum(1 for c in cases if c[1].startswith("week")), "nonascii_timestamps": sum(1 for c in cases if c[1].startswith("nonascii")), "unicode_durations": sum(1 for c in cases if c[1].startswith("uni")), "ints": len(ints)}})


def codecs_tz(res: Result, tier: str, driver_ok: bool) -> None:
    """(h) the timestamp codecs under every process zone: format_datetime of aware datetimes (the instant in three
    tzinfos) and parse_datetime of its spellings, on the DST lattice +-1 us, plus a sample of malformed strings; judged by
    integer calendar arithmetic (tzenv.iso_utc), tied to the model, compared with the UTC run."""
    from kskm.common.parse_utils import parse_datetime
    from kskm.skr.output import format_datetime

    r = lib.rng("C11:codecs:tz")
    tzinfos = [timezone.utc, timezone(timedelta(hours=2)), timezone(timedelta(hours=-11, minutes=-30))]
    insts: list[int] = []
    for _label, s in tzenv.lattice():
        insts += [s * SEC, s * SEC - 1, s * SEC + 1]
    texts: list[tuple[str, int | None]] = []
    for _label, s in tzenv.lattice():
        for form in ("+00:00", "Z", "", "ZZ", ".000000+00:00"):
            texts.append((tzenv.iso_utc(s) + form, s * SEC))
        texts.append((tzenv.iso_offset(s, 120), None))  # not UTC: refused whatever the zone
        texts.append((tzenv.iso_utc(s).replace("T", " "), s * SEC))
    texts += [(t, None) for t in gen_datetime_strings(r, 1200 if tier == "thorough" else 400)]
    lines = [{"op": "format_datetime", "us": us} for us in insts] + [{"op": "parse_datetime", "text": t} for t, _ in texts]
    model = run_driver(lines, exe=DRIVER) if driver_ok else [None] * len(lines)
    utc_obs: list[Any] = []
    for z in tzenv.all_zones():
        with tzenv.zone(z) as zname:
            obs = []
            for us in insts:
                obs.append([run_impl(lambda: format_datetime(us_dt(us).astimezone(tzi)), conv=lambda x: x) for tzi in tzinfos])
            for t, _want in texts:
                obs.append(run_impl(lambda: parse_datetime(t), conv=dt_us))
        if zname == "UTC":
            utc_obs = obs
        for k, us in enumerate(insts):
            case = {"kind": "format_datetime", "us": us, "process_time_zone": zname}
            res.count({"codec": "format_datetime:tz", "in": us, "zone": zname})
            res.bump("codec:tz:format_datetime")
            want = {"ok": tzenv.iso_utc(us // SEC) + "+00:00"}
            for tzi, got in zip(tzinfos, obs[k]):
                if got != want:
                    res.violation("timestamp codec: the text written is not the instant given (UTC, whole seconds, fraction dropped)", {**case, "tzinfo": str(tzi)}, key="tz:format_datetime", impl=got, expected=want["ok"])
                m = model[k]
                if m is not None and (lib.is_unsupported(m) or not same_outcome(got, m)):
                    res.disagreement("codec format_datetime: model != implementation", {**case, "tzinfo": str(tzi)}, got, m)
        for j, (t, want_us) in enumerate(texts):
            k = len(insts) + j
            case = {"kind": "parse_datetime", "text": t, "process_time_zone": zname}
            res.count({"codec": "parse_datetime:tz", "in": t, "zone": zname})
            res.bump("codec:tz:parse_datetime:" + ("ok" if "ok" in obs[k] else "error"))
            if want_us is not None and obs[k] != {"ok": want_us}:
                res.violation("timestamp codec: a UTC timestamp is not read as the instant it states", case, key="tz:parse_datetime", impl=obs[k], expected=want_us)
            if obs[k] != utc_obs[k] and not ("error" in obs[k] and "error" in utc_obs[k]):
                res.violation("timestamp codec: the value read depends on the time zone of the process", case, key="tz:parse-differs-from-utc", impl=obs[k], under_utc=utc_obs[k])
            m = model[k]
            if m is not None and (lib.is_unsupported(m) or not same_outcome(obs[k], m)):
                res.disagreement("codec parse_datetime: model != implementation", case, _clip(obs[k], 300), _clip(m, 300))


# --------------------------------------------------------------------------------------
# (f) boundary witnesses
# --------------------------------------------------------------------------------------


def wrapped_ksr_witness(res: Result, model_lines: list[dict[str, Any]], pending: list[Any]) -> None:
    """F6, end to end as far as the signer's input side goes: an archived KSR whose <PublicKey> base64 is
    line-wrapped loads and validates (signatures verify: the decoded key is unchanged); the signer copies
    request keys into the response; the response's key text then contains a newline."""
    import keys as K
    from kskm.common.config_misc import RequestPolicy
    from kskm.ksr.load import request_from_xml
    from kskm.ksr.validate import validate_request
    from kskm.skr.data import Response, ResponseBundle

    src = REPO / "src" / "kskm" / "ksr" / "tests" / "data" / "ksr-root-2018-q1-0-d_to_e.xml"
    text = src.read_text()

    def wrap(m: re.Match[str]) -> str:
        b = m.group(2)
        return m.group(1) + "\n".join(b[i : i + 64] for i in range(0, len(b), 64)) + m.group(3)

    wrapped = re.sub(r"(<PublicKey>)([A-Za-z0-9+/=]+)(</PublicKey>)", wrap, text)
    assert wrapped != text
    req = run_impl(lambda: request_from_xml(wrapped), conv=lambda x: x)
    if "ok" not in req:
        res.notes.append(f"F6 witness: wrapped-base64 KSR does not load: {req}")
        return
    request = req["ok"]
    pol = RequestPolicy(
        signature_check_expire_horizon=False,
        check_cycle_length=False,
        check_bundle_intervals=False,
        approved_algorithms=["RSASHA256"],
        num_bundles=len(request.bundles),
    )
    verdict = run_impl(lambda: validate_request(request, pol), conv=bool)
    multiline = any(b"\n" in k.public_key for b in request.bundles for k in b.keys)
    res.notes.append(f"F6 witness: archived KSR with 64-column wrapped <PublicKey> loads={'ok' in req}, validate_request (signatures verified, timing-to-clock rules off)={verdict}, key text multi-line={multiline}")
    if verdict != {"ok": True} or not multiline:
        return
    # what the signer emits for it: request keys (TTL = ksk ttl) + a KSK, signed by the KSK
    tk = K.rsa_keys(2048, 65537)[0]
    bundles = []
    for b in request.bundles[:2]:
        ksk = K.make_zsk(tk, 8, "KSK-w", ttl=172800, flags=257)
        keys = [k.replace(ttl=172800) for k in b.keys] + [ksk]
        sigs = K.sign_bundle_keys(keys, [(ksk, tk)], b.inception, b.expiration, ttl=172800)
        bundles.append(ResponseBundle(id=b.id, inception=b.inception, expiration=b.expiration, keys=set(keys), signatures=sigs))
    r = lib.rng("C11:F6")
    resp = Response(id=request.id, serial=request.serial, domain=request.domain, timestamp=None, bundles=bundles, ksk_policy=mk_policy(r, 1), zsk_policy=request.zsk_policy)
    model_lines.append({"op": "skr_to_xml", "response": response_j(resp)})
    pending.append(("F6:wrapped-base64-ksr", resp, True, "multiline-key-text"))


CORPUS = lib.VERIF / "corpus" / "C11_findings.json"


def corpus_first(res: Result, model_lines: list[dict[str, Any]], pending: list[Any]) -> None:
    """Recorded findings (corpus/C11_findings.json) are replayed first on every run: each entry is a
    response (JSON shape of lib.response_j) with the `what`/`key` it is reported under while it fails."""
    import json

    if not CORPUS.exists():
        return
    for entry in json.loads(CORPUS.read_text()):
        try:
            resp = response_from_j(entry["response"])
        except Exception as exc:  # noqa: BLE001
            res.notes.append(f"corpus entry {entry.get('id')}: cannot rebuild ({type(exc).__name__}: {exc})")
            continue
        pending.append((f"corpus:{entry.get('id')}", resp, bool(entry.get("real_signatures")), entry.get("key")))
        model_lines.append({"op": "skr_to_xml", "response": response_j(resp)})
        res.bump("corpus:entries")


def witnesses(res: Result, model_lines: list[dict[str, Any]], pending: list[Any]) -> None:
    """Responses at the edge of the writer's domain: judged outside (notes), model text still compared."""
    from kskm.common.data import SignaturePolicy

    r = lib.rng("C11:witness")
    pool = rsa_pool()
    # F7: year < 1000 (not reachable by the signer: RRSIG times must pack into 32 bits, i.e. 1970..2106)
    resp = mk_response(r, 2, real=False, start_us=-30610224000 * SEC - 40 * DAY, pool=pool)
    pending.append(("F7:year<1000", resp, False, None))
    model_lines.append({"op": "skr_to_xml", "response": response_j(resp)})
    for bad in dict.fromkeys(BAD_IDS + REFERENCE_IDS + BARE_AMP_IDS):
        for where in (("id",) if bad in ('a"b', "a>b", "") else ("id", "domain", "bundle", "key")):
            base = mk_response(r, 2, real=False, pool=pool)
            try:
                if where == "id":
                    resp = base.replace(id=bad)
                elif where == "domain":
                    resp = base.replace(domain=bad)
                elif where == "bundle":
                    resp = base.replace(bundles=[base.bundles[0].replace(id=bad), base.bundles[1]])
                else:
                    b0 = base.bundles[0]
                    ks = sorted(b0.keys, key=lambda k: k.key_tag)
                    old = ks[0]
                    ks[0] = old.replace(key_identifier=bad)
                    sg = {s.replace(key_identifier=bad) if s.key_identifier == old.key_identifier else s for s in b0.signatures}
                    resp = base.replace(bundles=[b0.replace(keys=set(ks), signatures=sg), base.bundles[1]])
            except Exception as exc:  # noqa: BLE001
                res.notes.append(f"witness {where}={bad!r}: cannot build ({type(exc).__name__})")
                continue
            pending.append((f"text:{where}:{bad!r}", resp, False, None))
            model_lines.append({"op": "skr_to_xml", "response": response_j(resp)})
    # empty algorithm set / algorithm counts 0..3
    for nk, nz in ((0, 1), (1, 0), (0, 0), (2, 3), (3, 2)):
        resp = mk_response(r, 2, real=False, n_algs=(nk, nz), pool=pool)
        pending.append((f"algs:{nk}:{nz}", resp, False, None))
        model_lines.append({"op": "skr_to_xml", "response": response_j(resp)})
    # durations outside the domain: negative, sub-second
    for us in (-SEC, -DAY, 500000, SEC + 1, 401 * DAY):
        base = mk_response(r, 2, real=False, pool=pool)
        resp = base.replace(ksk_policy=base.ksk_policy.replace(publish_safety=us_td(us)))
        pending.append((f"duration:{us}", resp, False, None))
        model_lines.append({"op": "skr_to_xml", "response": response_j(resp)})
    # element texts: multi-line (F6, synthetic), unstripped, with markup characters
    for fieldtext in ("AAAA\nBBBB", "AAAA\n\nBBBB", "AAAA\n  \nBBBB", " AAAA", "AAAA ", "AA<AA", "AA&amp;", "", " AAAA"):
        base = mk_response(r, 2, real=False, pool=pool)
        b0 = base.bundles[0]
        ks = sorted(b0.keys, key=lambda k: k.key_tag)
        ks[0] = ks[0].replace(public_key=fieldtext.encode())
        resp = base.replace(bundles=[b0.replace(keys=set(ks)), base.bundles[1]])
        pending.append((f"keytext:{fieldtext!r}", resp, False, None))
        model_lines.append({"op": "skr_to_xml", "response": response_j(resp)})
    # bundles not in the loader's (expiration, inception, id) order
    base = mk_response(r, 3, real=False, pool=pool)
    for tagname, order in (("reversed", [2, 1, 0]), ("swapped", [1, 0, 2])):
        resp = base.replace(bundles=[base.bundles[i] for i in order])
        pending.append((f"bundle-order:{tagname}", resp, False, None))
        model_lines.append({"op": "skr_to_xml", "response": response_j(resp)})
    # negative serial, timestamp
    base = mk_response(r, 2, real=False, pool=pool)
    pending.append(("serial:-1", base.replace(serial=-1), False, None))
    model_lines.append({"op": "skr_to_xml", "response": response_j(base.replace(serial=-1))})
    pending.append(("timestamp", base.replace(timestamp=us_dt(0)), False, None))
    model_lines.append({"op": "skr_to_xml", "response": response_j(base.replace(timestamp=us_dt(0)))})
    wrapped_ksr_witness(res, model_lines, pending)


# --------------------------------------------------------------------------------------
# run
# --------------------------------------------------------------------------------------


def run(tier: str, driver_ok: bool) -> Result:
    with tzenv.zone(lib.TZ_ZONES[0]):  # whatever zone the check was started in: everything outside block (h) runs under UTC
        return _run(tier, driver_ok)


def _run(tier: str, driver_ok: bool) -> Result:
    res = Result("C11")
    res.rule = (
        "responses as data objects: n = 1..9 bundles x {real RSA signatures, arbitrary base64}; per bundle 1-2 ZSKs, 1-2 KSKs, optional revoked KSK (385), "
        "1-2 signatures; a stream of responses (n = 1..9, real and arbitrary signatures, one every-prefix file) whose bundles hold 2..4 DIFFERENT keys with the SAME key tag "
        "(ZSK/ZSK, ZSK/KSK, KSK/KSK, with revoked KSK; real twin keys both signing, and non-signing keys crafted to a victim's tag; counters shared-key-tag:*); "
        "RSA-SHA256/512 policies with 1..3 entries (0 as boundary witness); durations from the boundary list "
        f"{BOUNDARY_SECONDS} s + random whole seconds 0..400 d; ids from a dictionary (spaces, non-ASCII, '/', \"KSR\") and outside it (quotes, markup, control characters); "
        "XML-special text that the repository's reader hands over verbatim (entity / character references incl. the doubly escaped &amp;amp;, tabs, ampersands that are no reference) in id / domain / bundle ids / key identifiers, "
        "n = 1..9, real and arbitrary signatures, and each such text at each position: read-back identity, validation, standards parser == response with references resolved (counters verbatim-text:*); "
        "datetimes with UTC and non-UTC tzinfo; every byte offset of four emitted files; codecs on >= 20 000 values incl. malformed strings; "
        "environment independence: responses starting at every instant of the DST lattice of harness/tzenv.py (1..3 bundles, real / arbitrary signatures, four tzinfos) and a slice of the real / fake / shared-tag responses "
        f"through (a)-(d) under the run's zone and with the PROCESS time zone switched to {', '.join(z[0] for z in lib.non_utc_zones())} (text equal to the UTC run's and the model's; counters tz:*), "
        "timestamp codecs on the lattice (+-1 us, three tzinfos, forms +00:00 / Z / no designator, malformed strings) under every zone; "
        "non-trivial = distinct response / codec input"
    )
    r = lib.rng("C11")
    pool = rsa_pool()
    big = tier == "thorough"
    pending: list[Any] = []  # (tag, response, real, force_violation_key)
    lines: list[dict[str, Any]] = []

    def add(tag: str, resp: Any, real: bool) -> None:
        pending.append((tag, resp, real, None))
        lines.append({"op": "skr_to_xml", "response": response_j(resp)})

    corpus_first(res, lines, pending)
    reps_real = 6 if big else 2
    reps_fake = 40 if big else 10
    for n in range(1, 10):
        for k in range(reps_real):
            add(f"real:{n}:{k}", mk_response(r, n, real=True, pool=pool), True)
        for k in range(reps_fake):
            tz = r.choice([timezone.utc, timezone(timedelta(hours=5, minutes=30)), timezone(timedelta(hours=-8))])
            add(f"fake:{n}:{k}", mk_response(r, n, real=False, n_algs=(r.randrange(1, 4), r.randrange(1, 4)), tz=tz, pool=pool), False)
    # bundles in which different keys share a key tag (module docstring): own PRNG stream, every run
    r3 = lib.rng("C11:shared-tag")
    for n in range(1, 10):
        for k in range(4 if big else 2):
            add(f"shared-tag:real:{n}:{k}", mk_response(r3, n, real=True, pool=pool, shared_tags=True), True)
        for k in range(12 if big else 4):
            tz = r3.choice([timezone.utc, timezone(timedelta(hours=5, minutes=30)), timezone(timedelta(hours=-8))])
            add(f"shared-tag:fake:{n}:{k}", mk_response(r3, n, real=False, n_algs=(r3.randrange(1, 4), r3.randrange(1, 4)), tz=tz, pool=pool, shared_tags=True), False)
    # XML-special text the reader hands over verbatim (REFERENCE_IDS / BARE_AMP_IDS) in ids, domain, bundle ids, key identifiers: own PRNG stream, every run
    r5 = lib.rng("C11:verbatim")
    for n in range(1, 10):
        for k in range(3 if big else 1):
            add(f"verbatim:real:{n}:{k}", mk_response(r5, n, real=True, ids=REFERENCE_IDS, pool=pool), True)
        for k in range(9 if big else 3):
            add(f"verbatim:fake:{n}:{k}", mk_response(r5, n, real=False, ids=REFERENCE_IDS + (BARE_AMP_IDS if k % 3 == 2 else []), n_algs=(r5.randrange(1, 4), r5.randrange(1, 4)), pool=pool), False)
    # duration boundary lattice: every boundary value in every policy field position
    for i, s in enumerate(BOUNDARY_SECONDS):
        base = mk_response(r, 2, real=False, pool=pool)
        d = [BOUNDARY_SECONDS[(i + j * 5) % len(BOUNDARY_SECONDS)] * SEC for j in range(6)]
        d[i % 6] = s * SEC
        resp = base.replace(ksk_policy=mk_policy(r, 1, d), zsk_policy=mk_policy(r, 2, list(reversed(d))))
        add(f"durations:{s}", resp, False)
    # (h) the DST lattice: ordinary entries here (the run's own zone), again under every other zone below
    r4 = lib.rng("C11:tz")
    tz_twins: list[int] = []
    for k, (label, s) in enumerate(tzenv.lattice()):
        tz = [timezone.utc, timezone(timedelta(hours=5, minutes=30)), timezone(timedelta(hours=-8)), timezone(timedelta(hours=2))][k % 4]
        tz_twins.append(len(pending))
        add(f"lattice:{label}", mk_response(r4, 1 + k % 3, real=(k % 3 == 0), start_us=s * SEC, tz=tz, pool=pool), k % 3 == 0)
    for prefix in ("real:", "fake:", "shared-tag:real:", "shared-tag:fake:"):
        tz_twins += [i for i, p in enumerate(pending) if p[0].startswith(prefix) and p[0].endswith(":0")][: 9 if big else 5]
    witnesses(res, lines, pending)
    n_resp = len(lines)
    lines += [{"op": "skr_tree", "response": ln["response"]} for ln in lines[:n_resp]]
    lines += [{"op": "writer_domain", "response": ln["response"]} for ln in lines[:n_resp]]
    model = run_driver(lines, exe=DRIVER) if driver_ok else [None] * len(lines)
    utc_text: dict[int, Any] = {}
    for idx, (tag, resp, real, force_key) in enumerate(pending):
        m_text, m_tree = model[idx], model[n_resp + idx]
        m_dom = model[2 * n_resp + idx]
        if m_dom is not None and m_dom != in_domain(resp)[0]:
            res.disagreement("WriterDomain: the model's domain predicate != the harness's in_domain", {"tag": tag, **describe(resp)}, in_domain(resp), m_dom)
        w, back = judge_response(res, tag, resp, m_text, m_tree if isinstance(m_tree, dict) else None, real=real, sample=(idx in (0, 11)))
        utc_text[idx] = w
        dom, why = in_domain(resp)
        if not dom and (force_key or special_text_class(resp) is None):  # (verbatim-text responses are JUDGED by judge_response, not merely noted)
            _note_witness(res, tag, resp, why, force_key, w, back)

    # (h) the same responses with the time zone of the process switched: same model answers, same oracles, same text
    for z in lib.non_utc_zones():
        with tzenv.zone(z) as zname:
            for idx in tz_twins:
                tag, resp, real, _force = pending[idx]
                m_tree = model[n_resp + idx]
                res.bump(f"tz:zone:{zname}")
                w, _back = judge_response(res, f"tz:{zname}:{tag}", resp, model[idx], m_tree if isinstance(m_tree, dict) else None, real=real, zone=zname)
                if w != utc_text[idx]:
                    res.violation(
                        "emitted SKR depends on the time zone of the process (same response, written under UTC and under the zone)",
                        {"tag": f"tz:{zname}:{tag}", "process_time_zone": zname, "n_bundles": len(resp.bundles), "real_signatures": real, **describe(resp)},
                        key="tz:text-differs-from-utc",
                        first_difference=_first_diff(utc_text[idx], w),
                    )

    # (e) truncation: three files (every byte offset)
    r2 = lib.rng("C11:trunc")
    trunc = [
        ("two-bundles", mk_response(r2, 2, real=True, ids=["ключ-é-鍵", "a b", "x/y"], pool=pool), 2),
        ("nine-bundles", mk_response(r2, 9, real=True, pool=pool), 9),
        ("three-bundles-policy-2", mk_response(r2, 3, real=True, pool=pool), 2),  # a cut must not turn 3 bundles into an acceptable 2
    ]
    trunc.append(("two-bundles-shared-key-tags", mk_response(lib.rng("C11:trunc:shared-tag"), 2, real=True, pool=pool, shared_tags=True), 2))
    if big:
        trunc.append(("five-bundles", mk_response(r2, 5, real=True, pool=pool), 5))
        trunc.append(("one-bundle", mk_response(r2, 1, real=True, pool=pool), 1))
    for tag, resp, nb in trunc:
        truncation(res, tag, resp, nb)

    # (g) codecs
    codecs(res, tier, driver_ok)
    codecs_week_unicode(res, tier, driver_ok)
    codecs_tz(res, tier, driver_ok)
    return res


def _note_witness(res: Result, tag: str, resp: Any, why: str, force_key: str | None, w: Any, back: Any) -> None:
    """Outside the writer's domain: record what the implementation does (not a violation), except the
    signer-reachable multi-line key text (F6) which is reported."""
    if "ok" not in w:
        res.notes.append(f"boundary {tag} [{why}]: writer raises {w}")
        return
    same = "ok" in back and back["ok"] == resp
    try:
        ET.fromstring(w["ok"].encode("utf-8", "surrogatepass"))
        wf = True
    except Exception:  # noqa: BLE001
        wf = False
    res.notes.append(f"boundary {tag} [{why}]: reads back {'identically' if same else ('differently' if 'ok' in back else str(back))}; well-formed XML={wf}")
    if force_key and not same:
        res.violation(
            "emitted SKR does not read back",
            {"tag": tag, "n_bundles": len(resp.bundles), "real_signatures": True, "in_domain": False, **describe(resp)},
            key=force_key,
            impl=_short_outcome(back),
            expected="response_from_xml(skr_to_xml(r)) == r",
            difference=None if "ok" not in back else _diff_response(resp, back["ok"]),
            reachability="a KSR whose <PublicKey> base64 is line-wrapped loads and passes validate_request; the signer copies request keys into the response",
        )


# --------------------------------------------------------------------------------------
# replay
# --------------------------------------------------------------------------------------


def replay(obj: dict[str, Any]) -> Any:
    from kskm.common.parse_utils import duration_to_timedelta, parse_datetime
    from kskm.skr.load import response_from_xml
    from kskm.skr.output import _indent, format_datetime, skr_to_xml, timedelta_to_duration

    v = obj.get("violation") or obj.get("disagreement") or obj
    case = v.get("case", v)
    zname = case.get("process_time_zone")
    if zname and zname != "UTC" and not obj.get("_in_zone"):
        with tzenv.zone({z[0]: z for z in lib.TZ_ZONES}[zname]):
            out = replay({**obj, "_in_zone": True})
        if isinstance(out, dict):
            out["process_time_zone"] = zname
        return out
    if "response" in case:
        resp = response_from_j(case["response"])
        impl = run_impl(lambda: skr_to_xml(resp), conv=lambda x: x)
        m = run_driver([{"op": "skr_to_xml", "response": response_j(resp)}], exe=DRIVER)[0]
        out: dict[str, Any] = {"tag": case.get("tag"), "writer_text_equal_model": same_outcome(impl, m), "model": _clip(m, 600), "implementation_text": _clip(impl, 600)}
        if "ok" in impl:
            if "offset" in case:
                data = impl["ok"].encode()[: case["offset"]]
                back = run_impl(lambda: load_like_load_skr(data, len(resp.bundles)), conv=lambda x: x)
            else:
                back = run_impl(lambda: response_from_xml(impl["ok"]), conv=lambda x: x)
            out["read_back"] = _short_outcome(back)
            out["read_back_equals_original"] = "ok" in back and back["ok"] == resp
            out["expected"] = "read_back_equals_original == true (or, for a truncated file, an error)"
            if "ok" in back and back["ok"] != resp:
                out["difference"] = _diff_response(resp, back["ok"])
        return out
    kind = case.get("kind")
    if kind in ("parse_duration",):
        s = case.get("text", case.get("input"))
        return {"input": s, "implementation": run_impl(lambda: duration_to_timedelta(s), conv=td_us), "model": run_driver([{"op": "parse_duration", "text": s}], exe=DRIVER)[0], "iso8601": iso_duration_spec(s)}
    if kind in ("iso_to_civil", "iso_calendar", "find_iso_separator", "utf8_octets"):
        import _pydatetime

        x = case.get("input")
        if kind == "iso_to_civil":
            return {"input": x, "implementation": run_impl(lambda: date.fromisocalendar(*x), conv=lambda v: [v.year, v.month, v.day]), "model": run_driver([{"op": kind, "y": x[0], "w": x[1], "d": x[2]}], exe=DRIVER)[0], "iso8601_ordinal": iso_week_spec(*x)}
        if kind == "iso_calendar":
            return {"input": x, "implementation": list(date.fromordinal(x + 719163).isocalendar()), "model": run_driver([{"op": kind, "days": x}], exe=DRIVER)[0]}
        impl = run_impl(lambda: _pydatetime._find_isoformat_datetime_separator(x), conv=lambda v: v) if kind == "find_iso_separator" else {"ok": list(x.encode("utf-8"))}
        return {"input": x, "implementation": impl, "model": run_driver([{"op": kind, "text": x}], exe=DRIVER)[0]}
    if kind in ("py_int",):
        s = case.get("text", case.get("input"))
        return {"input": s, "implementation": run_impl(lambda: int(s), conv=lambda v: v), "model": run_driver([{"op": "py_int", "text": s}], exe=DRIVER)[0]}
    if kind in ("parse_datetime", "parse_datetime_octets"):
        s = case.get("text", case.get("input"))
        return {"input": s, "implementation": run_impl(lambda: parse_datetime(s), conv=dt_us), "model": run_driver([{"op": kind, "text": s}], exe=DRIVER)[0]}
    if kind in ("format_duration", "duration_roundtrip"):
        us = case.get("us", case.get("input"))
        t = run_impl(lambda: timedelta_to_duration(us_td(us)), conv=lambda x: x)
        return {"input": us, "implementation": t, "model": run_driver([{"op": "format_duration", "us": us}], exe=DRIVER)[0], "read_back": run_impl(lambda: duration_to_timedelta(t["ok"]), conv=td_us) if "ok" in t else None}
    if kind in ("format_datetime", "datetime_roundtrip"):
        us = case.get("us", case.get("input"))
        t = run_impl(lambda: format_datetime(us_dt(us)), conv=lambda x: x)
        return {"input": us, "implementation": t, "model": run_driver([{"op": "format_datetime", "us": us}], exe=DRIVER)[0], "read_back": run_impl(lambda: parse_datetime(t["ok"]), conv=dt_us) if "ok" in t else None}
    if kind == "indent":
        s = case["input"]
        return {"input": s, "implementation": run_impl(lambda: _indent(s), conv=lambda x: x), "model": run_driver([{"op": "indent", "text": s}], exe=DRIVER)[0]}
    return {"error": "unrecognised replay object", "keys": sorted(case)}
