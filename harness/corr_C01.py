"""C01 correspondence: every emitted signature is a valid RRSIG over exactly the published DNSKEY set.

Well-formed scenarios (signer_scenarios.gen_scenario) are run through the real sign_bundles() against
the token emulator.  For every signature of every response bundle:
  * dnspython (`dns.dnssec.validate_rrsig`) — the independent RFC 4034/3110/6605 validator — must accept it
    as an RRSIG by the named KSK over precisely the DNSKEYs published in that bundle;
  * its fields must be the bundle's inception/expiration, the configured TTL (TTL and original TTL),
    signer name '.', zero labels, and the key tag of the signing key *as published* (revoked tag if revoked);
  * the Lean model, replaying the emulator's log, must predict the same bundles and the same token operations
    (mechanism and input octets of every C_Sign, octet for octet).
A grid makes sure all of RSA/SHA-256, RSA/SHA-512, P-256, P-384 x hashing on host / on token x token
profiles (private object with/without public attributes, wrapped/bare EC point) occur in every run.

Sub-second instants and spellings (signer_scenarios.gen_scenario): about six scenarios in ten have bundle inceptions / expirations with
microsecond components (.000001 / .4 / .499999 / .5 / .500001 / .6 / .999999 on even and odd seconds).  An RRSIG time field is the whole
second the instant falls in (post-1970: floor = truncation), which is also the second the written SKR states: dnspython is handed
`microseconds // 10**6` computed in exact integer arithmetic, and the file-level check reads the seconds from the file's own text.  The
configured KSKs are written in every legal spelling of the same facts: `ds_sha256` upper / lower / mixed case, key tag present / absent,
`valid_from` / `valid_until` with +00:00 / Z / a non-UTC offset / no designator / a space / fraction digits / as datetime objects, far from
the bundles or exactly ON the first inception / last expiration (inclusive window), names and labels at the edges of ^[\\w_]+$.  All of
them are well-formed: signing must complete and every signature must validate.

Environment independence (`tz_scenarios`; harness/envtz.py): further well-formed scenarios are signed with the PROCESS time zone
switched (lib.ProcessTZ) to each of America/New_York, Australia/Lord_Howe, Asia/Kolkata, Europe/Berlin, the first bundle's inception
or the last bundle's expiration placed in mid-January, mid-July and on the +-1 h lattice around the zone's DST switches (so that
inceptions / expirations fall inside and outside the daylight-saving period).  sign_bundles() / create_skr() and skr_to_xml() run under
the switched zone; everything is judged exactly as above: dnspython (times taken as integers) must validate every signature over the
published keys, the written file must carry the same, the fields must be the bundle's, and the model -- in which instants are integers --
must predict the same C_Sign octets.
"""

from __future__ import annotations

import base64
from typing import Any

import ceremony as C
import envtz
import lib
import signer_scenarios as S
from lib import Result

DRIVER = C.DRIVER
ASSUMPTIONS = [
    "unforgeability of RSA PKCS#1 v1.5 / ECDSA and collision resistance of SHA-2 are assumptions, not theorems",
    "the token emulator stands in for a PKCS#11 device (healthy-token hypothesis: C_Sign implements the mechanism)",
    "dnspython 2.8 is the independent RFC 4034/3110/6605 validator",
    "the process time zone is switched with TZ + tzset (lib.ProcessTZ, which verifies that libc's localtime follows); zones are the four of lib.non_utc_zones()",
]
TRUSTED = ["harness/p11emu.py token emulator", "dnspython validate_rrsig as oracle"]


def dnspython_validate(bundle: Any, sig: Any) -> str | None:
    """None if dnspython accepts `sig` as an RRSIG over bundle.keys, else the reason."""
    import dns.dnssec
    import dns.name
    import dns.rdataclass
    import dns.rdatatype
    import dns.rrset
    from dns.rdtypes.ANY.DNSKEY import DNSKEY
    from dns.rdtypes.ANY.RRSIG import RRSIG

    root = dns.name.root
    rrset = dns.rrset.RRset(root, dns.rdataclass.IN, dns.rdatatype.DNSKEY)
    for k in bundle.keys:
        rrset.add(DNSKEY(dns.rdataclass.IN, dns.rdatatype.DNSKEY, k.flags, k.protocol, k.algorithm.value, base64.b64decode(k.public_key)), ttl=sig.original_ttl)
    rrsig = RRSIG(
        dns.rdataclass.IN,
        dns.rdatatype.RRSIG,
        dns.rdatatype.DNSKEY,
        sig.algorithm.value,
        sig.labels,
        sig.original_ttl,
        # exact integer arithmetic on the aware datetime: no local time, no floating point involved.  An instant with a sub-second part
        # lies IN the second floor(us / 10**6) (all instants here are post-1970), the second the written SKR states as well.
        lib.dt_us(sig.signature_expiration) // 10**6,
        lib.dt_us(sig.signature_inception) // 10**6,
        sig.key_tag,
        dns.name.from_text(sig.signers_name),
        base64.b64decode(sig.signature_data),
    )
    try:
        dns.dnssec.validate_rrsig(rrset, rrsig, {root: rrset}, now=lib.dt_us(sig.signature_inception) // 10**6 + 1)
    except Exception as exc:  # noqa: BLE001
        return f"{type(exc).__name__}: {exc}"
    # and specifically by the *named* key: the only candidate with that tag+algorithm must be the signer's record
    named = [k for k in bundle.keys if k.key_identifier == sig.key_identifier]
    if len(named) != 1:
        return "signature names no (or more than one) published key"
    if named[0].key_tag != sig.key_tag or named[0].algorithm != sig.algorithm:
        return "key tag / algorithm are not those of the named key as published"
    return None


def file_level_problems(xml_text: str, in_memory_bundles: list[Any]) -> list[str]:
    """The SKR *file* judged on its own: parsed with ElementTree (no repository code), every <Signature> of every
    <ResponseBundle> must validate under dnspython over exactly the <Key> elements written into that bundle, and the
    file must show the same number of keys and signatures per bundle as the response that was signed."""
    import xml.etree.ElementTree as ET
    from datetime import datetime

    import dns.dnssec
    import dns.name
    import dns.rdataclass
    import dns.rdatatype
    import dns.rrset
    from dns.rdtypes.ANY.DNSKEY import DNSKEY
    from dns.rdtypes.ANY.RRSIG import RRSIG

    def local(e: Any) -> str:
        return e.tag.rsplit("}", 1)[-1]

    def child(e: Any, name: str) -> Any:
        for c in e:
            if local(c) == name:
                return c
        raise KeyError(name)

    def ts(t: str) -> int:
        dt = datetime.fromisoformat(t.replace("Z", "+00:00"))
        if dt.tzinfo is None:
            raise ValueError(f"time without UTC offset in the file: {t}")  # a local time would make the file's meaning depend on the reader's zone
        return lib.dt_us(dt) // 10**6

    bad: list[str] = []
    root = ET.fromstring(xml_text)
    fb = [e for e in root.iter() if local(e) == "ResponseBundle"]
    if len(fb) != len(in_memory_bundles):
        return [f"file has {len(fb)} bundles, response has {len(in_memory_bundles)}"]
    for i, (e, rb) in enumerate(zip(fb, in_memory_bundles), 1):
        keys = [c for c in e if local(c) == "Key"]
        sigs = [c for c in e.iter() if local(c) == "Signature"]
        if len(keys) != len(rb.keys):
            bad.append(f"bundle {i}: file publishes {len(keys)} keys, the signed response has {len(rb.keys)}")
        if len(sigs) != len(rb.signatures):
            bad.append(f"bundle {i}: file has {len(sigs)} signatures, the response has {len(rb.signatures)}")
        for sg in sigs:
            ottl = int(child(sg, "OriginalTTL").text)
            rrset = dns.rrset.RRset(dns.name.root, dns.rdataclass.IN, dns.rdatatype.DNSKEY)
            for k in keys:
                rrset.add(DNSKEY(dns.rdataclass.IN, dns.rdatatype.DNSKEY, int(child(k, "Flags").text), int(child(k, "Protocol").text), int(child(k, "Algorithm").text), base64.b64decode(child(k, "PublicKey").text)), ttl=ottl)
            rrsig = RRSIG(
                dns.rdataclass.IN, dns.rdatatype.RRSIG, dns.rdatatype.DNSKEY, int(child(sg, "Algorithm").text), int(child(sg, "Labels").text), ottl,
                ts(child(sg, "SignatureExpiration").text), ts(child(sg, "SignatureInception").text), int(child(sg, "KeyTag").text),
                dns.name.from_text(child(sg, "SignersName").text), base64.b64decode(child(sg, "SignatureData").text),
            )  # fmt: skip
            try:
                dns.dnssec.validate_rrsig(rrset, rrsig, {dns.name.root: rrset}, now=ts(child(sg, "SignatureInception").text) + 1)
            except Exception as exc:  # noqa: BLE001
                bad.append(f"bundle {i}: signature by {sg.get('keyIdentifier')} does not validate over the keys in the file: {type(exc).__name__}: {exc}")
    return bad


def grid(r: Any) -> list[S.Scenario]:
    """All four algorithms x host/token hashing x token profiles, at least once per run."""
    out = []
    for alg in (8, 10, 13, 14):
        for hh in (False, True, None):
            for profile in range(2):
                sc = S.gen_scenario(r, n_bundles=r.choice([1, 2]), force_alg=alg)
                for k in sc.ksks.values():
                    k["entry"]["hash_using_hsm"] = hh
                    if hh is None:
                        k["entry"].pop("hash_using_hsm")
                    k["wrapped"] = bool(profile)
                    k["priv_has_point"] = not profile
                sc.meta["grid"] = f"{alg}/{hh}/{profile}"
                out.append(sc)
    # the two halves of an EC key pair in DIFFERENT slots of one module (public objects kept in one slot, private ones in another), the
    # private object without CKA_EC_POINT: the public key comes from a second lookup, which ends in another session than the private
    # handle's — C_Sign has to go to the PRIVATE object's session
    for alg in (13, 14):
        for order in ("private-slot-first", "public-slot-first"):
            for hh in (False, True):
                sc = S.gen_scenario(r, n_bundles=2, force_alg=alg)
                for k in sc.ksks.values():
                    k["entry"]["hash_using_hsm"] = hh
                    k["priv_has_point"] = False
                    k["public"] = False  # the private half only at the key's own place …
                    mod = next(m_ for m_ in sc.modules if m_["path"] == k["module"])
                    ids = [s_["id"] for s_ in mod["slots"]]
                    other = max(ids) + 1 if order == "private-slot-first" else min(ids) - 1
                    if other < 0:  # no room before the first slot: renumber is not possible, use the place after and swap roles below
                        other = max(ids) + 1
                    if other not in ids:
                        mod["slots"].append({"id": other}) if other > max(ids) else mod["slots"].insert(0, {"id": other})

                    def edit(w: Any, k: dict[str, Any] = k, other: int = other) -> None:  # … and the public half in the other slot
                        w.modules[k["module"]].slot(other).add_ec(k["label"], k["tk"], public=True, private=False, wrapped_point=k.get("wrapped", True))

                    sc.token_edits.append(edit)
                sc.meta["grid"] = f"{alg}/{hh}/split:{order}"
                out.append(sc)
    return out


def tz_scenarios(r: Any, tier: str) -> list[S.Scenario]:
    """Well-formed scenarios to be signed under a switched process time zone (sc.meta["tz"]): per zone the probe instants of a year
    (mid-January, mid-July, T-1h / T / T+1h of both DST switches, and -- thorough -- more of the lattice) become the first bundle's
    inception or the last bundle's expiration; bundles follow every 10 days and are valid 21 days, so several times per scenario lie
    inside resp. outside the daylight-saving period.  Mostly RSA (an ECDSA signature is refused by dnspython anyway: finding F4)."""
    out = []
    algs = [8, 10, 8, 13, 8, 10, 8, 14]
    i = 0
    for zname, _posix, _off in lib.non_utc_zones():
        year = r.choice(envtz.YEARS)
        for p in envtz.sample(zname, year, r, 8 if tier == "quick" else 30):
            alg = algs[i % len(algs)]
            i += 1
            nb = r.choice([1, 2, 3])
            if i % 2:
                start, probed = p["t"], "first-inception"
            else:
                start, probed = p["t"] - 21 * 86400 - (nb - 1) * 10 * 86400, "last-expiration"
            # the whole-second start is placed here (aware UTC, from the integer); the generator adds sub-second components per bundle and
            # may write key validity windows exactly onto this timeline
            sc = S.gen_scenario(r, quick=True, n_bundles=nb, force_alg=alg, start=lib.us_dt(start * 10**6))
            sc.meta.update(tz=zname, probe=p["label"], probed=probed, dst=p["dst"], year=year)
            out.append(sc)
    return out


def bump_input_classes(res: Result, sc: S.Scenario, req: Any) -> None:
    """the input distribution of the sub-second / spelling classes, for the evidence"""
    fr = [lib.dt_us(t) % 10**6 for b in req.bundles for t in (b.inception, b.expiration)]
    res.bump("sub-second:scenario-" + ("with" if any(fr) else "without") + "-microsecond-components")
    for f in fr:
        res.bump("sub-second:bundle-time-fraction:" + ("0" if f == 0 else "<.5" if f < 500_000 else "=.5" if f == 500_000 else ">.5"))
    for used in (sc.meta.get("spellings") or {}).values():
        res.bump("spelling:ds_sha256:" + used.get("ds_sha256", "absent"))
        res.bump("spelling:algorithm:" + used.get("algorithm", "name"))
        for f in ("valid_from", "valid_until"):
            where, _, style = used.get(f, "default").partition(":")
            res.bump(f"spelling:{f}:placed:{where}")
            if style:
                res.bump(f"spelling:{f}:written:{style}")
    for k in sc.ksks.values():
        res.bump("spelling:key_tag:" + ("present" if "key_tag" in k["entry"] else "absent"))
    res.bump("spelling:key-names:" + sc.meta.get("names", "plain"))
    res.bump("spelling:token-labels:" + sc.meta.get("labels", "plain"))


def run(tier: str, driver_ok: bool) -> Result:
    res = Result("C01")
    res.rule = (
        "grid (algorithms 8/10/13/14 x hash on host/token/unset x token profile) + random well-formed scenarios (1..9 bundles, 1..3 ZSKs, "
        "1..3 KSKs RSA 1024..4096 with fixture exponents / P-256 / P-384, arbitrary schemas, 1..2 modules x 1..3 slots); every signature of "
        "every response bundle judged by dnspython; RSA scenarios alternately through create_skr() + skr_to_xml(), the written text parsed "
        "with ElementTree and judged by dnspython over the keys in the file; key-tag specials (carry, revoked carry, twin signers, ZSK = KSK tag); "
        "scenarios signed (and written) with the process time zone switched to America/New_York / Australia/Lord_Howe / Asia/Kolkata / "
        "Europe/Berlin, first inception or last expiration in mid-January, mid-July and +-1 h around the zone's DST switches; "
        "in every stream: bundle inceptions / expirations with microsecond components (.000001/.4/.499999/.5/.500001/.6/.999999) in about six "
        "scenarios of ten, judged on floor seconds; configured KSKs in every legal spelling (ds_sha256 upper/lower/mixed case, key_tag "
        "present/absent, valid_from/valid_until with +00:00 / Z / non-UTC offset / no designator / space / 1..6 fraction digits / datetime "
        "objects, far away or exactly on the first inception / last expiration, valid_until present/absent), key names and token labels at "
        "the edges of ^[\\w_]+$ (underscore only, digits only, one character, non-ASCII word characters, 40 characters); "
        "non-trivial = distinct scenario"
    )
    r = lib.rng("C01")
    scenarios = grid(r) + S.special_scenarios(r)
    for _ in range(60 if tier == "quick" else 700):
        scenarios.append(S.gen_scenario(r, quick=(tier == "quick")))
    scenarios += tz_scenarios(r, tier)
    runs = []
    nsig = 0
    nfile = 0
    for si, sc in enumerate(scenarios):
        # RSA scenarios go through create_skr() + the SKR writer every second time (and always for the key-tag specials):
        # the property is observed at the written file too.  (create_skr cannot state an ECDSA KSK policy.)
        what = "create_skr" if sc.meta["alg"] in (8, 10) and (si % 2 == 0 or sc.meta.get("special")) else "sign_bundles"
        tz = sc.meta.get("tz")
        xml_text: Any = None
        with envtz.zone(tz):  # /repo code runs under the scenario's process time zone (None: the process as it is); the judging below does not
            x = S.run_sign(sc, what)
            if what == "create_skr" and "ok" in x["impl"]:
                from kskm.skr.output import skr_to_xml

                xml_text = lib.run_impl(lambda: skr_to_xml(x["objs"]), str)
        x["case"] = {"what": what, "scenario": S.describe(sc)}
        x["what"] = what
        runs.append(x)
        if tz is not None:
            res.bump("tz:signed-under:" + tz)
            res.bump("tz:probed-instant-" + ("inside" if sc.meta["dst"] else "outside") + "-daylight-saving-time")
        if what == "create_skr" and "ok" in x["impl"]:
            resp = x["objs"]
            x["objs"] = list(resp.bundles)
            fam = "rsa"
            try:
                if "ok" not in xml_text:
                    raise RuntimeError(f"skr_to_xml failed: {xml_text}")
                probs = file_level_problems(xml_text["ok"], x["objs"])
            except Exception as exc:  # noqa: BLE001
                probs = [f"the written SKR could not be read by a standard XML parser / judged: {type(exc).__name__}: {exc}"]
            nfile += 1
            if probs:
                res.violation("the written SKR file does not carry valid RRSIGs over exactly the DNSKEY set it publishes", x["case"], key=f"file:{fam}", broken=probs[:6], process_time_zone=tz or "(unchanged)")
        res.count(x["case"])
        alg = sc.meta["alg"]
        res.bump(f"alg:{alg}")
        bump_input_classes(res, sc, x["req"])
        impl = x["impl"]
        if "ok" not in impl:
            res.violation("well-formed request, schema and healthy keys: signing did not complete", x["case"], key=f"incomplete:alg{alg}", impl=impl, process_time_zone=tz or "(unchanged)")
            continue
        res.bump(what)
        mechs = sorted({rec["mechanism"] for rec in x["log"] if rec["op"] == "sign"})
        res.bump("mechanisms:" + ",".join(str(m) for m in mechs))
        for qb, rb in zip(x["req"].bundles, x["objs"]):
            for sig in rb.signatures:
                nsig += 1
                why = dnspython_validate(rb, sig)
                if why is not None:
                    fam = "ecdsa" if alg in (13, 14) else "rsa"
                    res.violation(
                        "emitted signature is not a valid RRSIG over the published DNSKEY set under an independent validator",
                        x["case"],
                        key=f"{fam}:alg{alg}",
                        why=why,
                        bundle=C.bundle_sorted_j(rb),
                        process_time_zone=tz or "(unchanged)",
                    )
                bad = []
                if sig.signature_inception != qb.inception or sig.signature_expiration != qb.expiration:
                    bad.append("inception/expiration are not the bundle's")
                if sig.original_ttl != sc.ksk_ttl or sig.ttl != sc.ksk_ttl:
                    bad.append("TTL / original TTL is not the configured TTL")
                if sig.signers_name != "." or sig.labels != 0:
                    bad.append("signer name / labels")
                if sig.type_covered.value != 48:
                    bad.append("type covered")
                if bad:
                    res.violation("signature fields differ from the documented values", x["case"], key="fields", broken=bad, process_time_zone=tz or "(unchanged)")
        if len(res.samples) < 2:
            res.sample({"case": x["case"], "signatures_validated": nsig, "sign_ops": [{"mechanism": rec["mechanism"], "data_len": len(rec["data"]) // 2} for rec in x["log"] if rec["op"] == "sign"][:4]})
    res.stats["signatures_judged_by_dnspython"] = nsig
    res.stats["skr_files_judged_by_elementtree_and_dnspython"] = nfile
    if driver_ok:
        for what in ("sign_bundles", "create_skr"):
            S.compare_with_model(res, [x for x in runs if x["what"] == what], what)
    return res


def replay(obj: dict[str, Any]) -> Any:
    return {"note": "scenario descriptions index fixtures/keys.json; re-run with the same VERIF_SEED to regenerate the identical scenario", "recorded": obj}
