"""Run the real `ksrsigner()` / `main()` entry point as a whole ceremony against the token emulator, with
real files, a fault plan, a patched prompt and a pinned clock; build the matching model input line.
Shared by C03 (all-or-nothing), C10 (successive ceremonies) and C17 (digest display)."""

from __future__ import annotations

import argparse
import copy
import builtins
import io
import logging
import os
import shutil
import sys
import contextlib
from datetime import timedelta
from pathlib import Path
from typing import Any

import yaml

import ceremony as C
import lib
import signer_scenarios as S

SENTINEL = b"PRE-EXISTING OUTPUT - MUST SURVIVE AN UNSUCCESSFUL RUN\n"


def scratch_dir(tag: str) -> Path:
    d = lib.VERIF / ".scratch" / f"{tag}-{os.getpid()}"
    d.mkdir(parents=True, exist_ok=True)
    return d


def cleanup(d: Path) -> None:
    shutil.rmtree(d, ignore_errors=True)


def request_policy_for(sc: S.Scenario, extra: dict[str, Any] | None = None) -> dict[str, Any]:
    n = len(sc.layout)
    exps = sorted({tk.e for _, tk, _ in sc.zsks if tk.kind == "rsa"}) or [65537]
    sizes = sorted({tk.k * 8 for _, tk, _ in sc.zsks if tk.kind == "rsa"}) or [1024]
    algs = sorted({C.ALG_NAME[a] for _, _, a in sc.zsks})
    ids = set()
    for idxs in sc.layout:
        ids |= set(idxs)
    cyc = (n - 1) * 10
    p = {
        "num_bundles": n,
        "num_keys_per_bundle": [len(x) for x in sc.layout],
        "num_different_keys_in_all_bundles": len(ids),
        "rsa_approved_key_sizes": sizes,
        "rsa_approved_exponents": exps,
        "approved_algorithms": algs,
        "min_cycle_inception_length": f"P{max(cyc - 1, 0)}D",
        "max_cycle_inception_length": f"P{cyc + 1}D",
        "signature_horizon_days": 180,
        "enable_unsupported_ecdsa": True,
    }
    if extra:
        p.update(extra)
    return p


def config_dict(sc: S.Scenario, schema_name: str, files: dict[str, str | None], rp_extra: dict[str, Any] | None = None) -> dict[str, Any]:
    hsm = {f"hsm{i}": {"module": m["path"], "pin": m.get("pin", "1234")} for i, m in enumerate(sc.modules)}
    d: dict[str, Any] = {
        "hsm": hsm,
        "keys": {name: k["entry"] for name, k in sc.ksks.items()},
        "schemas": {schema_name: {int(s): dict(a) for s, a in sc.schema.items()}},
        "ksk_policy": {"ttl": sc.ksk_ttl, "publish_safety": "P10D", "retire_safety": "P10D", "max_signature_validity": "P21D", "min_signature_validity": "P21D", "max_validity_overlap": "P12D", "min_validity_overlap": "P9D"},
        "request_policy": request_policy_for(sc, rp_extra),
        "response_policy": {"num_bundles": len(sc.layout)},
        "filenames": {k: v for k, v in files.items() if v is not None},
    }
    return d


class Prompt:
    def __init__(self, answer: str) -> None:
        self.answer = answer
        self.calls = 0

    def __call__(self, prompt: str = "") -> str:
        self.calls += 1
        return self.answer


def run_ceremony(
    sc: S.Scenario,
    workdir: Path,
    *,
    answer: str = "Yes",
    force: bool = False,
    prev_xml: str | None = None,
    prev_cli_xml: str | None = None,
    ksr_xml: str | None = None,
    now_us: int | None = None,
    rp_extra: dict[str, Any] | None = None,
    schema_arg: str = "s",
    use_main: bool = False,
    preexisting: bytes | None = SENTINEL,
    cfg_mutator: Any = None,
    hsm_arg: str | None = None,
) -> dict[str, Any]:
    """One ceremony on the real entry point. Returns observations + the model input line."""
    from kskm.common.config import KSKMConfig
    from kskm.ksr.load import request_from_xml
    from kskm.skr.load import response_from_xml
    from kskm.tools import ksrsigner as tool

    workdir.mkdir(parents=True, exist_ok=True)
    req = sc.request()
    if ksr_xml is None:
        ksr_xml = C.request_to_xml(req)
    ksr_path = workdir / "ksr.xml"
    ksr_path.write_text(ksr_xml)
    prev_path = None
    if prev_xml is not None:
        prev_path = workdir / "prev-skr.xml"
        prev_path.write_text(prev_xml)
    prev_cli_path = None
    if prev_cli_xml is not None:
        prev_cli_path = workdir / "prev-skr-commandline.xml"
        prev_cli_path.write_text(prev_cli_xml)
    out_path = workdir / "skr.xml"
    if preexisting is not None:
        out_path.write_bytes(preexisting)
    elif out_path.exists():
        out_path.unlink()
    cfgd = config_dict(sc, "s", {"input_ksr": str(ksr_path), "previous_skr": str(prev_path) if prev_path else None, "output_skr": str(out_path)}, rp_extra)
    if cfg_mutator:
        cfgd = cfg_mutator(cfgd)
    cfg_path = workdir / "ksrsigner.yaml"
    cfg_path.write_text(yaml.safe_dump(cfgd))
    world = sc.world()
    prompt = Prompt(answer)
    if now_us is None:
        now_us = lib.dt_us(sc.start) - 5 * lib.DAY_US
    obs: dict[str, Any] = {"world": world, "prompt": prompt}
    stdout = io.StringIO()
    orig_input = builtins.input
    with world.installed(), C.Oracles() as orc, lib.PinnedClock() as clock, contextlib.redirect_stdout(stdout):
        clock.now_us = now_us
        builtins.input = prompt
        try:
            if use_main:
                obs["outcome"], obs["exit"] = run_main(tool, workdir, cfg_path, schema_arg, force, hsm_arg)
            else:
                try:
                    config = KSKMConfig.from_dict(copy.deepcopy(cfgd))  # (_transform_config pops keys out of nested dicts)
                except Exception as exc:  # noqa: BLE001
                    config = None
                    obs["outcome"] = lib.classify_exception(exc)
                if config is not None:
                    args = argparse.Namespace(
                        schema=schema_arg, previous_skr=(str(prev_cli_path) if prev_cli_path else None), ksr=None, skr=None, config=str(cfg_path), force=force, hsm=hsm_arg,
                        log_ksr_contents=False, log_skr_contents=False, log_previous_skr_contents=False, debug=False, syslog=False,
                    )
                    obs["outcome"] = lib.run_impl(lambda: tool.ksrsigner(logging.getLogger("verif"), args, config), bool)
        finally:
            builtins.input = orig_input
        obs["oracles"] = orc.take()
    obs["stdout"] = stdout.getvalue()
    obs["log"] = C.canon_log(world.log)
    obs["file_after"] = out_path.read_bytes() if out_path.exists() else None
    obs["written"] = obs["file_after"] is not None and obs["file_after"] != preexisting
    obs["sign_ops"] = sum(1 for r in obs["log"] if r["op"] == "sign")
    # ---- model line ----------------------------------------------------------------------------
    try:
        config = KSKMConfig.from_dict(copy.deepcopy(cfgd))
    except Exception:  # noqa: BLE001
        config = None
    if config is not None:

        def parsed(text: str | None, fn: Any, conv: Any) -> Any:
            if text is None:
                return None
            return lib.run_impl(lambda: fn(text), conv)

        actions = None
        if schema_arg in config.schemas:
            sch = config.get_schema(schema_arg)
            actions = [{"slot": int(n), "action": {"publish": list(a.publish), "sign": list(a.sign), "revoke": list(a.revoke)}} for n, a in sch.actions.items()]
        obs["line"] = {
            "op": "ksrsigner",
            "actions": actions,
            # documented precedence: a previous SKR named on the command line wins over the configured one
            "prev": parsed(prev_cli_xml if prev_cli_xml is not None else prev_xml, response_from_xml, lib.response_j),
            "ksr": parsed(ksr_xml, request_from_xml, lib.request_j),
            "hsm": C.hsm_j(config),
            "hsmName": hsm_arg,
            "force": force,
            "answer": answer,
            "kskKeys": [{"name": n, "key": C.ksk_j(k)} for n, k in config.ksk_keys.items()],
            "kskPolicy": {"signaturePolicy": lib.sigpolicy_j(config.ksk_policy.signature_policy), "ttl": config.ksk_policy.ttl, "signersName": config.ksk_policy.signers_name},
            "requestPolicy": lib.request_policy_j(config.request_policy),
            "responsePolicy": lib.response_policy_j(config.response_policy),
            "now": now_us,
            "log": obs["log"],
            **obs["oracles"],
        }
    return obs


def run_main(tool: Any, workdir: Path, cfg_path: Path, schema_arg: str, force: bool, hsm_arg: str | None) -> tuple[Any, int]:
    """Call main() in-process: argv patched, cwd = workdir (main() opens a log file there)."""
    argv = ["ksrsigner", "--config", str(cfg_path), "--schema", schema_arg]
    if force:
        argv.append("--force")
    if hsm_arg:
        argv += ["--hsm", hsm_arg]
    old_argv, old_cwd = sys.argv, os.getcwd()
    root = logging.getLogger()
    before = list(root.handlers)
    sys.argv = argv
    os.chdir(workdir)
    try:
        try:
            tool.main()
            return {"ok": None}, 0
        except SystemExit as e:
            code = e.code if isinstance(e.code, int) else (0 if e.code is None else 1)
            return {"exit": code}, code
        except KeyboardInterrupt:
            return {"error": "interrupt"}, 1
        except BaseException as exc:  # noqa: BLE001  (an uncaught exception makes the interpreter exit with status 1)
            return lib.classify_exception(exc), 1
    finally:
        sys.argv = old_argv
        os.chdir(old_cwd)
        for h in list(root.handlers):
            if h not in before:
                root.removeHandler(h)
                with contextlib.suppress(Exception):
                    h.close()


def canon_written(xml_bytes: bytes) -> Any:
    from kskm.skr.load import response_from_xml

    return S.response_sorted_j(response_from_xml(xml_bytes.decode()))
