"""Run the real `ksrsigner()` / `main()` entry point as a whole ceremony against the token emulator, with
real files, a fault plan, a patched prompt and a pinned clock; build the matching model input line.
Shared by C03 (all-or-nothing) and C10 (successive ceremonies).

Besides the driver this module holds the INDEPENDENT judges of what a ceremony leaves at the output path:
  * `skr_document()`  — ElementTree reader of the WHOLE file (a strict XML parser: bytes after the document element,
    an unclosed element, a second root are errors) into the JSON shape of `lib.response_j`, bundles in document order;
  * `skr_problems()`  — per bundle, over exactly the published keys: identifiers unique, every key tag that of its own
    RDATA (dnspython), every signature attributed to exactly one published key (identifier, tag, algorithm), covering
    the bundle's own inception/expiration, and accepted by dnspython's `validate_rrsig` with ONLY the named key on offer;
    optionally the schema roles (published 257 / revoked 385 / signers of slot i, by slot NUMBER) and the echoed ZSKs;
  * `output_files()`  — the family of files a ceremony may find at its output path (absent, short, 300 kB filler,
    an earlier / longer SKR).
None of them calls into /repo."""

from __future__ import annotations

import argparse
import copy
import builtins
import io
import logging
import os
import shutil
import sys
import contextlib
from datetime import timedelta
from pathlib import Path
from typing import Any

import yaml

import ceremony as C
import lib
import signer_scenarios as S

SENTINEL = b"PRE-EXISTING OUTPUT - MUST SURVIVE AN UNSUCCESSFUL RUN\n"
# longer than any SKR these ceremonies write (a 9-bundle, two-KSK SKR is about 30 kB); every line differs so that a stale
# tail is never mistaken for padding
FILLER_300K = b"".join(b"<!-- stale line %06d of an earlier, longer file at the output path -->\n" % i for i in range(4400))
PREV_MODES = ("config", "cli", "both")  # where the previous SKR's file name comes from


def scratch_dir(tag: str) -> Path:
    d = lib.VERIF / ".scratch" / f"{tag}-{os.getpid()}"
    d.mkdir(parents=True, exist_ok=True)
    return d


def cleanup(d: Path) -> None:
    shutil.rmtree(d, ignore_errors=True)


def request_policy_for(sc: S.Scenario, extra: dict[str, Any] | None = None) -> dict[str, Any]:
    n = len(sc.layout)
    exps = sorted({tk.e for _, tk, _ in sc.zsks if tk.kind == "rsa"}) or [65537]
    sizes = sorted({tk.k * 8 for _, tk, _ in sc.zsks if tk.kind == "rsa"}) or [1024]
    algs = sorted({C.ALG_NAME[a] for _, _, a in sc.zsks})
    ids = set()
    for idxs in sc.layout:
        ids |= set(idxs)
    cyc = (n - 1) * 10
    p = {
        "num_bundles": n,
        "num_keys_per_bundle": [len(x) for x in sc.layout],
        "num_different_keys_in_all_bundles": len(ids),
        "rsa_approved_key_sizes": sizes,
        "rsa_approved_exponents": exps,
        "approved_algorithms": algs,
        "min_cycle_inception_length": f"P{max(cyc - 1, 0)}D",
        "max_cycle_inception_length": f"P{cyc + 1}D",
        "signature_horizon_days": 180,
        "enable_unsupported_ecdsa": True,
    }
    if extra:
        p.update(extra)
    return p


def config_dict(sc: S.Scenario, schema_name: str, files: dict[str, str | None], rp_extra: dict[str, Any] | None = None, ksk_policy_extra: dict[str, Any] | None = None) -> dict[str, Any]:
    hsm = {f"hsm{i}": {"module": m["path"], "pin": m.get("pin", "1234")} for i, m in enumerate(sc.modules)}
    # the schema as LISTED in the configuration (possibly not in ascending slot order; the slot number decides)
    listed = sc.schema_listed() if hasattr(sc, "schema_listed") else sc.schema
    d: dict[str, Any] = {
        "hsm": hsm,
        "keys": {name: k["entry"] for name, k in sc.ksks.items()},
        "schemas": {schema_name: {int(s): dict(a) for s, a in listed.items()}},
        "ksk_policy": dict({"ttl": sc.ksk_ttl, "publish_safety": "P10D", "retire_safety": "P10D", "max_signature_validity": "P21D", "min_signature_validity": "P21D", "max_validity_overlap": "P12D", "min_validity_overlap": "P9D"}, **(ksk_policy_extra or {})),
        "request_policy": request_policy_for(sc, rp_extra),
        "response_policy": {"num_bundles": len(sc.layout)},
        "filenames": {k: v for k, v in files.items() if v is not None},
    }
    return d


class Prompt:
    def __init__(self, answer: str) -> None:
        self.answer = answer
        self.calls = 0

    def __call__(self, prompt: str = "") -> str:
        self.calls += 1
        return self.answer


def run_ceremony(
    sc: S.Scenario,
    workdir: Path,
    *,
    answer: str = "Yes",
    force: bool = False,
    prev_xml: str | None = None,
    prev_cli_xml: str | None = None,
    ksr_xml: str | None = None,
    now_us: int | None = None,
    rp_extra: dict[str, Any] | None = None,
    schema_arg: str = "s",
    use_main: bool = False,
    preexisting: bytes | None = SENTINEL,
    cfg_mutator: Any = None,
    hsm_arg: str | None = None,
    ksk_policy_extra: dict[str, Any] | None = None,
    files_via: str = "config",
) -> dict[str, Any]:
    """One ceremony on the real entry point. Returns observations + the model input line.

    prev_xml / prev_cli_xml: the previous SKR named in the configuration (`filenames.previous_skr`) / on the command line
    (`--previous_skr`); when both are given the command line wins (theorem cli_previous_skr_wins).
    preexisting: the bytes found at the output path before the run (None = no file).
    files_via: "config" = KSR and output path come from `filenames:`; "cli" = from the positional arguments (the
    configuration then names other, non-existent files)."""
    from kskm.common.config import KSKMConfig
    from kskm.ksr.load import request_from_xml
    from kskm.skr.load import response_from_xml
    from kskm.tools import ksrsigner as tool

    workdir.mkdir(parents=True, exist_ok=True)
    req = sc.request()
    if ksr_xml is None:
        ksr_xml = C.request_to_xml(req)
    ksr_path = workdir / "ksr.xml"
    ksr_path.write_text(ksr_xml)
    prev_path = None
    if prev_xml is not None:
        prev_path = workdir / "prev-skr.xml"
        prev_path.write_text(prev_xml)
    prev_cli_path = None
    if prev_cli_xml is not None:
        prev_cli_path = workdir / "prev-skr-commandline.xml"
        prev_cli_path.write_text(prev_cli_xml)
    out_path = workdir / "skr.xml"
    if preexisting is not None:
        out_path.write_bytes(preexisting)
    elif out_path.exists():
        out_path.unlink()
    cli_files = files_via == "cli"
    # the files the configuration names when the command line names the real ones: they exist (the configuration schema wants
    # an existing input file), hold nothing usable, and must neither be read as the KSR nor written to
    decoy = workdir / "not-this-one"
    if cli_files:
        decoy.mkdir(exist_ok=True)
        (decoy / "ksr.xml").write_text("<KSR this is the file the configuration names, the command line names another one")
        (decoy / "skr.xml").unlink(missing_ok=True)
    cfgd = config_dict(
        sc,
        "s",
        {"input_ksr": str(decoy / "ksr.xml") if cli_files else str(ksr_path), "previous_skr": str(prev_path) if prev_path else None, "output_skr": str(decoy / "skr.xml") if cli_files else str(out_path)},
        rp_extra,
        ksk_policy_extra,
    )
    if cfg_mutator:
        cfgd = cfg_mutator(cfgd)
    cfg_path = workdir / "ksrsigner.yaml"
    cfg_path.write_text(yaml.safe_dump(cfgd, sort_keys=False))  # (a YAML mapping is ordered: keep the schema's listing order)
    world = sc.world()
    prompt = Prompt(answer)
    if now_us is None:
        now_us = lib.dt_us(sc.start) - 5 * lib.DAY_US
    obs: dict[str, Any] = {"world": world, "prompt": prompt, "preexisting": preexisting, "prev_mode": "none" if (prev_xml is None and prev_cli_xml is None) else "both" if (prev_xml is not None and prev_cli_xml is not None) else "cli" if prev_cli_xml is not None else "config"}
    stdout = io.StringIO()
    orig_input = builtins.input
    with world.installed(), C.Oracles() as orc, lib.PinnedClock() as clock, contextlib.redirect_stdout(stdout):
        clock.now_us = now_us
        builtins.input = prompt
        try:
            if use_main:
                obs["outcome"], obs["exit"] = run_main(tool, workdir, cfg_path, schema_arg, force, hsm_arg, prev_cli_path, (ksr_path, out_path) if cli_files else None)
            else:
                try:
                    config = KSKMConfig.from_dict(copy.deepcopy(cfgd))  # (_transform_config pops keys out of nested dicts)
                except Exception as exc:  # noqa: BLE001
                    config = None
                    obs["outcome"] = lib.classify_exception(exc)
                if config is not None:
                    args = argparse.Namespace(
                        schema=schema_arg, previous_skr=(str(prev_cli_path) if prev_cli_path else None), ksr=(str(ksr_path) if cli_files else None), skr=(str(out_path) if cli_files else None), config=str(cfg_path), force=force, hsm=hsm_arg,
                        log_ksr_contents=False, log_skr_contents=False, log_previous_skr_contents=False, debug=False, syslog=False,
                    )
                    obs["outcome"] = lib.run_impl(lambda: tool.ksrsigner(logging.getLogger("verif"), args, config), bool)
        finally:
            builtins.input = orig_input
        obs["oracles"] = orc.take()
    obs["stdout"] = stdout.getvalue()
    obs["log"] = C.canon_log(world.log)
    obs["file_after"] = out_path.read_bytes() if out_path.exists() else None
    obs["written"] = obs["file_after"] is not None and obs["file_after"] != preexisting
    obs["sign_ops"] = sum(1 for r in obs["log"] if r["op"] == "sign")
    obs["stray_output"] = cli_files and (decoy / "skr.xml").exists()  # something was written to the path the command line overrides
    # ---- model line ----------------------------------------------------------------------------
    try:
        config = KSKMConfig.from_dict(copy.deepcopy(cfgd))
    except Exception:  # noqa: BLE001
        config = None
    if config is not None:

        def parsed(text: str | None, fn: Any, conv: Any) -> Any:
            if text is None:
                return None
            return lib.run_impl(lambda: fn(text), conv)

        # the schema the model follows is read off the configuration document itself, slot NUMBER -> actions (never the
        # position in the listing), not through the repository's get_schema(): a loader that renumbers or drops slots is
        # then a model/implementation difference
        actions = listed_actions(cfgd, schema_arg)
        if actions is None and schema_arg in config.schemas:
            sch = config.get_schema(schema_arg)
            actions = [{"slot": int(n), "action": {"publish": list(a.publish), "sign": list(a.sign), "revoke": list(a.revoke)}} for n, a in sch.actions.items()]
        obs["line"] = {
            "op": "ksrsigner",
            "actions": actions,
            # documented precedence: a previous SKR named on the command line wins over the configured one
            "prev": parsed(prev_cli_xml if prev_cli_xml is not None else prev_xml, response_from_xml, lib.response_j),
            "ksr": parsed(ksr_xml, request_from_xml, lib.request_j),
            "hsm": C.hsm_j(config),
            "hsmName": hsm_arg,
            "force": force,
            "answer": answer,
            "kskKeys": [{"name": n, "key": C.ksk_j(k)} for n, k in config.ksk_keys.items()],
            "kskPolicy": {"signaturePolicy": lib.sigpolicy_j(config.ksk_policy.signature_policy), "ttl": config.ksk_policy.ttl, "signersName": config.ksk_policy.signers_name},
            "requestPolicy": lib.request_policy_j(config.request_policy),
            "responsePolicy": lib.response_policy_j(config.response_policy),
            "now": now_us,
            "log": obs["log"],
            **obs["oracles"],
        }
    return obs


def listed_actions(cfgd: dict[str, Any], schema_arg: str) -> list[dict[str, Any]] | None:
    """`schemas.<name>` of the configuration document as slot number -> {publish, sign, revoke} (a string stands for a
    one-element list, a missing entry for none), in listing order.  None when the name is not configured or the section
    is not of that plain form."""

    def as_list(x: Any) -> list[str]:
        if x is None:
            return []
        return [x] if isinstance(x, str) else [str(v) for v in x]

    try:
        section = cfgd["schemas"]
        if schema_arg not in section:
            return None
        return [{"slot": int(n), "action": {"publish": as_list(a.get("publish")), "sign": as_list(a.get("sign")), "revoke": as_list(a.get("revoke"))}} for n, a in section[schema_arg].items()]
    except Exception:  # noqa: BLE001
        return None


def run_main(tool: Any, workdir: Path, cfg_path: Path, schema_arg: str, force: bool, hsm_arg: str | None, prev_cli_path: Path | None = None, cli_files: tuple[Path, Path] | None = None) -> tuple[Any, int]:
    """Call main() in-process: argv patched, cwd = workdir (main() opens a log file there)."""
    argv = ["ksrsigner", "--config", str(cfg_path), "--schema", schema_arg]
    if force:
        argv.append("--force")
    if hsm_arg:
        argv += ["--hsm", hsm_arg]
    if prev_cli_path is not None:
        argv += ["--previous_skr", str(prev_cli_path)]
    if cli_files is not None:
        argv += [str(cli_files[0]), str(cli_files[1])]
    old_argv, old_cwd = sys.argv, os.getcwd()
    root = logging.getLogger()
    before = list(root.handlers)
    sys.argv = argv
    os.chdir(workdir)
    try:
        try:
            tool.main()
            return {"ok": None}, 0
        except SystemExit as e:
            code = e.code if isinstance(e.code, int) else (0 if e.code is None else 1)
            return {"exit": code}, code
        except KeyboardInterrupt:
            return {"error": "interrupt"}, 1
        except BaseException as exc:  # noqa: BLE001  (an uncaught exception makes the interpreter exit with status 1)
            return lib.classify_exception(exc), 1
    finally:
        sys.argv = old_argv
        os.chdir(old_cwd)
        for h in list(root.handlers):
            if h not in before:
                root.removeHandler(h)
                with contextlib.suppress(Exception):
                    h.close()


def canon_written(xml_bytes: bytes) -> Any:
    from kskm.skr.load import response_from_xml

    return S.response_sorted_j(response_from_xml(xml_bytes.decode()))


# --------------------------------------------------------------------------------------
# independent judges of the file at the output path (ElementTree + dnspython; nothing from /repo)
# --------------------------------------------------------------------------------------

_DURATION = None


def duration_us(text: str) -> int | None:
    """xsd:duration without years / months -> microseconds (None when it is not of that form)."""
    import re

    global _DURATION
    if _DURATION is None:
        _DURATION = re.compile(r"^P(?:(\d+)W)?(?:(\d+)D)?(?:T(?:(\d+)H)?(?:(\d+)M)?(?:(\d+)S)?)?$")
    m = _DURATION.match(text.strip())
    if not m or text.strip() in ("P", "PT") or text.strip().endswith("T"):
        return None
    w, d, h, mi, s = (int(x) if x else 0 for x in m.groups())
    return ((((w * 7 + d) * 24 + h) * 60 + mi) * 60 + s) * 10**6


def skr_document(xml_bytes: bytes) -> dict[str, Any]:
    """The WHOLE file, read with ElementTree, in the shape of lib.response_j (bundles / keys / signatures in DOCUMENT
    order).  Raises on anything that is not exactly one well-formed SKR document (e.g. bytes after `</KSR>`)."""
    import xml.etree.ElementTree as ET
    from datetime import datetime

    root = ET.fromstring(xml_bytes.decode("utf-8"))
    if root.tag != "KSR":
        raise ValueError(f"root element is {root.tag}")

    def txt(e: Any, tag: str) -> str:
        c = e.findall(tag)
        if len(c) != 1:
            raise ValueError(f"{len(c)} <{tag}> elements in <{e.tag}>")
        return (c[0].text or "").strip()

    def ts(e: Any, tag: str) -> int:
        return lib.dt_us(datetime.fromisoformat(txt(e, tag)))

    def policy(e: Any) -> dict[str, Any]:
        algs = []
        for a in e.findall("SignatureAlgorithm"):
            kids = list(a)
            if len(kids) != 1:
                raise ValueError("SignatureAlgorithm without exactly one parameter element")
            k = kids[0]
            algs.append({"kind": k.tag.lower(), "bits": int(k.get("size")), "algorithm": int(a.get("algorithm")), "exponent": None if k.get("exponent") is None else int(k.get("exponent"))})
        out: dict[str, Any] = {"algorithms": algs}
        for name, tag in (("publishSafety", "PublishSafety"), ("retireSafety", "RetireSafety"), ("maxSignatureValidity", "MaxSignatureValidity"), ("minSignatureValidity", "MinSignatureValidity"), ("maxValidityOverlap", "MaxValidityOverlap"), ("minValidityOverlap", "MinValidityOverlap")):
            out[name] = duration_us(txt(e, tag))
        return out

    resp = root.findall("Response")
    if len(resp) != 1 or len(list(root)) != 1:
        raise ValueError("not exactly one <Response> under <KSR>")
    rp = resp[0].find("ResponsePolicy")
    if rp is None:
        raise ValueError("no <ResponsePolicy>")
    bundles = []
    for b in resp[0].findall("ResponseBundle"):
        keys = [
            {"keyIdentifier": k.get("keyIdentifier"), "keyTag": int(k.get("keyTag")), "ttl": int(txt(k, "TTL")), "flags": int(txt(k, "Flags")), "protocol": int(txt(k, "Protocol")), "algorithm": int(txt(k, "Algorithm")), "publicKey": txt(k, "PublicKey")}
            for k in b.findall("Key")
        ]
        sigs = []
        for s in b.findall("Signature"):
            tc = txt(s, "TypeCovered")
            sigs.append(
                {
                    "keyIdentifier": s.get("keyIdentifier"),
                    "ttl": int(txt(s, "TTL")),
                    "typeCovered": {"DNSKEY": 48}.get(tc, tc),
                    "algorithm": int(txt(s, "Algorithm")),
                    "labels": int(txt(s, "Labels")),
                    "originalTtl": int(txt(s, "OriginalTTL")),
                    "expiration": ts(s, "SignatureExpiration"),
                    "inception": ts(s, "SignatureInception"),
                    "keyTag": int(txt(s, "KeyTag")),
                    "signersName": txt(s, "SignersName"),
                    "signatureData": txt(s, "SignatureData"),
                }
            )
        bundles.append({"id": b.get("id"), "inception": ts(b, "Inception"), "expiration": ts(b, "Expiration"), "keys": keys, "signatures": sigs, "signers": None})
    return {"id": root.get("id"), "serial": int(root.get("serial")), "domain": root.get("domain"), "timestamp": None, "zskPolicy": policy(rp.find("ZSK")), "kskPolicy": policy(rp.find("KSK")), "bundles": bundles}


def skr_problems(xml_bytes: bytes, *, num_bundles: int | None = None, roles: list[dict[str, Any]] | None = None, request_xml: str | None = None) -> list[str]:
    """Everything wrong with the file as a signed key response, judged without /repo.  [] = a relying party that follows
    RFC 4034/4035 (dnspython) accepts every bundle over exactly its published keys.
    roles[i] = {"publish": {label…}, "revoke": {label…}, "sign": {label…}} of slot i+1 (labels, already mapped from
    the configuration's key names): published KSKs must be exactly publish ∪ sign minus revoke with flags 257, revoked ones
    flags 385, signatures exactly one per signer.  request_xml: the KSR whose ZSKs (flags without the SEP bit) and
    inception / expiration / ids each bundle must echo."""
    import base64

    import dns.dnssec
    import dns.name
    import dns.rdataclass
    import dns.rdatatype
    import dns.rrset
    from dns.rdtypes.ANY.DNSKEY import DNSKEY
    from dns.rdtypes.ANY.RRSIG import RRSIG

    try:
        doc = skr_document(xml_bytes)
    except Exception as exc:  # noqa: BLE001
        return [f"not one well-formed SKR document: {type(exc).__name__}: {str(exc)[:160]}"]
    bad: list[str] = []
    if num_bundles is not None and len(doc["bundles"]) != num_bundles:
        bad.append(f"{len(doc['bundles'])} bundles, {num_bundles} requested")
    if not doc["bundles"]:
        bad.append("no bundles")
    req_bundles = None
    if request_xml is not None:
        import xml.etree.ElementTree as ET

        try:
            rq = ET.fromstring(request_xml)
            req_bundles = rq.find("Request").findall("RequestBundle")
            if rq.get("id") != doc["id"] or rq.get("serial") != str(doc["serial"]) or rq.get("domain") != doc["domain"]:
                bad.append("id / serial / domain of the request not echoed")
            zp = rq.find("Request").find("RequestPolicy").find("ZSK")
            for name, tag in (("publishSafety", "PublishSafety"), ("retireSafety", "RetireSafety"), ("maxSignatureValidity", "MaxSignatureValidity"), ("minSignatureValidity", "MinSignatureValidity"), ("maxValidityOverlap", "MaxValidityOverlap"), ("minValidityOverlap", "MinValidityOverlap")):
                declared = duration_us(zp.find(tag).text)
                if declared is not None and declared != doc["zskPolicy"][name]:
                    bad.append(f"ZSK policy of the request not echoed: {tag} {doc['zskPolicy'][name]} us, the request declares {declared} us")
            if len(req_bundles) != len(doc["bundles"]):
                bad.append(f"{len(doc['bundles'])} response bundles for {len(req_bundles)} request bundles")
                req_bundles = None
        except Exception:  # noqa: BLE001  (a request the harness mangled on purpose: nothing to echo)
            req_bundles = None
    root = dns.name.root
    for i, b in enumerate(doc["bundles"]):
        where = f"bundle {i + 1}"
        ids = [k["keyIdentifier"] for k in b["keys"]]
        if len(set(ids)) != len(ids):
            bad.append(f"{where}: key identifier used by more than one key: {sorted(x for x in set(ids) if ids.count(x) > 1)}")
        if not b["keys"]:
            bad.append(f"{where}: no keys")
            continue
        if not b["signatures"]:
            bad.append(f"{where}: no signature")
        ttls = {k["ttl"] for k in b["keys"]}
        if len(ttls) != 1:
            bad.append(f"{where}: keys of one RRset with different TTLs {sorted(ttls)}")
        rdatas = {}
        try:
            for k in b["keys"]:
                rd = DNSKEY(dns.rdataclass.IN, dns.rdatatype.DNSKEY, k["flags"], k["protocol"], k["algorithm"], base64.b64decode(k["publicKey"], validate=True))
                rdatas[id(k)] = rd
                if dns.dnssec.key_id(rd) != k["keyTag"]:
                    bad.append(f"{where}: key {k['keyIdentifier']} carries tag {k['keyTag']}, its RDATA has {dns.dnssec.key_id(rd)}")
        except Exception as exc:  # noqa: BLE001
            bad.append(f"{where}: key material unreadable: {type(exc).__name__}: {exc}")
            continue
        if len({rd.to_wire() for rd in rdatas.values()}) != len(b["keys"]):
            bad.append(f"{where}: the same DNSKEY record twice")
        signer_ids = [s["keyIdentifier"] for s in b["signatures"]]
        if len(set(signer_ids)) != len(signer_ids):
            bad.append(f"{where}: more than one signature by the same key")
        for s in b["signatures"]:
            named = [k for k in b["keys"] if k["keyIdentifier"] == s["keyIdentifier"]]
            if len(named) != 1:
                bad.append(f"{where}: signature by {s['keyIdentifier']} names {len(named)} published keys")
                continue
            k = named[0]
            if k["keyTag"] != s["keyTag"] or k["algorithm"] != s["algorithm"]:
                bad.append(f"{where}: signature by {s['keyIdentifier']}: tag/algorithm {s['keyTag']}/{s['algorithm']} are not those of the named key {k['keyTag']}/{k['algorithm']}")
            if k["flags"] & 1 == 0:
                bad.append(f"{where}: signature by {s['keyIdentifier']}, which is not a key-signing key (flags {k['flags']})")
            if (s["inception"], s["expiration"]) != (b["inception"], b["expiration"]):
                bad.append(f"{where}: signature by {s['keyIdentifier']} does not cover the bundle's inception..expiration")
            if s["typeCovered"] != 48 or s["originalTtl"] not in ttls:
                bad.append(f"{where}: signature by {s['keyIdentifier']}: type covered / original TTL do not fit the key set")
            try:
                rrset = dns.rrset.RRset(root, dns.rdataclass.IN, dns.rdatatype.DNSKEY)
                for kk in b["keys"]:
                    rrset.add(rdatas[id(kk)], ttl=s["originalTtl"])
                only = dns.rrset.RRset(root, dns.rdataclass.IN, dns.rdatatype.DNSKEY)
                only.add(rdatas[id(k)], ttl=s["originalTtl"])
                rrsig = RRSIG(dns.rdataclass.IN, dns.rdatatype.RRSIG, dns.rdatatype.DNSKEY, s["algorithm"], s["labels"], s["originalTtl"], s["expiration"] // 10**6, s["inception"] // 10**6, s["keyTag"], dns.name.from_text(s["signersName"]), base64.b64decode(s["signatureData"], validate=True))
                dns.dnssec.validate_rrsig(rrset, rrsig, {root: only}, now=s["inception"] // 10**6 + 1)
            except Exception as exc:  # noqa: BLE001
                bad.append(f"{where}: signature by {s['keyIdentifier']} rejected by dnspython over the published key set: {type(exc).__name__}: {str(exc)[:120]}")
        if roles is not None and i < len(roles):
            want = roles[i]
            revoked = set(want["revoke"])
            published = (set(want["publish"]) | set(want["sign"])) - revoked
            got_pub = {k["keyIdentifier"] for k in b["keys"] if k["flags"] == 257}
            got_rev = {k["keyIdentifier"] for k in b["keys"] if k["flags"] & 1 and k["flags"] & 0x80}
            if got_pub != published or got_rev != revoked:
                bad.append(f"{where}: KSKs published {sorted(got_pub)} / revoked {sorted(got_rev)}; schema slot {i + 1} says {sorted(published)} / {sorted(revoked)}")
            if sorted(signer_ids) != sorted(set(want["sign"])):
                bad.append(f"{where}: signatures by {sorted(signer_ids)}; schema slot {i + 1} says {sorted(set(want['sign']))}")
        if req_bundles is not None:
            qb = req_bundles[i]
            if qb.get("id") != b["id"]:
                bad.append(f"{where}: id {b['id']} is not the request bundle's {qb.get('id')}")
            from datetime import datetime

            if (lib.dt_us(datetime.fromisoformat(qb.find("Inception").text.strip())), lib.dt_us(datetime.fromisoformat(qb.find("Expiration").text.strip()))) != (b["inception"], b["expiration"]):
                bad.append(f"{where}: inception / expiration of the request bundle not echoed")
            want_z = {(k.get("keyIdentifier"), int(k.find("Flags").text), int(k.find("Algorithm").text), k.find("PublicKey").text.strip()) for k in qb.findall("Key")}
            got_z = {(k["keyIdentifier"], k["flags"], k["algorithm"], k["publicKey"]) for k in b["keys"] if k["flags"] & 1 == 0}
            if want_z != got_z:
                bad.append(f"{where}: ZSKs {sorted(x[0] for x in got_z)} are not the request bundle's {sorted(x[0] for x in want_z)} (identifier, flags, algorithm, key)")
    return bad


def roles_of(sc: S.Scenario) -> list[dict[str, Any]]:
    """Schema slots 1..n of a scenario with key NAMES replaced by token labels (what an SKR shows)."""
    out = []
    for slot in range(1, len(sc.layout) + 1):
        a = sc.schema[slot]
        out.append({what: {sc.ksks[n]["label"] for n in a.get(what, [])} for what in ("publish", "sign", "revoke")})
    return out


def output_files(earlier_skr: bytes | None = None) -> list[tuple[str, bytes | None]]:
    """What a ceremony may find at its output path: nothing, a short file, a file longer than any SKR, and — when the
    history has one — an earlier SKR (the same path re-used quarter after quarter / a ceremony repeated over its own
    result), also made longer than whatever will be written by a trailing comment."""
    out: list[tuple[str, bytes | None]] = [("absent", None), ("short", SENTINEL), ("filler-300k", FILLER_300K)]
    if earlier_skr:
        out.append(("earlier-skr", earlier_skr))
        out.append(("earlier-skr-longer", earlier_skr + b"<!-- " + b"x" * 9000 + b" -->\n"))
    return out
