"""Run the real `ksrsigner()` / `main()` entry point as a whole ceremony against the token emulator, with
real files, a fault plan, a patched prompt and a pinned clock; build the matching model input line.
Shared by C03 (all-or-nothing) and C10 (successive ceremonies).

Besides the driver this module holds the INDEPENDENT judges of what a ceremony leaves at the output path:
  * `skr_document()`  — ElementTree reader of the WHOLE file (a strict XML parser: bytes after the document element,
    an unclosed element, a second root are errors) into the JSON shape of `lib.response_j`, bundles in document order;
  * `skr_problems()`  — per bundle, over exactly the published keys: identifiers unique, every key tag that of its own
    RDATA (dnspython), every signature attributed to exactly one published key (identifier, tag, algorithm), covering
    the bundle's own inception/expiration, and accepted by dnspython's `validate_rrsig` with ONLY the named key on offer;
    optionally the schema roles (published 257 / revoked 385 / signers of slot i, by slot NUMBER) and the echoed ZSKs;
  * `output_files()`  — the family of files a ceremony may find at its output path (absent, short, 300 kB filler,
    an earlier / longer SKR);
  * `reader_mismatch()` — the repository's own reading of an emitted file against the ElementTree reading of the same bytes
    (an emitted SKR must mean to the tools' loader what it means to a standard XML parser);
  * `align_to_document()` — the SKR the model writes, its set-like parts (keys of equal tag, signatures, algorithms) put in
    the order the file shows, so that the model's writer (`skr_to_xml` of driver kskm_driver_pkge, C11's model) predicts
    the file BYTE FOR BYTE (`predicted_bytes()`).
None of them calls into /repo (reader_mismatch takes the repository's reading as an argument).

FILE-NAME FAULTS (`file_faults=` of run_ceremony): every file the entry point takes — previous SKR, KSR, output, the
configuration file itself — can be named in the configuration (`filenames:`), on the command line, or both; the name
handed over by either source can be made one that does not lead to a usable file: a typo beside the right file
(`missing`), a directory, an empty file, a file without read permission, a dangling symbolic link, a path THROUGH a
regular file; for the output: an existing directory, a directory that does not exist, a path through a regular file,
a file without write permission.  `TEXT_PROFILES` / `Text`: non-ASCII but legal text for everything that is copied from
the configuration, the token and the KSR into an SKR (KSK labels, ZSK identifiers, request and bundle ids).
`XML_TEXT_PROFILES`: the same with XML-special content in the texts that come from the KSR (entity and character references,
apostrophe, tab, a bare ampersand) — the repository's reader hands them over verbatim, so the writer must put them back
verbatim (`echo_mismatch`, `resolve_references`, `raw_ids`); `RELATED_TEXT_PROFILES`: labels / identifiers / ids that are
distinct but related as strings (prefix, case, …).  `shared_section_options()`: option names occurring in two sections of the
configuration (read off the pydantic models), for ceremonies whose sections DIFFER in them (`rp_extra`,
`response_policy_extra`); `corrupt_signature()` makes a previous SKR (or KSR) whose signature does not verify."""

from __future__ import annotations

import argparse
import copy
import builtins
import io
import logging
import os
import shutil
import sys
import contextlib
from datetime import timedelta
from pathlib import Path
from typing import Any

import yaml

import ceremony as C
import lib
import signer_scenarios as S

SENTINEL = b"PRE-EXISTING OUTPUT - MUST SURVIVE AN UNSUCCESSFUL RUN\n"
# longer than any SKR these ceremonies write (a 9-bundle, two-KSK SKR is about 30 kB); every line differs so that a stale
# tail is never mistaken for padding
FILLER_300K = b"".join(b"<!-- stale line %06d of an earlier, longer file at the output path -->\n" % i for i in range(4400))
PREV_MODES = ("config", "cli", "both")  # where the previous SKR's file name comes from
# names that do not lead to a usable input file / output file (see the module docstring)
FILE_FAULTS_IN = ("missing", "directory", "empty", "unreadable", "dangling-symlink", "parent-is-a-file")
FILE_FAULTS_OUT = ("directory", "missing-parent", "parent-is-a-file", "unwritable")
# of these, the names that are not an existing regular file (the configuration schema wants one for its INPUT files)
NOT_A_FILE = {"missing", "directory", "dangling-symlink", "parent-is-a-file"}


def scratch_dir(tag: str) -> Path:
    d = lib.VERIF / ".scratch" / f"{tag}-{os.getpid()}"
    d.mkdir(parents=True, exist_ok=True)
    return d


def cleanup(d: Path) -> None:
    shutil.rmtree(d, ignore_errors=True)


def request_policy_for(sc: S.Scenario, extra: dict[str, Any] | None = None) -> dict[str, Any]:
    n = len(sc.layout)
    exps = sorted({tk.e for _, tk, _ in sc.zsks if tk.kind == "rsa"}) or [65537]
    sizes = sorted({tk.k * 8 for _, tk, _ in sc.zsks if tk.kind == "rsa"}) or [1024]
    algs = sorted({C.ALG_NAME[a] for _, _, a in sc.zsks})
    ids = set()
    for idxs in sc.layout:
        ids |= set(idxs)
    cyc = (n - 1) * 10
    p = {
        "num_bundles": n,
        "num_keys_per_bundle": [len(x) for x in sc.layout],
        "num_different_keys_in_all_bundles": len(ids),
        "rsa_approved_key_sizes": sizes,
        "rsa_approved_exponents": exps,
        "approved_algorithms": algs,
        "min_cycle_inception_length": f"P{max(cyc - 1, 0)}D",
        "max_cycle_inception_length": f"P{cyc + 1}D",
        "signature_horizon_days": 180,
        "enable_unsupported_ecdsa": True,
    }
    if extra:
        p.update(extra)
    return p


def shared_section_options() -> dict[str, list[str]]:
    """Option names that occur in TWO OR MORE sections of the ksrsigner configuration, read off the pydantic models of the
    tree under test: name -> sections (top-level fields of KSKMConfig whose type is a model, a mapping of models, or a model
    nesting another one — `ksk_policy.signature_policy` is written flat in the file).  On the pinned tree:
    num_bundles and validate_signatures, each in request_policy and response_policy.  An entry point that reads such an
    option from the wrong section behaves correctly as long as the sections agree; the streams that use this set the
    sections to DIFFERENT values."""
    import typing

    import pydantic
    from kskm.common.config import KSKMConfig

    def model_of(ann: Any) -> Any:
        """The model a section is made of: the annotation itself, or the value type of a mapping / NewType of one."""
        ann = getattr(ann, "__supertype__", ann)
        if isinstance(ann, type) and issubclass(ann, pydantic.BaseModel):
            return ann
        for a in typing.get_args(ann):
            m = model_of(a)
            if m is not None:
                return m
        return None

    def options(model: Any, depth: int = 0) -> set[str]:
        out: set[str] = set()
        for name, f in model.model_fields.items():
            ann = getattr(f.annotation, "__supertype__", f.annotation)
            if depth < 2 and isinstance(ann, type) and issubclass(ann, pydantic.BaseModel):
                out |= options(ann, depth + 1)  # a nested model written flat in the section
            else:
                out.add(name)
        return out

    where: dict[str, list[str]] = {}
    for section, f in KSKMConfig.model_fields.items():
        m = model_of(f.annotation)
        if m is None:
            continue
        for o in sorted(options(m)):
            where.setdefault(o, []).append("keys" if section == "ksk_keys" else section)
    return {o: secs for o, secs in sorted(where.items()) if len(secs) >= 2}


def differing_values(honest: Any) -> list[Any]:
    """Other legal values for an option, by its declared type: the other truth value; the neighbouring integers (>= 1)."""
    if isinstance(honest, bool):
        return [not honest]
    if isinstance(honest, int):
        return [v for v in (honest + 1, honest - 1) if v >= 1]
    return []


def config_dict(sc: S.Scenario, schema_name: str, files: dict[str, str | None], rp_extra: dict[str, Any] | None = None, ksk_policy_extra: dict[str, Any] | None = None, response_policy_extra: dict[str, Any] | None = None) -> dict[str, Any]:
    hsm = {f"hsm{i}": {"module": m["path"], "pin": m.get("pin", "1234")} for i, m in enumerate(sc.modules)}
    # the schema as LISTED in the configuration (possibly not in ascending slot order; the slot number decides)
    listed = sc.schema_listed() if hasattr(sc, "schema_listed") else sc.schema
    d: dict[str, Any] = {
        "hsm": hsm,
        "keys": {name: k["entry"] for name, k in sc.ksks.items()},
        "schemas": {schema_name: {int(s): dict(a) for s, a in listed.items()}},
        "ksk_policy": dict({"ttl": sc.ksk_ttl, "publish_safety": "P10D", "retire_safety": "P10D", "max_signature_validity": "P21D", "min_signature_validity": "P21D", "max_validity_overlap": "P12D", "min_validity_overlap": "P9D"}, **(ksk_policy_extra or {})),
        "request_policy": request_policy_for(sc, rp_extra),
        "response_policy": dict({"num_bundles": len(sc.layout)}, **(response_policy_extra or {})),
        "filenames": {k: v for k, v in files.items() if v is not None},
    }
    return d


class Prompt:
    def __init__(self, answer: str) -> None:
        self.answer = answer
        self.calls = 0

    def __call__(self, prompt: str = "") -> str:
        self.calls += 1
        return self.answer


def run_ceremony(
    sc: S.Scenario,
    workdir: Path,
    *,
    answer: str = "Yes",
    force: bool = False,
    prev_xml: str | None = None,
    prev_cli_xml: str | None = None,
    ksr_xml: str | None = None,
    now_us: int | None = None,
    rp_extra: dict[str, Any] | None = None,
    schema_arg: str = "s",
    use_main: bool = False,
    preexisting: bytes | None = SENTINEL,
    cfg_mutator: Any = None,
    hsm_arg: str | None = None,
    ksk_policy_extra: dict[str, Any] | None = None,
    files_via: str = "config",
    file_faults: dict[str, str] | None = None,
    cfg_ksr_xml: str | None = None,
    response_policy_extra: dict[str, Any] | None = None,
) -> dict[str, Any]:
    """One ceremony on the real entry point. Returns observations + the model input line.

    prev_xml / prev_cli_xml: the previous SKR named in the configuration (`filenames.previous_skr`) / on the command line
    (`--previous_skr`); when both are given the command line wins (theorem cli_previous_skr_wins).
    preexisting: the bytes found at the output path before the run (None = no file).
    files_via: "config" = KSR and output path come from `filenames:`; "cli" = from the positional arguments (the
    configuration then names other files: a KSR that is not one — or `cfg_ksr_xml` — and another output path);
    "cli-only" = from the positional arguments, the configuration names neither.
    file_faults: {role: kind}, role in prev_cfg / prev_cli / ksr_cfg / ksr_cli / out_cfg / out_cli / config, kind in
    FILE_FAULTS_IN (FILE_FAULTS_OUT for out_*), or "empty-string" for a command-line name: the name that source hands
    over does not lead to a usable file (the intended content, when there is one, lies beside it).  The model is then
    told the outcome of reading the name the documented precedence picks (command line before configuration), read by
    the harness itself.  obs["fault_effective"] is False when the process can use the file all the same (uid 0 and
    permission bits).
    rp_extra / response_policy_extra / ksk_policy_extra: options written over the `request_policy:` / `response_policy:` /
    `ksk_policy:` sections (e.g. the same-named options of two sections set to DIFFERENT values, see
    shared_section_options())."""
    from kskm.common.config import KSKMConfig
    from kskm.ksr.load import request_from_xml
    from kskm.skr.load import response_from_xml
    from kskm.tools import ksrsigner as tool

    if file_faults:
        # a directory of its own, emptied before every run: broken names must not leak into the next ceremony
        workdir = workdir / "file-faults"
        shutil.rmtree(workdir, ignore_errors=True)
    workdir.mkdir(parents=True, exist_ok=True)
    req = sc.request()
    if ksr_xml is None:
        ksr_xml = C.request_to_xml(req)
    ksr_path = workdir / "ksr.xml"
    ksr_path.write_text(ksr_xml, encoding="utf-8")
    prev_path = None
    if prev_xml is not None:
        prev_path = workdir / "prev-skr.xml"
        prev_path.write_text(prev_xml, encoding="utf-8")
    prev_cli_path = None
    if prev_cli_xml is not None:
        prev_cli_path = workdir / "prev-skr-commandline.xml"
        prev_cli_path.write_text(prev_cli_xml, encoding="utf-8")
    out_path = workdir / "skr.xml"
    if preexisting is not None:
        out_path.write_bytes(preexisting)
    elif out_path.exists():
        out_path.unlink()
    cli_files = files_via in ("cli", "cli-only")
    # the files the configuration names when the command line names the real ones: they exist (the configuration schema wants
    # an existing input file), hold nothing usable (unless cfg_ksr_xml says otherwise), and must neither be read as the KSR nor
    # written to
    decoy = workdir / "not-this-one"
    if files_via == "cli":
        decoy.mkdir(exist_ok=True)
        (decoy / "ksr.xml").write_text(cfg_ksr_xml if cfg_ksr_xml is not None else "<KSR this is the file the configuration names, the command line names another one", encoding="utf-8")
        (decoy / "skr.xml").unlink(missing_ok=True)
    cfg_path = workdir / "ksrsigner.yaml"
    # what each source hands to the entry point (None = that source names nothing)
    names: dict[str, str | None] = {
        "prev_cfg": str(prev_path) if prev_path else None,
        "prev_cli": str(prev_cli_path) if prev_cli_path else None,
        "ksr_cfg": str(decoy / "ksr.xml") if files_via == "cli" else None if files_via == "cli-only" else str(ksr_path),
        "ksr_cli": str(ksr_path) if cli_files else None,
        "out_cfg": str(decoy / "skr.xml") if files_via == "cli" else None if files_via == "cli-only" else str(out_path),
        "out_cli": str(out_path) if cli_files else None,
        "config": str(cfg_path),
    }
    effective = True
    for role, kind in (file_faults or {}).items():
        if role == "config":
            continue  # broken after it has been written, below
        if names[role] is None and kind != "empty-string":
            raise ValueError(f"file fault for {role}, which names nothing in this run")
        names[role], eff = break_name(Path(names[role] or "unnamed"), kind, output=role.startswith("out_"))
        effective = effective and eff
    # the output path the run is ASKED to write (command line before configuration) and the one it must not touch
    asked_out = Path(names["out_cli"] or names["out_cfg"] or out_path)
    other_out = Path(names["out_cfg"]) if (names["out_cli"] and names["out_cfg"]) else None
    cfgd = config_dict(sc, "s", {"input_ksr": names["ksr_cfg"], "previous_skr": names["prev_cfg"], "output_skr": names["out_cfg"]}, rp_extra, ksk_policy_extra, response_policy_extra)
    if cfg_mutator:
        cfgd = cfg_mutator(cfgd)
    # (a YAML mapping is ordered: keep the schema's listing order; non-ASCII text is written as such, UTF-8, as an operator's editor does)
    cfg_path.write_text(yaml.safe_dump(cfgd, sort_keys=False, allow_unicode=True), encoding="utf-8")
    if file_faults and "config" in file_faults:
        names["config"], eff = break_name(cfg_path, file_faults["config"], output=False)
        effective = effective and eff
    state_before = path_state(asked_out)
    other_before = path_state(other_out) if other_out is not None else None
    world = sc.world()
    prompt = Prompt(answer)
    if now_us is None:
        now_us = lib.dt_us(sc.start) - 5 * lib.DAY_US
    obs: dict[str, Any] = {"world": world, "prompt": prompt, "preexisting": preexisting, "prev_mode": "none" if (prev_xml is None and prev_cli_xml is None) else "both" if (prev_xml is not None and prev_cli_xml is not None) else "cli" if prev_cli_xml is not None else "config"}
    obs["names"] = dict(names)
    obs["fault_effective"] = effective
    stdout = io.StringIO()
    orig_input = builtins.input
    with world.installed(), C.Oracles() as orc, lib.PinnedClock() as clock, contextlib.redirect_stdout(stdout):
        clock.now_us = now_us
        builtins.input = prompt
        try:
            if use_main:
                obs["outcome"], obs["exit"] = run_main(tool, workdir, names["config"], schema_arg, force, hsm_arg, names["prev_cli"], (names["ksr_cli"], names["out_cli"]) if cli_files else None)
            else:
                try:
                    config = KSKMConfig.from_dict(copy.deepcopy(cfgd))  # (_transform_config pops keys out of nested dicts)
                except Exception as exc:  # noqa: BLE001
                    config = None
                    obs["outcome"] = lib.classify_exception(exc)
                if config is not None:
                    args = argparse.Namespace(
                        schema=schema_arg, previous_skr=names["prev_cli"], ksr=names["ksr_cli"], skr=names["out_cli"], config=names["config"], force=force, hsm=hsm_arg,
                        log_ksr_contents=False, log_skr_contents=False, log_previous_skr_contents=False, debug=False, syslog=False,
                    )
                    obs["outcome"] = lib.run_impl(lambda: tool.ksrsigner(logging.getLogger("verif"), args, config), bool)
        finally:
            builtins.input = orig_input
        obs["oracles"] = orc.take()
    obs["stdout"] = stdout.getvalue()
    obs["log"] = C.canon_log(world.log)
    state_after = path_state(asked_out)
    obs["output_state"] = (state_before, state_after)  # what the name of the output leads to, before and after (file bytes / directory listing / nothing)
    obs["file_after"] = state_after[1] if state_after[0] == "file" else None
    if file_faults and any(r.startswith("out_") for r in file_faults):
        obs["preexisting"] = state_before[1] if state_before[0] == "file" else None
    obs["written"] = obs["file_after"] is not None and obs["file_after"] != obs["preexisting"]
    obs["sign_ops"] = sum(1 for r in obs["log"] if r["op"] == "sign")
    # something was written to the path the command line overrides
    obs["stray_output"] = other_out is not None and path_state(other_out) != other_before
    # ---- model line ----------------------------------------------------------------------------
    try:
        config = KSKMConfig.from_dict(copy.deepcopy(cfgd))
    except Exception:  # noqa: BLE001
        config = None
    if config is not None and not (file_faults and "config" in file_faults):

        def parsed(text: str | None, fn: Any, conv: Any) -> Any:
            if text is None:
                return None
            return lib.run_impl(lambda: fn(text), conv)

        # the schema the model follows is read off the configuration document itself, slot NUMBER -> actions (never the
        # position in the listing), not through the repository's get_schema(): a loader that renumbers or drops slots is
        # then a model/implementation difference
        actions = listed_actions(cfgd, schema_arg)
        if actions is None and schema_arg in config.schemas:
            sch = config.get_schema(schema_arg)
            actions = [{"slot": int(n), "action": {"publish": list(a.publish), "sign": list(a.sign), "revoke": list(a.revoke)}} for n, a in sch.actions.items()]
        obs["line"] = {
            "op": "ksrsigner",
            "actions": actions,
            # documented precedence: a previous SKR named on the command line wins over the configured one
            "prev": parsed(prev_cli_xml if prev_cli_xml is not None else prev_xml, response_from_xml, lib.response_j) if not file_faults else read_outcome(picked(names["prev_cli"], names["prev_cfg"]), response_from_xml, lib.response_j),
            "ksr": parsed(ksr_xml, request_from_xml, lib.request_j) if not file_faults else read_outcome(picked(names["ksr_cli"], names["ksr_cfg"]), request_from_xml, lib.request_j),
            "hsm": C.hsm_j(config),
            "hsmName": hsm_arg,
            "force": force,
            "answer": answer,
            "kskKeys": [{"name": n, "key": C.ksk_j(k)} for n, k in config.ksk_keys.items()],
            "kskPolicy": {"signaturePolicy": lib.sigpolicy_j(config.ksk_policy.signature_policy), "ttl": config.ksk_policy.ttl, "signersName": config.ksk_policy.signers_name},
            "requestPolicy": lib.request_policy_j(config.request_policy),
            "responsePolicy": lib.response_policy_j(config.response_policy),
            "now": now_us,
            "log": obs["log"],
            **obs["oracles"],
        }
    return obs


def picked(cli: str | None, cfg: str | None) -> str | None:
    """The documented precedence of file names: a (non-empty) command-line value before the configured one
    (the model's `pickFile`; the two are compared by corr_C03 through the driver's `pick_file`)."""
    return cli if cli else cfg


def read_outcome(name: str | None, parse: Any, conv: Any) -> Any:
    """What reading + parsing the file `name` comes to, read by the harness itself: None = no name, a failure when the
    name does not lead to a readable file, otherwise the repository parser's outcome on its text (parsing is C12/C13's
    subject, its outcome is an input of the ceremony model)."""
    if name is None:
        return None
    try:
        data = Path(name).read_bytes()
    except OSError:
        return {"error": "other"}
    try:
        text = data.decode("utf-8")
    except UnicodeDecodeError:
        return {"error": "unicode"}
    return lib.run_impl(lambda: parse(text), conv)


def break_name(path: Path, kind: str, *, output: bool) -> tuple[str, bool]:
    """Make the name a source hands over one that does not lead to a usable file (see FILE_FAULTS_IN / FILE_FAULTS_OUT).
    `path` holds the intended content already (input files) or whatever lies at the output path.  Returns the name to hand
    over and whether the fault is effective for THIS process (permission bits mean nothing to uid 0)."""
    if kind == "empty-string":
        return "", True
    if kind == "missing":  # a typo: the right file lies beside the name
        typo = path.with_name(path.name.replace("-", "_", 1) if "-" in path.name else path.stem + "_" + path.suffix)
        assert not typo.exists() and not typo.is_symlink()
        return str(typo), True
    if kind == "directory":
        content = path.read_bytes() if path.is_file() else None
        path.unlink(missing_ok=True)
        path.mkdir()
        if content is not None and not output:
            (path / path.name).write_bytes(content)  # the file is IN the directory that was named
        return str(path), True
    if kind == "empty":
        path.write_bytes(b"")
        return str(path), True
    if kind == "unreadable":
        path.chmod(0)
        return str(path), not os.access(path, os.R_OK)
    if kind == "dangling-symlink":
        path.unlink(missing_ok=True)
        path.symlink_to(path.with_name("moved-away-" + path.name))
        return str(path), True
    if kind == "parent-is-a-file":  # the name goes THROUGH a regular file
        if not path.exists():
            path.write_bytes(SENTINEL)
        return str(path / path.name), True
    if kind == "missing-parent" and output:
        return str(path.with_name("no-such-directory") / path.name), True
    if kind == "unwritable" and output:
        if not path.exists():
            path.write_bytes(SENTINEL)
        path.chmod(0o444)
        return str(path), not os.access(path, os.W_OK)
    raise ValueError(f"unknown file fault {kind!r} ({'output' if output else 'input'})")


def path_state(p: Path) -> tuple[str, Any]:
    """What a name leads to: ("absent", None) | ("file", bytes) | ("dir", sorted listing) | ("other", description)."""
    try:
        if p.is_symlink() and not p.exists():
            return ("dangling-symlink", os.readlink(p))
        if p.is_dir():
            return ("dir", sorted(x.name for x in p.iterdir()))
        if p.is_file():
            return ("file", p.read_bytes())
        if not p.exists():
            return ("absent", None)
    except OSError as exc:  # e.g. a path through a regular file
        return ("unreachable", type(exc).__name__)
    return ("other", None)


def listed_actions(cfgd: dict[str, Any], schema_arg: str) -> list[dict[str, Any]] | None:
    """`schemas.<name>` of the configuration document as slot number -> {publish, sign, revoke} (a string stands for a
    one-element list, a missing entry for none), in listing order.  None when the name is not configured or the section
    is not of that plain form."""

    def as_list(x: Any) -> list[str]:
        if x is None:
            return []
        return [x] if isinstance(x, str) else [str(v) for v in x]

    try:
        section = cfgd["schemas"]
        if schema_arg not in section:
            return None
        return [{"slot": int(n), "action": {"publish": as_list(a.get("publish")), "sign": as_list(a.get("sign")), "revoke": as_list(a.get("revoke"))}} for n, a in section[schema_arg].items()]
    except Exception:  # noqa: BLE001
        return None


def run_main(tool: Any, workdir: Path, cfg_path: Path | str, schema_arg: str, force: bool, hsm_arg: str | None, prev_cli_path: Path | str | None = None, cli_files: tuple[Path | str | None, Path | str | None] | None = None) -> tuple[Any, int]:
    """Call main() in-process: argv patched, cwd = workdir (main() opens a log file there)."""
    argv = ["ksrsigner", "--config", str(cfg_path), "--schema", schema_arg]
    if force:
        argv.append("--force")
    if hsm_arg:
        argv += ["--hsm", hsm_arg]
    if prev_cli_path is not None:
        argv += ["--previous_skr", str(prev_cli_path)]
    if cli_files is not None:
        argv += [str(x) for x in cli_files if x is not None]
    old_argv, old_cwd = sys.argv, os.getcwd()
    root = logging.getLogger()
    before = list(root.handlers)
    sys.argv = argv
    os.chdir(workdir)
    try:
        try:
            tool.main()
            return {"ok": None}, 0
        except SystemExit as e:
            code = e.code if isinstance(e.code, int) else (0 if e.code is None else 1)
            return {"exit": code}, code
        except KeyboardInterrupt:
            return {"error": "interrupt"}, 1
        except BaseException as exc:  # noqa: BLE001  (an uncaught exception makes the interpreter exit with status 1)
            return lib.classify_exception(exc), 1
    finally:
        sys.argv = old_argv
        os.chdir(old_cwd)
        for h in list(root.handlers):
            if h not in before:
                root.removeHandler(h)
                with contextlib.suppress(Exception):
                    h.close()


def canon_written(xml_bytes: bytes) -> Any:
    from kskm.skr.load import response_from_xml

    return S.response_sorted_j(response_from_xml(xml_bytes.decode()))


# --------------------------------------------------------------------------------------
# independent judges of the file at the output path (ElementTree + dnspython; nothing from /repo)
# --------------------------------------------------------------------------------------

_DURATION = None


def duration_us(text: str) -> int | None:
    """xsd:duration without years / months -> microseconds (None when it is not of that form)."""
    import re

    global _DURATION
    if _DURATION is None:
        _DURATION = re.compile(r"^P(?:(\d+)W)?(?:(\d+)D)?(?:T(?:(\d+)H)?(?:(\d+)M)?(?:(\d+)S)?)?$")
    m = _DURATION.match(text.strip())
    if not m or text.strip() in ("P", "PT") or text.strip().endswith("T"):
        return None
    w, d, h, mi, s = (int(x) if x else 0 for x in m.groups())
    return ((((w * 7 + d) * 24 + h) * 60 + mi) * 60 + s) * 10**6


def skr_document(xml_bytes: bytes) -> dict[str, Any]:
    """The WHOLE file, read with ElementTree, in the shape of lib.response_j (bundles / keys / signatures in DOCUMENT
    order).  Raises on anything that is not exactly one well-formed SKR document (e.g. bytes after `</KSR>`)."""
    import xml.etree.ElementTree as ET
    from datetime import datetime

    root = ET.fromstring(xml_bytes.decode("utf-8"))
    if root.tag != "KSR":
        raise ValueError(f"root element is {root.tag}")

    def txt(e: Any, tag: str) -> str:
        c = e.findall(tag)
        if len(c) != 1:
            raise ValueError(f"{len(c)} <{tag}> elements in <{e.tag}>")
        return (c[0].text or "").strip()

    def ts(e: Any, tag: str) -> int:
        return lib.dt_us(datetime.fromisoformat(txt(e, tag)))

    def policy(e: Any) -> dict[str, Any]:
        algs = []
        for a in e.findall("SignatureAlgorithm"):
            kids = list(a)
            if len(kids) != 1:
                raise ValueError("SignatureAlgorithm without exactly one parameter element")
            k = kids[0]
            algs.append({"kind": k.tag.lower(), "bits": int(k.get("size")), "algorithm": int(a.get("algorithm")), "exponent": None if k.get("exponent") is None else int(k.get("exponent"))})
        out: dict[str, Any] = {"algorithms": algs}
        for name, tag in (("publishSafety", "PublishSafety"), ("retireSafety", "RetireSafety"), ("maxSignatureValidity", "MaxSignatureValidity"), ("minSignatureValidity", "MinSignatureValidity"), ("maxValidityOverlap", "MaxValidityOverlap"), ("minValidityOverlap", "MinValidityOverlap")):
            out[name] = duration_us(txt(e, tag))
        return out

    resp = root.findall("Response")
    if len(resp) != 1 or len(list(root)) != 1:
        raise ValueError("not exactly one <Response> under <KSR>")
    rp = resp[0].find("ResponsePolicy")
    if rp is None:
        raise ValueError("no <ResponsePolicy>")
    bundles = []
    for b in resp[0].findall("ResponseBundle"):
        keys = [
            {"keyIdentifier": k.get("keyIdentifier"), "keyTag": int(k.get("keyTag")), "ttl": int(txt(k, "TTL")), "flags": int(txt(k, "Flags")), "protocol": int(txt(k, "Protocol")), "algorithm": int(txt(k, "Algorithm")), "publicKey": txt(k, "PublicKey")}
            for k in b.findall("Key")
        ]
        sigs = []
        for s in b.findall("Signature"):
            tc = txt(s, "TypeCovered")
            sigs.append(
                {
                    "keyIdentifier": s.get("keyIdentifier"),
                    "ttl": int(txt(s, "TTL")),
                    "typeCovered": {"DNSKEY": 48}.get(tc, tc),
                    "algorithm": int(txt(s, "Algorithm")),
                    "labels": int(txt(s, "Labels")),
                    "originalTtl": int(txt(s, "OriginalTTL")),
                    "expiration": ts(s, "SignatureExpiration"),
                    "inception": ts(s, "SignatureInception"),
                    "keyTag": int(txt(s, "KeyTag")),
                    "signersName": txt(s, "SignersName"),
                    "signatureData": txt(s, "SignatureData"),
                }
            )
        bundles.append({"id": b.get("id"), "inception": ts(b, "Inception"), "expiration": ts(b, "Expiration"), "keys": keys, "signatures": sigs, "signers": None})
    return {"id": root.get("id"), "serial": int(root.get("serial")), "domain": root.get("domain"), "timestamp": None, "zskPolicy": policy(rp.find("ZSK")), "kskPolicy": policy(rp.find("KSK")), "bundles": bundles}


def skr_problems(xml_bytes: bytes, *, num_bundles: int | None = None, roles: list[dict[str, Any]] | None = None, request_xml: str | None = None) -> list[str]:
    """Everything wrong with the file as a signed key response, judged without /repo.  [] = a relying party that follows
    RFC 4034/4035 (dnspython) accepts every bundle over exactly its published keys.
    roles[i] = {"publish": {label…}, "revoke": {label…}, "sign": {label…}} of slot i+1 (labels, already mapped from
    the configuration's key names): published KSKs must be exactly publish ∪ sign minus revoke with flags 257, revoked ones
    flags 385, signatures exactly one per signer.  request_xml: the KSR whose ZSKs (flags without the SEP bit) and
    inception / expiration / ids each bundle must echo."""
    import base64

    import dns.dnssec
    import dns.name
    import dns.rdataclass
    import dns.rdatatype
    import dns.rrset
    from dns.rdtypes.ANY.DNSKEY import DNSKEY
    from dns.rdtypes.ANY.RRSIG import RRSIG

    try:
        doc = skr_document(xml_bytes)
    except Exception as exc:  # noqa: BLE001
        return [f"not one well-formed SKR document: {type(exc).__name__}: {str(exc)[:160]}"]
    bad: list[str] = []
    if num_bundles is not None and len(doc["bundles"]) != num_bundles:
        bad.append(f"{len(doc['bundles'])} bundles, {num_bundles} requested")
    if not doc["bundles"]:
        bad.append("no bundles")
    req_bundles = None
    if request_xml is not None:
        import xml.etree.ElementTree as ET

        try:
            rq = ET.fromstring(request_xml)
            req_bundles = rq.find("Request").findall("RequestBundle")
            if rq.get("id") != doc["id"] or rq.get("serial") != str(doc["serial"]) or rq.get("domain") != doc["domain"]:
                bad.append("id / serial / domain of the request not echoed")
            zp = rq.find("Request").find("RequestPolicy").find("ZSK")
            for name, tag in (("publishSafety", "PublishSafety"), ("retireSafety", "RetireSafety"), ("maxSignatureValidity", "MaxSignatureValidity"), ("minSignatureValidity", "MinSignatureValidity"), ("maxValidityOverlap", "MaxValidityOverlap"), ("minValidityOverlap", "MinValidityOverlap")):
                declared = duration_us(zp.find(tag).text)
                if declared is not None and declared != doc["zskPolicy"][name]:
                    bad.append(f"ZSK policy of the request not echoed: {tag} {doc['zskPolicy'][name]} us, the request declares {declared} us")
            if len(req_bundles) != len(doc["bundles"]):
                bad.append(f"{len(doc['bundles'])} response bundles for {len(req_bundles)} request bundles")
                req_bundles = None
        except Exception:  # noqa: BLE001  (a request the harness mangled on purpose: nothing to echo)
            req_bundles = None
    root = dns.name.root
    for i, b in enumerate(doc["bundles"]):
        where = f"bundle {i + 1}"
        ids = [k["keyIdentifier"] for k in b["keys"]]
        if len(set(ids)) != len(ids):
            bad.append(f"{where}: key identifier used by more than one key: {sorted(x for x in set(ids) if ids.count(x) > 1)}")
        if not b["keys"]:
            bad.append(f"{where}: no keys")
            continue
        if not b["signatures"]:
            bad.append(f"{where}: no signature")
        ttls = {k["ttl"] for k in b["keys"]}
        if len(ttls) != 1:
            bad.append(f"{where}: keys of one RRset with different TTLs {sorted(ttls)}")
        rdatas = {}
        try:
            for k in b["keys"]:
                rd = DNSKEY(dns.rdataclass.IN, dns.rdatatype.DNSKEY, k["flags"], k["protocol"], k["algorithm"], base64.b64decode(k["publicKey"], validate=True))
                rdatas[id(k)] = rd
                if dns.dnssec.key_id(rd) != k["keyTag"]:
                    bad.append(f"{where}: key {k['keyIdentifier']} carries tag {k['keyTag']}, its RDATA has {dns.dnssec.key_id(rd)}")
        except Exception as exc:  # noqa: BLE001
            bad.append(f"{where}: key material unreadable: {type(exc).__name__}: {exc}")
            continue
        if len({rd.to_wire() for rd in rdatas.values()}) != len(b["keys"]):
            bad.append(f"{where}: the same DNSKEY record twice")
        signer_ids = [s["keyIdentifier"] for s in b["signatures"]]
        if len(set(signer_ids)) != len(signer_ids):
            bad.append(f"{where}: more than one signature by the same key")
        for s in b["signatures"]:
            named = [k for k in b["keys"] if k["keyIdentifier"] == s["keyIdentifier"]]
            if len(named) != 1:
                bad.append(f"{where}: signature by {s['keyIdentifier']} names {len(named)} published keys")
                continue
            k = named[0]
            if k["keyTag"] != s["keyTag"] or k["algorithm"] != s["algorithm"]:
                bad.append(f"{where}: signature by {s['keyIdentifier']}: tag/algorithm {s['keyTag']}/{s['algorithm']} are not those of the named key {k['keyTag']}/{k['algorithm']}")
            if k["flags"] & 1 == 0:
                bad.append(f"{where}: signature by {s['keyIdentifier']}, which is not a key-signing key (flags {k['flags']})")
            if (s["inception"], s["expiration"]) != (b["inception"], b["expiration"]):
                bad.append(f"{where}: signature by {s['keyIdentifier']} does not cover the bundle's inception..expiration")
            if s["typeCovered"] != 48 or s["originalTtl"] not in ttls:
                bad.append(f"{where}: signature by {s['keyIdentifier']}: type covered / original TTL do not fit the key set")
            try:
                rrset = dns.rrset.RRset(root, dns.rdataclass.IN, dns.rdatatype.DNSKEY)
                for kk in b["keys"]:
                    rrset.add(rdatas[id(kk)], ttl=s["originalTtl"])
                only = dns.rrset.RRset(root, dns.rdataclass.IN, dns.rdatatype.DNSKEY)
                only.add(rdatas[id(k)], ttl=s["originalTtl"])
                rrsig = RRSIG(dns.rdataclass.IN, dns.rdatatype.RRSIG, dns.rdatatype.DNSKEY, s["algorithm"], s["labels"], s["originalTtl"], s["expiration"] // 10**6, s["inception"] // 10**6, s["keyTag"], dns.name.from_text(s["signersName"]), base64.b64decode(s["signatureData"], validate=True))
                dns.dnssec.validate_rrsig(rrset, rrsig, {root: only}, now=s["inception"] // 10**6 + 1)
            except Exception as exc:  # noqa: BLE001
                bad.append(f"{where}: signature by {s['keyIdentifier']} rejected by dnspython over the published key set: {type(exc).__name__}: {str(exc)[:120]}")
        if roles is not None and i < len(roles):
            want = roles[i]
            revoked = set(want["revoke"])
            published = (set(want["publish"]) | set(want["sign"])) - revoked
            got_pub = {k["keyIdentifier"] for k in b["keys"] if k["flags"] == 257}
            got_rev = {k["keyIdentifier"] for k in b["keys"] if k["flags"] & 1 and k["flags"] & 0x80}
            if got_pub != published or got_rev != revoked:
                bad.append(f"{where}: KSKs published {sorted(got_pub)} / revoked {sorted(got_rev)}; schema slot {i + 1} says {sorted(published)} / {sorted(revoked)}")
            if sorted(signer_ids) != sorted(set(want["sign"])):
                bad.append(f"{where}: signatures by {sorted(signer_ids)}; schema slot {i + 1} says {sorted(set(want['sign']))}")
        if req_bundles is not None:
            qb = req_bundles[i]
            if qb.get("id") != b["id"]:
                bad.append(f"{where}: id {b['id']} is not the request bundle's {qb.get('id')}")
            from datetime import datetime

            if (lib.dt_us(datetime.fromisoformat(qb.find("Inception").text.strip())), lib.dt_us(datetime.fromisoformat(qb.find("Expiration").text.strip()))) != (b["inception"], b["expiration"]):
                bad.append(f"{where}: inception / expiration of the request bundle not echoed")
            want_z = {(k.get("keyIdentifier"), int(k.find("Flags").text), int(k.find("Algorithm").text), k.find("PublicKey").text.strip()) for k in qb.findall("Key")}
            got_z = {(k["keyIdentifier"], k["flags"], k["algorithm"], k["publicKey"]) for k in b["keys"] if k["flags"] & 1 == 0}
            if want_z != got_z:
                bad.append(f"{where}: ZSKs {sorted(x[0] for x in got_z)} are not the request bundle's {sorted(x[0] for x in want_z)} (identifier, flags, algorithm, key)")
    return bad


def roles_of(sc: S.Scenario) -> list[dict[str, Any]]:
    """Schema slots 1..n of a scenario with key NAMES replaced by token labels (what an SKR shows)."""
    out = []
    for slot in range(1, len(sc.layout) + 1):
        a = sc.schema[slot]
        out.append({what: {sc.ksks[n]["label"] for n in a.get(what, [])} for what in ("publish", "sign", "revoke")})
    return out


def output_files(earlier_skr: bytes | None = None) -> list[tuple[str, bytes | None]]:
    """What a ceremony may find at its output path: nothing, a short file, a file longer than any SKR, and — when the
    history has one — an earlier SKR (the same path re-used quarter after quarter / a ceremony repeated over its own
    result), also made longer than whatever will be written by a trailing comment."""
    out: list[tuple[str, bytes | None]] = [("absent", None), ("short", SENTINEL), ("filler-300k", FILLER_300K)]
    if earlier_skr:
        out.append(("earlier-skr", earlier_skr))
        out.append(("earlier-skr-longer", earlier_skr + b"<!-- " + b"x" * 9000 + b" -->\n"))
    return out


# --------------------------------------------------------------------------------------
# non-ASCII but legal text in everything that is copied into an SKR
# --------------------------------------------------------------------------------------


class Text:
    """How a history spells what ends up in its SKRs.  KSK labels must fit the configuration's `^[\\w_]+$` (Unicode-aware:
    letters and digits of any script, no combining marks, no punctuation); ZSK key identifiers, request ids and bundle ids
    are xsd:string in schema/ksr.rnc (TEXT_PROFILES: no quote, `<`, `&`; XML_TEXT_PROFILES: character / entity references and
    other XML-special content, written into the KSR as RAW attribute text — the strings below are what stands between the
    quotes in the file).
    references: a standard parser shows the raw text differently (it resolves references and turns a tab in an attribute
    into a blank; the repository's reader hands the text over verbatim); wellformed: a standard XML parser can read a document holding it; ksk_map / rid_fn: spellings that are not a
    format string (labels related to EACH OTHER; request ids related to the previous quarter's)."""

    def __init__(self, name: str, ksk: str, zsk: str, rid: str, *, references: bool = False, wellformed: bool = True, ksk_map: dict[str, str] | None = None, rid_fn: Any = None) -> None:
        self.name = name
        self._ksk, self._zsk, self._rid = ksk, zsk, rid
        self.references, self.wellformed = references, wellformed
        self._ksk_map, self._rid_fn = ksk_map, rid_fn

    def ksk(self, label: str) -> str:
        if self._ksk_map is not None and label in self._ksk_map:
            return self._ksk_map[label]
        return self._ksk.format(label)

    def zsk(self, ident: str) -> str:
        return self._zsk.format(ident)

    def rid(self, rid: str) -> str:
        if self._rid_fn is not None:
            rid = self._rid_fn(rid)
        return self._rid.format(rid)


TEXT_PROFILES: dict[str, Text] = {
    # Latin-1 letters (two bytes each in UTF-8; one byte in ISO 8859-1 — a writer or reader in the wrong charset shows)
    "latin-1": Text("latin-1", "{}_jürgen_ñ", "zône-{}-é", "demande-ß-{}"),
    # other scripts of the basic plane (three bytes in UTF-8), Greek, Cyrillic, Han, Arabic-Indic digits (\w as well)
    "scripts": Text("scripts", "{}_ключ_鍵_κλειδί٣", "{}-зона-区域", "{}-запрос-请求"),
    # beyond the basic plane (four bytes in UTF-8, a surrogate pair in UTF-16): mathematical script letters are \w
    "astral": Text("astral", "{}_𝒦𝓈𝓀", "{}-🔑", "{}-📜-𐍈"),
    # characters that a normalising layer would change: ANGSTROM SIGN U+212B and the fi ligature (both \w), decomposed
    # accents (NFD) in the identifiers that are free text
    "unnormalised": Text("unnormalised", "{}_\u212bngstr\ufb01", "zu\u0308rich-{}", "re\u0301q-{}"),
}


def _quarter_digits(grow: bool) -> Any:
    """`req-q<N>…` -> `req-q` + a run of 1s whose length grows (shrinks) with N: the request id of a quarter is a proper
    prefix of the next (previous) quarter's, and so are the bundle ids' stems."""
    import re

    def fn(rid: str) -> str:
        return re.sub(r"q(\d+)", lambda m: "q" + "1" * ((int(m.group(1)) + 1) if grow else max(1, 12 - int(m.group(1)))), rid, count=1)

    return fn


# XML-SPECIAL CONTENT that the repository's reader hands over verbatim (it resolves no references) and the writer must put back
# verbatim: the request id a KSR re-uses is compared with what the previous SKR shows, as the reader reads both.  ZSK key
# identifiers, request ids (and with them bundle ids) only: KSK labels and the domain are confined by the configuration
# (`^[\w_]+$`, `^[\w\.]+$`).  NOT part of TEXT_PROFILES (corr_C03 iterates those with the strict standard-parser comparison).
XML_TEXT_PROFILES: dict[str, Text] = {
    # the five characters `&amp;` — a standard parser reads `&` — and the same escaped once more
    "amp-reference": Text("amp-reference", "{}", "{}&amp;zone", "root&amp;arpa-{}-a&amp;amp;b", references=True),
    # the other predefined entities; numeric character references, decimal and hexadecimal (u-umlaut, hyphen, copyright sign, an astral character)
    "other-references": Text("other-references", "{}", "z&#252;rich-{}&lt;z&gt;", "{}&quot;q&quot;&apos;&lt;&gt;-&#x2d;-&#169;&#x1F511;", references=True),
    # an apostrophe and a TAB inside the attribute value (a standard parser normalises the tab to a blank)
    "apostrophe-tab": Text("apostrophe-tab", "{}", "{}'s", "it's\t{}", references=True),
    # a bare ampersand, a reference without its semicolon, an empty reference: not well-formed XML; the reader accepts it verbatim
    "bare-ampersand": Text("bare-ampersand", "{}", "{}&z", "AT&T-{}-&amp-&;", references=True, wellformed=False),
}
# IDENTIFIER RELATIONS: labels / identifiers / ids that are distinct but related as strings (compared for equality everywhere)
RELATED_TEXT_PROFILES: dict[str, Text] = {
    # the current KSK's label is a proper prefix of the next one's; ZSK identifiers continue a KSK label; each request id is a proper prefix of the next quarter's
    "related-growing": Text("related-growing", "{}", "KC2016{}", "{}", ksk_map={"Kcurrent": "KC2016", "Knext": "KC2016b"}, rid_fn=_quarter_digits(True)),
    # the other direction; labels differ only in case from each other's stem, ZSK identifiers are a KSK label's suffix + digits
    "related-shrinking": Text("related-shrinking", "{}", "C2016{}", "{}", ksk_map={"Kcurrent": "KC2016b", "Knext": "kc2016B"}, rid_fn=_quarter_digits(False)),
}


def resolve_references(text: str, *, attr: bool = True) -> str:
    """What a standard XML parser makes of raw attribute (element) text: literal TAB / LF / CR become blanks in an attribute
    value (XML 1.0 §3.3.3), then the predefined entities and numeric character references are resolved.  Written from the XML
    recommendation, independent of any library.  Raises ValueError where the text is not well-formed (a bare `&`)."""
    if attr:
        text = text.replace("\r\n", " ").replace("\t", " ").replace("\n", " ").replace("\r", " ")
    out = []
    i = 0
    named = {"amp": "&", "lt": "<", "gt": ">", "quot": '"', "apos": "'"}
    while i < len(text):
        c = text[i]
        if c == "<":
            raise ValueError("'<' in character data")
        if c != "&":
            out.append(c)
            i += 1
            continue
        j = text.find(";", i)
        if j < 0:
            raise ValueError("reference without ';'")
        body = text[i + 1 : j]
        if body in named:
            out.append(named[body])
        elif (body[:2] == "#x" and body[2:] and all(ch in "0123456789abcdefABCDEF" for ch in body[2:])) or (body[:1] == "#" and body[1:].isdigit() and body[1:].isascii()):
            n = int(body[2:], 16) if body[:2] == "#x" else int(body[1:])
            # the Char production of XML 1.0
            if not (n in (0x9, 0xA, 0xD) or 0x20 <= n <= 0xD7FF or 0xE000 <= n <= 0xFFFD or 0x10000 <= n <= 0x10FFFF):
                raise ValueError(f"reference to a character XML does not allow: &{body};")
            out.append(chr(n))
        else:
            raise ValueError(f"unknown reference &{body};")
        i = j + 1
    return "".join(out)


def resolve_document(doc: dict[str, Any]) -> dict[str, Any]:
    """A response / request in the JSON shape of lib.response_j whose texts are RAW (the repository's verbatim reading) ->
    the same with every attribute text as a standard parser shows it (ids, domain, key identifiers)."""
    out = dict(doc)
    for f in ("id", "domain"):
        out[f] = resolve_references(doc[f])
    bundles = []
    for b in doc["bundles"]:
        nb = dict(b, id=resolve_references(b["id"]))
        nb["keys"] = [dict(k, keyIdentifier=resolve_references(k["keyIdentifier"])) for k in b["keys"]]
        nb["signatures"] = [dict(x, keyIdentifier=resolve_references(x["keyIdentifier"])) for x in b["signatures"]]
        bundles.append(nb)
    out["bundles"] = bundles
    return out


def raw_ids(xml_text: str) -> tuple[str | None, list[str]]:
    """(request id, bundle ids) of a KSR / SKR as RAW attribute text, in document order — what stands between the quotes in
    the file (plain form: double quotes, `id` first)."""
    import re

    m = re.search(r'<KSR id="([^"]*)"', xml_text)
    return (m.group(1) if m else None), re.findall(r'<(?:Request|Response)Bundle id="([^"]*)"', xml_text)


def echo_mismatch(request_reading: Any, response_reading: Any) -> str | None:
    """An SKR answers a KSR: id, serial, domain, the bundle ids in order and, per bundle, the ZSKs (identifier, key text) of the
    request must come back EXACTLY as the same reader reads them from the request — whatever the text looks like (the next
    ceremony compares the new KSR's ids with these).  Both arguments in the JSON shape of lib.request_j / lib.response_j,
    read by one and the same reader.  None = echoed; otherwise the first difference."""
    if request_reading is None or response_reading is None:
        return "unreadable"
    for f in ("id", "serial", "domain"):
        if request_reading[f] != response_reading[f]:
            return f"{f}: the KSR has {request_reading[f]!r}, the SKR shows {response_reading[f]!r}"
    qb, rb = request_reading["bundles"], response_reading["bundles"]
    if [b["id"] for b in qb] != [b["id"] for b in rb]:
        return f"bundle ids: the KSR has {[b['id'] for b in qb]!r}, the SKR shows {[b['id'] for b in rb]!r}"[:400]
    for i, (q, a) in enumerate(zip(qb, rb)):
        want = sorted((k["keyIdentifier"], k["publicKey"]) for k in q["keys"])
        got = sorted((k["keyIdentifier"], k["publicKey"]) for k in a["keys"] if k["flags"] & 1 == 0)
        if want != got:
            return f"bundle {i + 1}: ZSK identifiers {[x[0] for x in got]!r} are not the request's {[x[0] for x in want]!r}"[:400]
    return None


def corrupt_signature(xml: str, which: int = -1) -> str:
    """The document with ONE base64 character of its `which`-th <SignatureData> changed (same length, still base64)."""
    import re

    ms = list(re.finditer(r"<SignatureData>([^<]*)</SignatureData>", xml))
    m = ms[which]
    body = m.group(1)
    k = len(body) // 2
    while body[k] in "=\n\r \t":
        k -= 1
    repl = "B" if body[k] != "B" else "C"
    return xml[: m.start(1)] + body[:k] + repl + body[k + 1 :] + xml[m.end(1) :]


def apply_text(sc: S.Scenario, text: Text | None, *, rid: bool = True) -> S.Scenario:
    """Re-spell a scenario (in place): KSK labels in the configuration and on the token, ZSK identifiers, request id
    (and with it the bundle ids).  Apply BEFORE token edits that capture labels."""
    if text is None:
        return sc
    for k in sc.ksks.values():
        k["label"] = text.ksk(k["label"])
        k["entry"] = dict(k["entry"], label=k["label"])
    sc.zsks = [(text.zsk(i), tk, a) for i, tk, a in sc.zsks]
    if rid:
        sc.req_id = text.rid(sc.req_id)
    sc.meta = dict(sc.meta, text=text.name)
    return sc


def rewrite_header(ksr_xml: str, *, id: str | None = None, serial: int | None = None, domain: str | None = None) -> str:  # noqa: A002
    """The KSR with other header attributes (no signature covers them).  Works on the plain form C.request_to_xml writes."""
    import re

    m = re.search(r'<KSR id="([^"]*)" domain="([^"]*)" serial="([^"]*)">', ksr_xml)
    if not m:
        raise ValueError("not the plain KSR form")
    new = f'<KSR id="{m.group(1) if id is None else id}" domain="{m.group(2) if domain is None else domain}" serial="{m.group(3) if serial is None else serial}">'
    return ksr_xml[: m.start()] + new + ksr_xml[m.end() :]


def rewrite_bundle_id(ksr_xml: str, index: int, new_id: str) -> str:
    """The KSR with the id of its `index`-th RequestBundle replaced (no signature covers it)."""
    import re

    ms = list(re.finditer(r'<RequestBundle id="([^"]*)">', ksr_xml))
    m = ms[index]
    return ksr_xml[: m.start()] + f'<RequestBundle id="{new_id}">' + ksr_xml[m.end() :]


# --------------------------------------------------------------------------------------
# the emitted file: the repository's reading against a standard parser's; the model's bytes
# --------------------------------------------------------------------------------------


def first_difference(a: Any, b: Any, path: str = "") -> str | None:
    """Where two JSON values first differ (a path and the two values), None when equal."""
    if type(a) is not type(b):
        return f"{path or '/'}: {a!r} != {b!r}"[:300]
    if isinstance(a, dict):
        for k in sorted(set(a) | set(b)):
            if k not in a or k not in b:
                return f"{path}/{k}: only on one side"
            d = first_difference(a[k], b[k], f"{path}/{k}")
            if d:
                return d
        return None
    if isinstance(a, list):
        if len(a) != len(b):
            return f"{path}: {len(a)} != {len(b)} elements"
        for i, (x, y) in enumerate(zip(a, b)):
            d = first_difference(x, y, f"{path}[{i}]")
            if d:
                return d
        return None
    return None if a == b else f"{path or '/'}: {a!r} != {b!r}"[:300]


def reader_mismatch(xml_bytes: bytes, repo_reading: Any, *, references: bool = False) -> str | None:
    """An emitted SKR must be to the tools' own loader what it is to a standard XML parser: `repo_reading` (the
    repository's response_from_xml of the decoded file, any form lib.response_j takes) against the ElementTree reading of
    the same bytes, both canonicalised (sets sorted).  None = the same document; otherwise where they first differ.
    references=True (histories spelled with XML_TEXT_PROFILES only): the repository's reader hands attribute text over
    verbatim, a standard parser resolves references and normalises white space in it; the repository's reading is then
    compared AFTER `resolve_document` (this module's own transcription of those two steps)."""
    if repo_reading is None:
        return "the repository's reader cannot read the file"
    try:
        doc = S.response_sorted_j(skr_document(xml_bytes))
    except Exception as exc:  # noqa: BLE001
        return f"a standard XML parser cannot read the file: {type(exc).__name__}: {str(exc)[:160]}"
    mine = S.response_sorted_j(repo_reading)
    if references:
        try:
            mine = S.response_sorted_j(resolve_document(mine))
        except ValueError as exc:
            return f"the repository's reading holds text that is not well-formed character data: {exc}"
    return first_difference(mine, doc)


def _in_order_of(model: list[Any], doc: list[Any]) -> list[Any] | None:
    import json

    left = list(model)
    out = []
    for want in doc:
        w = json.dumps(want, sort_keys=True)
        for i, have in enumerate(left):
            if json.dumps(have, sort_keys=True) == w:
                out.append(left.pop(i))
                break
        else:
            return None
    return out if not left else None


def align_to_document(model_skr: dict[str, Any], xml_bytes: bytes) -> dict[str, Any] | None:
    """The SKR the MODEL writes, with the members of its sets (keys of a bundle — the writer sorts them by tag, stably —,
    signatures of a bundle, algorithms of a policy) listed in the order the file shows: the order of a Python set is not
    the model's to know.  Only a permutation: the content stays the model's.  None when some list is not a permutation of
    the file's (the content differs; that is reported by the document-level comparisons)."""
    try:
        doc = skr_document(xml_bytes)
    except Exception:  # noqa: BLE001
        return None
    out = dict(model_skr)
    if len(doc["bundles"]) != len(model_skr["bundles"]):
        return None
    bundles = []
    for mb, db in zip(model_skr["bundles"], doc["bundles"]):
        nb = dict(mb)
        for part in ("keys", "signatures"):
            ordered = _in_order_of(mb[part], db[part])
            if ordered is None:
                return None
            nb[part] = ordered
        bundles.append(nb)
    out["bundles"] = bundles
    for pol in ("kskPolicy", "zskPolicy"):
        ordered = _in_order_of(model_skr[pol]["algorithms"], doc[pol]["algorithms"])
        if ordered is None:
            return None
        out[pol] = dict(model_skr[pol], algorithms=ordered)
    return out


WRITER_DRIVER = "kskm_driver_pkge"  # C11's model of skr_to_xml (lean/Kskm/SkrXml.lean), op `skr_to_xml`


def ensure_writer_driver() -> bool:
    """Build the writer model's driver through the build lock (a no-op when it is up to date)."""
    import fcntl
    import subprocess

    try:
        with open(lib.LEAN / ".build.lock", "w") as fd:
            fcntl.flock(fd, fcntl.LOCK_EX)
            try:
                rc = subprocess.run(["lake", "build", WRITER_DRIVER], cwd=lib.LEAN, stdout=subprocess.PIPE, stderr=subprocess.STDOUT, timeout=3000).returncode
            finally:
                fcntl.flock(fd, fcntl.LOCK_UN)
    except Exception:  # noqa: BLE001
        return False
    return rc == 0 and (lib.DRIVER.parent / WRITER_DRIVER).exists()


def predicted_bytes(pairs: list[tuple[dict[str, Any], bytes]]) -> list[bytes | None | str]:
    """For each (SKR the ceremony model writes, file the implementation wrote): the bytes the model's WRITER predicts —
    skrToXml of the aligned SKR, UTF-8 — or None when the two are not the same document (reported elsewhere), or a
    string describing why the writer model gave no text."""
    import json

    # many runs write the same SKR (every successful run of one ceremony): ask the writer model once per distinct pair
    keys = [(f, json.dumps(m, sort_keys=True)) for m, f in pairs]
    distinct = {k: i for i, k in reversed(list(enumerate(keys)))}  # key -> first index
    aligned = {i: align_to_document(*pairs[i]) for i in distinct.values()}
    idx = [i for i, a in aligned.items() if a is not None]
    outs = lib.run_driver([{"op": "skr_to_xml", "response": aligned[i]} for i in idx], exe=WRITER_DRIVER)
    first: dict[int, bytes | None | str] = {i: None for i in aligned}
    for i, o in zip(idx, outs):
        if isinstance(o, dict) and isinstance(o.get("ok"), str):
            first[i] = o["ok"].encode("utf-8")
        else:
            first[i] = "writer model: " + str(o)[:200]
    return [first[distinct[k]] for k in keys]


def compare_written_bytes(res: Any, items: list[tuple[dict[str, Any], Any, dict[str, Any], bytes]], what: str = "ksrsigner") -> None:
    """items: (case, implementation outcome, SKR the ceremony model writes, bytes the implementation wrote).  The bytes
    must be exactly the UTF-8 text the model's writer gives for the model's SKR; differences are model/implementation
    disagreements on a concrete input (`res` is a lib.Result)."""
    if not items:
        return
    if not ensure_writer_driver():
        res.notes.append("writer model driver (kskm_driver_pkge) could not be built: the byte-for-byte comparison was skipped")
        return
    for (case, outcome, _w, data), pb in zip(items, predicted_bytes([(w, f) for _, _, w, f in items])):
        res.bump("written SKR compared byte for byte with the model writer's text")
        if isinstance(pb, str):
            res.disagreement(f"{what}: the model's writer gives no text for the SKR the model writes", case, outcome, pb)
        elif pb is not None and pb != data:
            k = next((i for i, (a, b) in enumerate(zip(pb, data)) if a != b), min(len(pb), len(data)))
            res.disagreement(
                f"{what}: the bytes at the output path are not the UTF-8 text of the SKR the model writes", case, outcome, {"ok": True},
                first_differing_byte=k, bytes_in_file=data[max(0, k - 40) : k + 40].decode("utf-8", "replace"), bytes_of_model=pb[max(0, k - 40) : k + 40].decode("utf-8", "replace"), lengths=[len(data), len(pb)],
            )
