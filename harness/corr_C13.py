"""C13 correspondence: loading any file terminates promptly — a fully validated object or a clean error.

Every input is judged three ways:

  * the MODEL (lean/Kskm/Xml.lean + XmlGlue.lean through `kskm_driver_pkgd`) is asked first; it either
    answers an outcome (ok + data / error class / unsupported) or `hang` (the fuel of a loop ran out —
    KskmProofs/C13.lean proves that this means the loop never terminates);
  * the IMPLEMENTATION (request_from_xml / response_from_xml / parse / load_ksr / load_skr of /repo's
    working tree) runs in a watchdog-supervised pool of worker processes with the property's own budget
    of 10 s per input (a soft alarm inside the worker, a hard kill + restart by the supervisor);
  * the PROPERTY itself is evaluated on what the implementation did: it terminated within the budget;
    the result is an object that re-validates under the same policy, or an exception — never a hang,
    RecursionError or MemoryError; a file larger than the cap is refused without a read.

  implementation breaks the property         -> res.violation (input = replay)
  implementation != model, property holds    -> res.disagreement
  model `unsupported`                        -> counted, property still evaluated

Inputs: a dictionary of XML syntax variants applied to small valid documents; random mutations (bit
flips, splices, truncations, duplications, deletions of tags / quotes) of the archived KSRs / SKR of
/repo's test data and of generated documents; grammar-violating documents; thousands of tiny strings
over an adversarial alphabet through `parse` (result trees compared exactly); sizes up to 64 KiB and
selected shapes up to 1 MiB + 1 through load_ksr / load_skr on real temporary files; and the
`re` differential of harness/regex_diff.py.

The loaders' OPTIONS and the file NAME are inputs too (stream "load-options"): every optional parameter
of load_ksr / load_skr (read off their signatures with `inspect`: raise_original, log_contents, …; both
values of every flag, all combinations) x the length of the file path on a lattice (the short scratch
name; len(str(path)) = 200, 240, 249, 250, 251, 255, 256, 300, 1000, 4000 — nested directories with
components of at most 255 octets under the run's `.scratch_*` directory, removed afterwards) x valid
and invalid documents (archived KSRs / SKR, bad signature, policy violation, truncated, not UTF-8,
empty, over the size cap, 1 MiB of newlines / of one line), with and without a log handler that
formats every record.  Same oracle — terminates within the budget with a fully validated object or a
clean error, an over-size file is refused unread — plus: the outcome (object / error class / whether
the file was read) is the same as for the same file under the short name without logging.

The FILE OBJECT behind the name is an input as well (stream "file-objects"; REAL files under the run's `.scratch_*`
directory, removed afterwards): a FIFO whose other end (a thread) offers the document followed by filler — 64 KiB, cap-1,
cap, cap+1, 2 MiB, 8 MiB (64 MiB in thorough), only newlines / NULs, nothing; a regular file that GROWS between the loader's
fstat and its read (to cap, cap+1, 3 MiB) or just before the fstat, one that shrinks; symbolic links (one and two hops) to
the document, to files of cap / cap+1 / 3 MiB, to /dev/zero, dangling, looping; a directory; a missing file; the character
devices /dev/zero, /dev/urandom, /dev/full, /dev/null (the worker's address space limited to what it has + 1 GiB while one
is loaded).  The loader modules' `open` hands out the real file object behind a recorder (`_spy_open`): every call that
takes octets out of the file is recorded with its SIZE ARGUMENT and the amount handed out; the FIFO's feeder counts what the
pipe accepted.  Oracle, from "larger than 1 MiB is refused unread … never exhausts memory … terminates promptly": on EVERY
load the total taken out of the file stays <= cap + 1 (a read call without a size argument, or with one above the cap, that
takes more is reported as the unbounded read it is; one that met no more than the cap on offer is counted, not reported);
a FIFO is relieved of at most cap + 1 + one pipe buffer (+ 64 KiB read-ahead); the size the loader's own fstat saw > cap means refused unread; the outcome
is an object that re-validates or a clean error within the budget, never MemoryError.  The model's file oracle gets the size
fstat reported and the first cap+1 octets on offer (`offered_prefix`) and must give the same outcome and read / not read.
"""

from __future__ import annotations

import hashlib
import json
import logging
import multiprocessing as mp
import os
import random
import re
import shutil
import signal
import time
from multiprocessing.connection import wait as mp_wait
from pathlib import Path
from typing import Any

import lib
import regex_diff
import xmlgen
from lib import VERIF, Result, same_outcome
from regex_diff import drive, hx

DRIVER = "kskm_driver_pkgd"
BUDGET = 10.0  # the property's budget per input, seconds
HANG_CONFIRM_BUDGET = 0.6  # for inputs on which the model has PROVED divergence: long enough to tell
ASSUMPTIONS = [
    "wall-clock promptness is observed by the watchdog, not proved: time inside the `re` engine and in slicing is runtime behaviour no functional model exhibits",
    "inputs on which the model predicts non-termination (F1) are confirmed on the implementation with a short budget (0.6 s; a sample with the full 10 s), and only a capped number of them per run — the rest are counted as `hang_predicted_not_replayed`",
    "load_ksr / load_skr are run with the clock pinned (PinnedClock) so that the archived 2018 KSR validates with every check enabled",
    "files are decoded as strict UTF-8 by Lean's String.fromUTF8? in the model; differences to CPython's decoder would show as disagreements",
    "the length of the file path and the logging options are no inputs of the model: in stream load-options the model is asked once per (file, policy, non-logging options) and every other member of the group is compared with that base on the implementation's side",
    "options whose name starts with `log` are taken to concern logging only (log_contents); any other optional parameter (raise_original) may change the outcome and separates groups",
    "path lengths are counted in characters of str(path) (ASCII components); the file system's own limits (NAME_MAX 255, PATH_MAX 4096) bound the lattice at 4000",
    "file objects: the loaders obtain their file through the module-level name `open` of kskm.ksr.load / kskm.skr.load (replaced by a pass-through recorder around the REAL file object); "
    "octets taken by other means (os.read on the descriptor, a second open elsewhere) are not in the record of read calls but still show in what the FIFO's feeder saw accepted and in the "
    "memory / time the devices cost",
    "a FIFO whose other end stays open and silent blocks any reader for ever: the feeder always closes after its offer (a stalled peer is the environment, not a byte string offered as a file)",
    "the bound on what may leave a FIFO is cap + 1 + the pipe's capacity (F_GETPIPE_SZ, 64 KiB here) + 64 KiB for a buffered reader's read-ahead; an unbounded read call that met "
    "no more than the cap on offer (a quiescent regular file that passed the size gate, a FIFO with a small document) is counted (read-call:unbounded-but-no-more-than-the-cap-was-on-offer) "
    "but is no failing input: nothing the property forbids happened",
]
TRUSTED = ["the watchdog pool of corr_C13 (timing, kill/restart)", "Python's `re` as the reference for the three matchers (regex_diff)"]

KSR_DIR = lib.REPO / "src/kskm/ksr/tests/data"
SKR_DIR = lib.REPO / "src/kskm/skr/tests/data"
NOW_2018 = 1514764800 * 10**6  # 2018-01-01T00:00:00Z


# --------------------------------------------------------------------------------------
# canonical forms
# --------------------------------------------------------------------------------------


def _sorted(xs: list[Any]) -> list[Any]:
    return sorted(xs, key=lambda x: json.dumps(x, sort_keys=True))


def canon_obj(j: Any) -> Any:
    """request_j / response_j (or the model's JSON) with the set-valued fields sorted"""
    if not isinstance(j, dict) or "bundles" not in j:
        return j
    j = json.loads(json.dumps(j))
    for b in j["bundles"]:
        b["keys"] = _sorted(b["keys"])
        b["signatures"] = _sorted(b["signatures"])
        if b.get("signers") is not None:
            b["signers"] = _sorted(b["signers"])
    for p in ("zskPolicy", "kskPolicy"):
        if p in j:
            j[p]["algorithms"] = _sorted(j[p]["algorithms"])
    return j


def canon_outcome(o: Any) -> Any:
    if isinstance(o, dict) and "ok" in o:
        return {"ok": canon_obj(o["ok"])}
    return o


def skeleton(j: Any) -> Any:
    """the numbers of a loaded object / of the standard reading: every int field, every count (set-valued
    fields de-duplicated and sorted, bundles sorted); texts and the timestamp (finding F13) left out"""
    if not isinstance(j, dict) or "bundles" not in j:
        return None

    def nums(d: dict[str, Any]) -> dict[str, Any]:
        return {k: v for k, v in d.items() if isinstance(v, int) and not isinstance(v, bool)}

    def uniq(xs: list[Any]) -> list[Any]:
        out: list[Any] = []
        for x in _sorted(xs):
            if not out or out[-1] != x:
                out.append(x)
        return out

    out: dict[str, Any] = {"serial": j.get("serial")}
    for p in ("zskPolicy", "kskPolicy"):
        if p in j:
            out[p] = dict(nums(j[p]), algorithms=uniq([{k: v for k, v in a.items() if k != "kind"} for a in j[p]["algorithms"]]))
    out["bundles"] = _sorted(
        [
            {
                "inception": b["inception"],
                "expiration": b["expiration"],
                "keys": uniq([nums(k) for k in b["keys"]]),
                "signatures": uniq([nums(x) for x in b["signatures"]]),
                "signers": None if b.get("signers") is None else len(set(b["signers"])),
            }
            for b in j["bundles"]
        ]
    )
    return out


# --------------------------------------------------------------------------------------
# the worker: runs implementation code under a soft alarm
# --------------------------------------------------------------------------------------


class _SoftTimeout(BaseException):
    pass


def _on_alarm(*_a: Any) -> None:
    raise _SoftTimeout()


_STATE: dict[str, Any] = {}


def _policy(name: str) -> Any:
    from kskm.common.config_misc import RequestPolicy, ResponsePolicy

    if name == "request-default":
        return RequestPolicy()
    if name == "request-relaxed":
        # every check still enabled; the parameter sets widened to what the archived 2009-2016 files use
        return RequestPolicy(rsa_approved_key_sizes=[1024, 2048], rsa_approved_exponents=[3, 65537])
    if name == "response-default":
        return ResponsePolicy()
    if name == "response-2":
        return ResponsePolicy(num_bundles=2)
    # an explicit policy: "request:{…json…}" / "response:{…json…}" (the options as a configuration file names them)
    if name.startswith("request:"):
        return RequestPolicy.from_dict(json.loads(name[len("request:") :]))
    if name.startswith("response:"):
        return ResponsePolicy.from_dict(json.loads(name[len("response:") :]))
    raise KeyError(name)


def _verdicts(validate: Any, obj: Any, names: list[str], now: int | None) -> dict[str, Any]:
    """the verdict of validation of an already parsed object under each named policy (clock pinned)"""
    out: dict[str, Any] = {}
    for name in names:
        with lib.PinnedClock() as clock:
            if now is not None:
                clock.now_us = now
            try:
                out[name] = {"ok": validate(obj, _policy(name)) is True}
            except Exception as exc:  # noqa: BLE001
                out[name] = _classify(exc)
    return out


def _classify(exc: BaseException) -> dict[str, Any]:
    out = lib.classify_exception(exc)
    if isinstance(exc, RecursionError):
        out["fatal"] = "RecursionError"
    if isinstance(exc, MemoryError):
        out["fatal"] = "MemoryError"
    return out


def _spy_open(counter: dict[str, Any], hook: Any = None) -> Any:
    """`open` for the loader modules: the REAL file object behind a thin recorder.  Every call that takes octets out of the file
    (read, read1, readall, readline, readlines, readinto, iteration — whatever the loader uses) is passed through unchanged and
    recorded as [method, size argument (None = no bound given), octets handed out]; `hook(event)` is told about `fileno` (the
    loader is about to fstat) and about the first read, so that a file can change between the two."""
    import builtins

    counter.setdefault("reads", [])

    class _F:
        def __init__(self, f: Any) -> None:
            self._f = f

        def __enter__(self) -> "_F":
            return self

        def __exit__(self, *a: Any) -> None:
            self._f.close()

        def fileno(self) -> int:
            fd = self._f.fileno()
            if hook is not None:
                hook("fileno")
            try:
                counter["fstat_size"] = os.fstat(fd).st_size  # what the loader's fstat is about to see
            except OSError:
                pass
            return fd

        def _take(self, name: str, a: tuple[Any, ...], k: dict[str, Any]) -> Any:
            counter["read"] += 1
            if hook is not None and counter["read"] == 1:
                hook("read")
            size = a[0] if a else k.get("size", k.get("hint"))
            if name == "readinto" and a:
                try:
                    size = len(a[0])
                except TypeError:
                    size = None
            rec = [name, size if isinstance(size, int) and not isinstance(size, bool) else None, None]
            counter["reads"].append(rec)
            try:
                got = getattr(self._f, name)(*a, **k)
            except BaseException as exc:  # noqa: BLE001
                rec[2] = type(exc).__name__
                raise
            rec[2] = got if isinstance(got, int) else sum(len(x) for x in got) if isinstance(got, list) else len(got) if got is not None else 0
            return got

        def read(self, *a: Any, **k: Any) -> Any:
            return self._take("read", a, k)

        def __getattr__(self, name: str) -> Any:
            attr = getattr(self._f, name)
            if name.startswith("read") and callable(attr) and name != "readable":
                return lambda *a, **k: self._take(name, a, k)
            return attr

        def __iter__(self) -> Any:
            return self

        def __next__(self) -> Any:
            line = self._take("readline", (), {})
            if not line:
                raise StopIteration
            return line

    def _open(*a: Any, **k: Any) -> Any:
        counter["open"] += 1
        return _F(builtins.open(*a, **k))

    return _open


# --------------------------------------------------------------------------------------
# the FILE OBJECT is an input: what a path can name besides a quiescent regular file
# --------------------------------------------------------------------------------------

CAP = 1 << 20  # the property's cap ("larger than 1 MiB is refused unread"); compared with MAX_KSR_SIZE / MAX_SKR_SIZE in run()
FIFO_CHUNK = 1 << 16


def _filler(fill: str, n: int) -> bytes:
    unit = {"space": b" ", "newline": b"\n", "nul": b"\x00", "x": b"x"}[fill]
    return unit * max(0, n)


def offered_prefix(c: dict[str, Any], n: int) -> bytes | None:
    """the first n octets a file-object case OFFERS to a reader (None: not determined by the case, e.g. /dev/urandom)"""
    src = c.get("source") or {}
    t = src.get("type")
    data: bytes = c["bytes"]
    if t in ("fifo", "growing"):
        total = max(src.get("total", len(data)), len(data))
        return (data + _filler(src.get("fill", "space"), min(total, n) - len(data)))[:n]
    if t == "shrinking":
        return data[: src["to"]][:n]
    if t == "device":
        return {"/dev/zero": b"\x00" * n, "/dev/full": b"\x00" * n, "/dev/null": b""}.get(src["path"])
    if t == "symlink":
        if src.get("target"):
            return offered_prefix({"bytes": data, "source": {"type": "device", "path": src["target"]}}, n)
        pad = c.get("pad_to")
        return (data + b" " * ((pad or 0) - len(data)))[:n]
    return None


class _Source:
    """Sets up what the path names, lets it change while the loader works, and reports what was taken from it."""

    def __init__(self, spec: dict[str, Any], fn: Path, data: bytes, budget: float) -> None:
        self.spec = spec
        self.t = spec["type"]
        self.fn = fn
        self.data = data
        self.budget = budget
        self.extra: list[Path] = []
        self.obs: dict[str, Any] = {"file_kind": self.t}
        self.thread: Any = None
        self.stop = False
        self.done_events: set[str] = set()

    # -- what the loader is handed
    def setup(self) -> Path:
        t, fn = self.t, self.fn
        if t == "fifo":
            os.mkfifo(fn)
            import threading

            self.thread = threading.Thread(target=self._feed, daemon=True)
            self.thread.start()
            return fn
        if t in ("growing", "shrinking"):
            fn.write_bytes(self.data)
            return fn
        if t == "symlink":
            target: Path | str
            if self.spec.get("target"):
                target = self.spec["target"]
            else:
                target = fn.with_name(fn.name + ".target")
                Path(target).write_bytes(self.data)
                self.extra.append(Path(target))
            for hop in range(self.spec.get("hops", 1) - 1):
                mid = fn.with_name(fn.name + f".hop{hop}")
                os.symlink(target, mid)
                self.extra.append(mid)
                target = mid
            os.symlink(target, fn)
            return fn
        if t == "symlink-dangling":
            os.symlink(fn.with_name(fn.name + ".nowhere"), fn)
            return fn
        if t == "symlink-loop":
            other = fn.with_name(fn.name + ".loop")
            os.symlink(other, fn)
            os.symlink(fn, other)
            self.extra.append(other)
            return fn
        if t == "directory":
            fn.mkdir()
            return fn
        if t == "missing":
            return fn
        if t == "device":
            return Path(self.spec["path"])
        raise KeyError(t)

    def stat_size(self, path: Path) -> int | None:
        try:
            return os.stat(path).st_size
        except OSError:
            return None

    # -- the file changes while the loader holds it
    def hook(self, event: str) -> None:
        if event in self.done_events or self.spec.get("at", "read") != event:
            return
        self.done_events.add(event)
        if self.t == "growing":
            total = self.spec["total"]
            with open(self.fn, "ab") as f:
                f.write(_filler(self.spec.get("fill", "space"), total - len(self.data)))
            self.obs["grew_to"] = total
        elif self.t == "shrinking":
            os.truncate(self.fn, self.spec["to"])
            self.obs["shrank_to"] = self.spec["to"]

    def _feed(self) -> None:
        """the other end of the FIFO: offers `total` octets (the document, then filler) and closes"""
        import errno
        import fcntl

        total = max(self.spec.get("total", len(self.data)), len(self.data))
        deadline = time.monotonic() + self.budget + 1.0
        fd = None
        while fd is None and not self.stop and time.monotonic() < deadline:
            try:
                fd = os.open(self.fn, os.O_WRONLY | os.O_NONBLOCK)
            except OSError as exc:
                if exc.errno not in (errno.ENXIO, errno.ENOENT):
                    self.obs["feeder_error"] = repr(exc)
                    return
                time.sleep(0.001)
        if fd is None:
            self.obs["fifo_never_opened_for_reading"] = True
            return
        accepted = 0
        try:
            fcntl.fcntl(fd, fcntl.F_SETFL, fcntl.fcntl(fd, fcntl.F_GETFL) & ~os.O_NONBLOCK)
            try:
                self.obs["pipe_capacity"] = fcntl.fcntl(fd, 1032)  # F_GETPIPE_SZ
            except OSError:
                self.obs["pipe_capacity"] = 1 << 16
            fill = _filler(self.spec.get("fill", "space"), FIFO_CHUNK)
            pos = 0
            while pos < total and not self.stop:
                chunk = self.data[pos : pos + FIFO_CHUNK] if pos < len(self.data) else fill[: min(FIFO_CHUNK, total - pos)]
                try:
                    n = os.write(fd, chunk)
                except (BrokenPipeError, OSError):
                    self.obs["reader_closed_early"] = True
                    break
                pos += n
                accepted += n
        finally:
            self.obs["offered"] = total
            self.obs["accepted_by_pipe"] = accepted  # = taken by the reader + what was left in the pipe buffer
            try:
                os.close(fd)
            except OSError:
                pass

    def finish(self) -> dict[str, Any]:
        self.stop = True
        if self.thread is not None:
            self.thread.join(timeout=1.0)
            if self.thread.is_alive():
                # the loader is done but the feeder still blocks in write (the loader leaked its descriptor): drain the pipe so that
                # the thread can end; the count of accepted octets is then no longer the loader's doing
                self.obs["drained_by_harness"] = True
                try:
                    fd = os.open(self.fn, os.O_RDONLY | os.O_NONBLOCK)
                    t_end = time.monotonic() + 2.0
                    while self.thread.is_alive() and time.monotonic() < t_end:
                        try:
                            if not os.read(fd, 1 << 20):
                                time.sleep(0.001)
                        except BlockingIOError:
                            time.sleep(0.001)
                    os.close(fd)
                except OSError:
                    pass
            self.thread.join(timeout=2.0)
        for pth in [self.fn] + self.extra:
            try:
                if pth.is_dir() and not pth.is_symlink():
                    pth.rmdir()
                else:
                    pth.unlink()
            except OSError:
                pass
        return self.obs


NAME_MAX = 255
PATH_LENGTHS = [None, 200, 240, 249, 250, 251, 255, 256, 300, 1000, 4000]  # None = the short scratch name; else len(str(path))


def path_of_length(base: Path, total: int) -> Path:
    """A file path below `base` whose string form has exactly `total` characters, made of nested directories
    with components of at most NAME_MAX octets (ASCII), the last component being the file name."""
    need = total - len(str(base))  # still to add, separators included; every component costs 1 + its length
    if need < 2:
        raise ValueError(f"no path of {total} characters below {base}")
    parts: list[str] = []
    while need > NAME_MAX + 1:
        take = min(NAME_MAX, need - 1 - 2)  # leave room for "/" + a file name of at least one character
        parts.append("d" * take)
        need -= take + 1
    n = need - 1
    parts.append(("f" * (n - 4) + ".xml") if n > 4 else "f" * n)
    out = base.joinpath(*parts)
    assert len(str(out)) == total and all(len(x.encode()) <= NAME_MAX for x in parts)
    return out


class _CountingSink(logging.Handler):
    """A log handler as a deployment would have one: every record is formatted, none is kept."""

    def __init__(self) -> None:
        super().__init__(logging.DEBUG)
        self.records = 0
        self.chars = 0

    def emit(self, record: logging.LogRecord) -> None:
        self.records += 1
        self.chars += len(record.getMessage())


def loader_options(fn: Any) -> dict[str, list[Any]]:
    """The optional parameters of a loader (everything after `filename, policy`), read off its signature:
    name -> the values to run it with (both values of a flag; the default of anything else)."""
    import inspect

    out: dict[str, list[Any]] = {}
    for name, par in list(inspect.signature(fn).parameters.items())[2:]:
        if par.default is inspect.Parameter.empty or par.kind in (par.VAR_POSITIONAL, par.VAR_KEYWORD):
            continue
        out[name] = [False, True] if isinstance(par.default, bool) else [par.default]
    return out


def _impl(p: dict[str, Any], scratch: Path) -> dict[str, Any]:
    """Run one implementation call; returns {"outcome": …, extras}."""
    kind = p["kind"]
    if kind == "parse":
        from kskm.common.xml_parser import parse

        try:
            return {"outcome": {"ok": parse(p["text"], **({"recurse": p["recurse"]} if "recurse" in p else {}))}}
        except Exception as exc:  # noqa: BLE001
            return {"outcome": _classify(exc)}
    if kind == "parse_attrs":
        from kskm.common.xml_parser import _parse_attrs

        try:
            return {"outcome": {"ok": _parse_attrs(p["text"])}}
        except Exception as exc:  # noqa: BLE001
            return {"outcome": _classify(exc)}
    if kind == "request_from_xml":
        from kskm.ksr.load import request_from_xml

        try:
            obj = request_from_xml(p["text"])
            out_r: dict[str, Any] = {"outcome": {"ok": canon_obj(lib.request_j(obj))}}
        except Exception as exc:  # noqa: BLE001
            return {"outcome": _classify(exc)}
        if p.get("validate"):
            from kskm.ksr.validate import validate_request

            out_r["verdicts"] = _verdicts(validate_request, obj, p["validate"], p.get("now"))
        return out_r
    if kind == "response_from_xml":
        from kskm.skr.load import response_from_xml

        try:
            obj = response_from_xml(p["text"])
            out_s: dict[str, Any] = {"outcome": {"ok": canon_obj(lib.response_j(obj))}}
        except Exception as exc:  # noqa: BLE001
            return {"outcome": _classify(exc)}
        if p.get("validate"):
            from kskm.skr.validate import validate_response

            out_s["verdicts"] = _verdicts(validate_response, obj, p["validate"], p.get("now"))
        return out_s
    if kind in ("load_ksr", "load_skr"):
        import kskm.common.signature as sigmod
        import kskm.ksr.load as kload
        import kskm.skr.load as sload
        from kskm.ksr.validate import validate_request
        from kskm.skr.validate import validate_response

        data: bytes = p["bytes"]
        if p.get("pad_to"):
            data = data + b" " * (p["pad_to"] - len(data))
        # the file NAME is an input too: the short scratch name, or a path of an exact total length
        tree: Path | None = None
        if p.get("path_len"):
            tree = scratch / f"w{os.getpid()}"
            fn = path_of_length(tree, p["path_len"])
            fn.parent.mkdir(parents=True, exist_ok=True)
        else:
            fn = scratch / f"in_{os.getpid()}.xml"
        # … and so is the KIND of file behind the name (p["source"]): a FIFO fed by another thread, a file that grows or shrinks
        # between fstat and read, symbolic links, character devices, a directory, nothing at all
        source: _Source | None = None
        load_path = fn
        saved_as: tuple[int, int] | None = None
        if p.get("source"):
            source = _Source(p["source"], fn, data, p.get("_budget", BUDGET))
            load_path = source.setup()
            if p["source"]["type"] in ("device", "symlink") and (p["source"].get("path") or p["source"].get("target")):
                # an endless device: the worker's address space is limited to what it has now + 1 GiB for the duration of the load
                import resource

                try:
                    saved_as = resource.getrlimit(resource.RLIMIT_AS)
                    vm = int(Path("/proc/self/statm").read_text().split()[0]) * os.sysconf("SC_PAGE_SIZE")
                    lim = vm + (1 << 30)
                    resource.setrlimit(resource.RLIMIT_AS, (lim if saved_as[1] == resource.RLIM_INFINITY else min(lim, saved_as[1]), saved_as[1]))
                except Exception:  # noqa: BLE001
                    saved_as = None
        else:
            fn.write_bytes(data)
        counter: dict[str, Any] = {"open": 0, "read": 0}
        mod = kload if kind == "load_ksr" else sload
        mod.open = _spy_open(counter, source.hook if source is not None else None)  # type: ignore[attr-defined]
        stat_before = source.stat_size(load_path) if source is not None else len(data)
        rec = lib.VerifyRecorder().install(sigmod)
        pol = _policy(p["policy"])
        out: dict[str, Any] = {}
        # … and so are the loader's optional parameters
        opts = dict(p.get("options") or {})
        if kind == "load_ksr":
            opts.setdefault("raise_original", p.get("raise_original", False))
        sink: _CountingSink | None = None
        root_logger = logging.getLogger("kskm")
        saved = (logging.root.manager.disable, root_logger.level, root_logger.propagate)
        if p.get("log_sink"):
            sink = _CountingSink()
            logging.disable(logging.NOTSET)
            root_logger.setLevel(logging.DEBUG)
            root_logger.propagate = False
            root_logger.addHandler(sink)
        try:
            with lib.PinnedClock() as clock:
                clock.now_us = p["now"]
                try:
                    if kind == "load_ksr":
                        obj = kload.load_ksr(load_path, pol, **opts)
                        out["outcome"] = {"ok": canon_obj(lib.request_j(obj))}
                    else:
                        obj = sload.load_skr(load_path, pol, **opts)
                        out["outcome"] = {"ok": canon_obj(lib.response_j(obj))}
                except Exception as exc:  # noqa: BLE001
                    out["outcome"] = _classify(exc)
                    obj = None
                finally:
                    if sink is not None:
                        root_logger.removeHandler(sink)
                        logging.disable(saved[0])
                        root_logger.setLevel(saved[1])
                        root_logger.propagate = saved[2]
                        out["log_records"] = sink.records
                out["verify"] = rec.take()
                if obj is not None:
                    # the property: whatever is returned has undergone full validation
                    try:
                        ok = (validate_request(obj, pol) if kind == "load_ksr" else validate_response(obj, pol)) is True
                        out["revalidates"] = bool(ok)
                    except Exception as exc:  # noqa: BLE001
                        out["revalidates"] = False
                        out["revalidate_error"] = type(exc).__name__
        finally:
            if saved_as is not None:
                import resource

                try:
                    resource.setrlimit(resource.RLIMIT_AS, saved_as)
                except Exception:  # noqa: BLE001
                    pass
            rec.uninstall()
            try:
                del mod.open  # type: ignore[attr-defined]
            except AttributeError:
                pass
            if source is not None:
                out["source"] = source.finish()
            else:
                try:
                    fn.unlink()
                except OSError:
                    pass
            if tree is not None:
                shutil.rmtree(tree, ignore_errors=True)
        out["path_chars"] = len(str(fn))
        out["read_called"] = counter["read"] > 0
        out["opens"] = counter["open"]
        out["reads"] = counter["reads"]  # [method, size argument or None, octets handed out] of every call that took octets out of the file
        # the size the loader's own fstat saw (recorded when it asked for the descriptor); else what stat said before the load
        out["size"] = counter.get("fstat_size", stat_before if stat_before is not None else 0) if source is not None else len(data)
        return out
    raise KeyError(kind)


def _worker(conn: Any, scratch: str) -> None:
    import resource

    signal.signal(signal.SIGALRM, _on_alarm)
    signal.signal(signal.SIGINT, signal.SIG_IGN)
    try:
        resource.setrlimit(resource.RLIMIT_AS, (6 << 30, 6 << 30))
    except Exception:  # noqa: BLE001
        pass
    sp = Path(scratch)
    while True:
        try:
            msg = conn.recv()
        except EOFError:
            return
        if msg is None:
            return
        idx, payload, budget = msg
        t0 = time.perf_counter()
        try:
            try:
                if isinstance(payload, dict) and payload.get("source"):
                    payload = dict(payload, _budget=budget)
                signal.setitimer(signal.ITIMER_REAL, budget)
                if isinstance(payload, dict) and payload.get("tz"):
                    # the same call with the time zone of THIS worker process switched (TZ + tzset) for its duration
                    with lib.ProcessTZ(*payload["tz"]):
                        out = _impl(payload, sp)
                else:
                    out = _impl(payload, sp)
            finally:
                signal.setitimer(signal.ITIMER_REAL, 0)
        except _SoftTimeout:
            out = {"timeout": "soft"}
        except BaseException as exc:  # noqa: BLE001
            out = {"outcome": _classify(exc), "escaped": True}
        out["elapsed"] = time.perf_counter() - t0
        try:
            conn.send((idx, out))
        except _SoftTimeout:
            conn.send((idx, {"timeout": "soft", "elapsed": time.perf_counter() - t0}))


class WatchdogPool:
    """A pool of worker processes; a task that exceeds budget + grace gets its worker killed and replaced."""

    def __init__(self, nproc: int = 16, grace: float = 2.5) -> None:
        self.ctx = mp.get_context("fork")
        self.nproc = nproc
        self.grace = grace
        self.scratch = VERIF / f".scratch_pkgd_{os.getpid()}"
        self.scratch.mkdir(exist_ok=True)
        self.workers: list[dict[str, Any]] = []
        self.restarts = 0
        # import the implementation once, before forking
        import kskm.common.signature  # noqa: F401
        import kskm.ksr.load  # noqa: F401
        import kskm.ksr.validate  # noqa: F401
        import kskm.skr.load  # noqa: F401
        import kskm.skr.validate  # noqa: F401

    def _spawn(self) -> dict[str, Any]:
        parent, child = self.ctx.Pipe()
        proc = self.ctx.Process(target=_worker, args=(child, str(self.scratch)), daemon=True)
        proc.start()
        child.close()
        return {"proc": proc, "conn": parent, "task": None, "deadline": 0.0}

    def __enter__(self) -> "WatchdogPool":
        self.workers = [self._spawn() for _ in range(self.nproc)]
        return self

    def __exit__(self, *a: Any) -> None:
        for w in self.workers:
            try:
                w["conn"].send(None)
            except Exception:  # noqa: BLE001
                pass
        for w in self.workers:
            w["proc"].join(timeout=1.0)
            if w["proc"].is_alive():
                w["proc"].kill()
        shutil.rmtree(self.scratch, ignore_errors=True)

    def run(self, tasks: list[tuple[dict[str, Any], float]]) -> list[dict[str, Any]]:
        results: list[dict[str, Any] | None] = [None] * len(tasks)
        nxt = 0
        done = 0
        while done < len(tasks):
            for w in self.workers:
                if w["task"] is None and nxt < len(tasks):
                    payload, budget = tasks[nxt]
                    w["conn"].send((nxt, payload, budget))
                    w["task"] = nxt
                    w["deadline"] = time.monotonic() + budget + self.grace
                    nxt += 1
            busy = [w for w in self.workers if w["task"] is not None]
            ready = mp_wait([w["conn"] for w in busy], timeout=0.05)
            now = time.monotonic()
            for i, w in enumerate(self.workers):
                if w["task"] is None:
                    continue
                if w["conn"] in ready:
                    try:
                        idx, out = w["conn"].recv()
                    except (EOFError, OSError):
                        idx, out = w["task"], {"died": True, "exitcode": w["proc"].exitcode}
                        w["proc"].kill()
                        self.workers[i] = self._spawn()
                        self.restarts += 1
                        results[idx] = out
                        done += 1
                        continue
                    results[idx] = out
                    w["task"] = None
                    done += 1
                elif now > w["deadline"]:
                    idx = w["task"]
                    os.kill(w["proc"].pid, signal.SIGKILL)
                    w["proc"].join(timeout=2.0)
                    w["conn"].close()
                    results[idx] = {"timeout": "hard", "elapsed": tasks[idx][1] + self.grace}
                    self.workers[i] = self._spawn()
                    self.restarts += 1
                    done += 1
        return [r if r is not None else {"died": True} for r in results]


# --------------------------------------------------------------------------------------
# inputs
# --------------------------------------------------------------------------------------


def small_docs(r: Any) -> dict[str, list[tuple[str, str]]]:
    """generated valid documents in the reference clients' layout: kind -> [(name, text)]"""
    out: dict[str, list[tuple[str, str]]] = {"request": [], "response": []}
    for kind in ("request", "response"):
        for i in range(4):
            doc = xmlgen.gen_doc(r, kind, nbundles=2 if i < 2 else 3, small=True)
            if kind == "request" and i == 1:
                for b in doc["bundles"]:
                    b["signers"] = ["KC00020", "KC00094"]
            tree = xmlgen.to_tree(doc, random.Random(i))
            out[kind].append((f"gen-{kind}-{i}", xmlgen.render(tree, xmlgen.canonical_layout(random.Random(i)))))
    return out


def archived() -> dict[str, list[tuple[str, str]]]:
    return {
        "request": [(p.name, p.read_text()) for p in sorted(KSR_DIR.glob("*.xml"))],
        "response": [(p.name, p.read_text()) for p in sorted(SKR_DIR.glob("*.xml"))],
    }


def sub1(text: str, pat: str, repl: Any, which: int = 0) -> str:
    """replace the `which`-th match of the regex"""
    ms = list(re.finditer(pat, text, flags=re.S))
    if not ms:
        return text
    m = ms[which % len(ms)]
    rep = repl(m) if callable(repl) else m.expand(repl)
    return text[: m.start()] + rep + text[m.end() :]


def syntax_variants(base: str, kind: str) -> list[tuple[str, str]]:
    """the dictionary of XML syntax variants of the property, applied to one small valid document"""
    inner = "Request" if kind == "request" else "Response"
    bundle = inner + "Bundle"
    v: list[tuple[str, str]] = [("unchanged", base)]
    a = v.append
    # --- attribute syntax
    a(("single-quotes-id", sub1(base, r'id="([^"]*)"', r"id='\1'")))
    a(("single-quotes-all", re.sub(r'="([^"]*)"', r"='\1'", base)))
    a(("empty-value-id", sub1(base, r'id="[^"]*"', 'id=""')))
    a(("empty-value-serial", sub1(base, r'serial="[^"]*"', 'serial=""')))
    a(("empty-value-keytag", sub1(base, r'keyTag="[^"]*"', 'keyTag=""')))
    a(("stray-name", sub1(base, r"<KSR ", "<KSR stray ")))
    a(("stray-name-end", sub1(base, r"(<KSR [^>]*)>", r"\1 stray>")))
    a(("attr-without-value", sub1(base, r"<KSR [^>]*>", "<KSR id>")))
    a(("unquoted-value", sub1(base, r'serial="([^"]*)"', r"serial=\1")))
    a(("spaces-around-eq", sub1(base, r'serial="', 'serial = "')))
    a(("space-after-eq", sub1(base, r'serial="', 'serial= "')))
    a(("duplicate-attr", sub1(base, r"<KSR ", '<KSR id="first" ')))
    a(("duplicate-attr-after", sub1(base, r"(<KSR [^>]*)>", r'\1 id="last">')))
    a(("missing-close-quote", sub1(base, r'(serial="[^"]*)"', r"\1")))
    a(("quote-in-value", sub1(base, r'id="', 'id="a"b')))
    a(("gt-in-value", sub1(base, r'id="', 'id="a>b')))
    a(("end-tag-text-in-value", sub1(base, r'id="', 'id="</KSR>')))
    a(("end-tag-text-in-bundle-id", sub1(base, rf'<{bundle} id="', f'<{bundle} id="</{bundle}>')))
    a(("lt-in-value", sub1(base, r'id="', 'id="a<b')))
    a(("newline-in-tag", sub1(base, r"<KSR ", "<KSR\n")))
    a(("newline-between-attrs", sub1(base, r'" serial', '"\nserial')))
    a(("newline-in-value", sub1(base, r'id="', 'id="a\nb')))
    a(("tab-between-attrs", sub1(base, r'" serial', '"\tserial')))
    a(("comma-between-attrs", sub1(base, r'" serial', '", serial')))
    a(("space-before-gt", sub1(base, r"(<KSR [^>]*)>", r"\1 >")))
    a(("space-before-gt-attrless", base.replace(f"<{inner}>", f"<{inner} >", 1)))
    a(("two-spaces-before-gt-attrless", base.replace(f"<{inner}>", f"<{inner}  >", 1)))
    a(("space-in-leaf-start-tag", base.replace("<TTL>", "<TTL >", 1)))
    a(("space-in-end-tag", base.replace("</TTL>", "</TTL >", 1)))
    a(("attr-on-leaf", base.replace("<TTL>", '<TTL unit="s">', 1)))
    a(("self-closing-one-space", base.replace('"/>', '" />')))
    a(("self-closing-attrless", base.replace("<TTL>", "<TTL/><TTL>", 1)))
    a(("self-closing-attrless-space", base.replace("<TTL>", "<TTL /><TTL>", 1)))
    a(("self-closing-two-spaces-attrless", base.replace("<TTL>", "<TTL  /><TTL>", 1)))
    a(("self-closing-ksr", "<KSR/>"))
    a(("self-closing-ksr-space", "<KSR />"))
    a(("self-closing-ksr-attrs", '<KSR id="a" serial="1" domain="."/>'))
    a(("self-closing-inner", re.sub(rf"<{inner}>.*</{inner}>", f"<{inner}/>", base, flags=re.S)))
    a(("upper-case-attr-names", sub1(base, r"<KSR [^>]*>", lambda m: m.group(0).replace("id=", "ID="))))
    a(("non-ascii-attr-name", sub1(base, r"<KSR ", '<KSR \xe9t\xe9="x" ')))
    a(("non-ascii-element", base.replace("<TTL>", "<\xe9l\xe9ment>x</\xe9l\xe9ment><TTL>", 1)))
    a(("timestamp-on-ksr", sub1(base, r"<KSR ", '<KSR timestamp="2018-01-01T00:00:00" ')))
    a(("timestamp-on-inner", base.replace(f"<{inner}>", f'<{inner} timestamp="2018-01-01T00:00:00Z">', 1)))
    a(("bad-timestamp-on-ksr", sub1(base, r"<KSR ", '<KSR timestamp="yesterday" ')))
    # --- times
    for name, t in [
        ("non-utc-plus", "2018-01-01T00:00:00+01:00"),
        ("non-utc-minus", "2018-01-01T00:00:00-08:00"),
        ("utc-z", "2018-01-01T00:00:00Z"),
        ("utc-zzz", "2018-01-01T00:00:00ZZZ"),
        ("utc-offset-zero", "2018-01-01T00:00:00+00:00"),
        ("space-separator", "2018-01-01 00:00:00"),
        ("date-only", "2018-01-01"),
        ("basic-format", "20180101T000000"),
        ("fraction", "2018-01-01T00:00:00.123456"),
        ("week-date", "2018-W01-1"),
        ("garbage-time", "yesterday"),
        ("empty-time", ""),
        ("feb-30", "2018-02-30T00:00:00"),
        ("hour-24", "2018-01-01T24:00:00"),
        ("year-0", "0000-01-01T00:00:00"),
        ("year-10000", "10000-01-01T00:00:00"),
        ("non-ascii-digits", "٢٠١٨-01-01T00:00:00"),
        ("leap-second", "2016-12-31T23:59:60"),
        ("only-z", "ZZZ"),
        # ISO week dates and non-ASCII octets (work package B2): the model answers all of them
        ("week-w01", "2018-W01-1T00:00:00"),
        ("week-basic", "2018W011T000000"),
        ("week-no-day", "2018-W01"),
        ("week-w52", "2018-W52-7T23:59:59+00:00"),
        ("week-w53-long-year", "2020-W53-7T00:00:00Z"),
        ("week-w53-short-year", "2018-W53-1"),
        ("week-w00", "2018-W00-1"),
        ("week-w54", "2018-W54-1"),
        ("week-day-0", "2018-W01-0"),
        ("week-day-8", "2018-W01-8"),
        ("week-year-1", "0001-W01-1"),
        ("week-year-0", "0000-W01-1"),
        ("week-year-9999-last-day", "9999-W52-5"),
        ("week-year-9999-beyond", "9999-W52-6"),
        ("week-ambiguous-separator", "2018-W01-1000"),
        ("week-non-ascii-separator", "2018-W01-1\u20ac00:00:00"),
        ("non-ascii-separator", "2018-01-01\u00e900:00:00"),
        ("non-ascii-tail", "2018-01-01T00:00:00\u00e9"),
        ("non-ascii-4-octets", "2018-01-01T00:00\U0001d7ce0"),
        ("non-ascii-after-nul", "2018-01-01T00:00:00.123456\x00\u00e9"),
    ]:
        a(("time-" + name, sub1(base, r"<Inception>[^<]*</Inception>", f"<Inception>{t}</Inception>")))
        if name in ("non-utc-plus", "garbage-time", "utc-z", "fraction"):
            a(("sigtime-" + name, sub1(base, r"<SignatureExpiration>[^<]*<", f"<SignatureExpiration>{t}<")))
    # --- numbers
    for name, t in [
        ("alpha", "abc"), ("empty", ""), ("float", "1.5"), ("hex", "0x10"), ("spaces", " 12 "), ("plus", "+5"), ("underscore", "1_000"),
        ("arabic-indic", "١٢"), ("negative", "-1"), ("huge", "9" * 5000), ("big", "9" * 4300), ("nbsp", "\xa012"), ("double-underscore", "1__0"),
        ("trailing-underscore", "10_"), ("exp", "1e3"), ("minus-zero", "-0"), ("fullwidth", "１２"), ("inner-space", "1 2"), ("newline", "1\n"),
    ]:
        a(("ttl-" + name, sub1(base, r"<TTL>[^<]*</TTL>", f"<TTL>{t}</TTL>")))
        if name in ("alpha", "empty", "negative", "huge", "spaces", "arabic-indic"):
            a(("serial-" + name, sub1(base, r'serial="[^"]*"', f'serial="{t}"') if t else base))
            a(("keytag-" + name, sub1(base, r'keyTag="[^"]*"', f'keyTag="{t}"') if t else base))
            a(("flags-" + name, sub1(base, r"<Flags>[^<]*<", f"<Flags>{t}<")))
            a(("size-" + name, sub1(base, r'size="[^"]*"', f'size="{t}"') if t else base))
    for f in (0, 1, 255, 258, 384, 65535, 65536, 257, 385, 65536 + 256, 65536 + 257, 2**32 + 256, -65280):
        a((f"flags-{f}", sub1(base, r"<Flags>[^<]*<", f"<Flags>{f}<")))
    for p in (0, 2, 4, 256, -3):
        a((f"protocol-{p}", sub1(base, r"<Protocol>[^<]*<", f"<Protocol>{p}<")))
    # --- algorithms
    for alg in (0, 1, 2, 3, 4, 5, 6, 7, 9, 10, 11, 12, 13, 14, 15, 16, 17, 255, 256, -1):
        a((f"key-algorithm-{alg}", sub1(base, r"<Algorithm>[^<]*<", f"<Algorithm>{alg}<")))
        a((f"policy-algorithm-{alg}", sub1(base, r'algorithm="[^"]*"', f'algorithm="{alg}"')))
    a(("policy-ecdsa-child", re.sub(r"<RSA [^>]*/>", '<ECDSA size="256"/>', sub1(base, r'algorithm="[^"]*"', 'algorithm="13"'), count=1)))
    a(("policy-eddsa-child", re.sub(r"<RSA [^>]*/>", '<EdDSA size="256"/>', sub1(base, r'algorithm="[^"]*"', 'algorithm="15"'), count=1)))
    a(("policy-wrong-child", re.sub(r"<RSA [^>]*/>", '<ECDSA size="256"/>', base, count=1)))
    a(("type-covered-48", sub1(base, r"<TypeCovered>[^<]*<", "<TypeCovered>48<")))
    a(("type-covered-lower", sub1(base, r"<TypeCovered>[^<]*<", "<TypeCovered>dnskey<")))
    # --- base64
    for name, t in [("bang", "!!!"), ("one-char", "A"), ("bad-pad", "AA=A"), ("inner-space", "AwEA AQ=="), ("empty", ""), ("unpadded", "AwEAAQ"), ("url-safe", "AwEA-_=="), ("non-ascii", "AwEAé")]:
        a(("pubkey-" + name, sub1(base, r"<PublicKey>[^<]*<", f"<PublicKey>{t}<")))
        a(("ecdsa-pubkey-" + name, sub1(sub1(base, r"<Algorithm>[^<]*<", "<Algorithm>13<"), r"<PublicKey>[^<]*<", f"<PublicKey>{t}<")))
        a(("sigdata-" + name, sub1(base, r"<SignatureData>[^<]*<", f"<SignatureData>{t}<")))
    import base64 as b64

    for n in (0, 1, 63, 64, 65, 96, 97):
        pk = b64.b64encode(b"\x04" * n).decode()
        a((f"ecdsa-pubkey-len-{n}", sub1(sub1(base, r"<Algorithm>[^<]*<", "<Algorithm>13<"), r"<PublicKey>[^<]*<", f"<PublicKey>{pk}<")))
    # --- durations
    for name, t in [
        ("empty", ""), ("p", "P"), ("no-p", "10D"), ("months", "P1M"), ("years", "P1Y"), ("weeks", "P2W"), ("tail-int", "P1D5"), ("negative-tail", "P0D-86400"),
        ("fraction", "PT1.5S"), ("lower", "p10d"), ("t-minutes", "PT5M"), ("double-t", "PTT5M"), ("huge", "P" + "9" * 30 + "D"), ("space", "P10D "), ("newline-tail", "P1D\n5"), ("garbage", "soon"),
        # Unicode decimal digits / white space (work package B2): `\d` and int() accept them, so does the model
        ("uni-digits", "P\u0663D"), ("uni-mixed", "P1\u0663DT\uff15M"), ("uni-tail", "P1D\u0663"), ("uni-space-tail", "P1D\u20035"), ("uni-superscript", "P\u00b2D"), ("uni-fullwidth", "PT\uff16\uff10S"),
        ("uni-math-digits", "P\U0001d7d9\U0001d7d8D"), ("uni-nbsp", "P1D\u00a0"), ("uni-digit-after-designator", "P1\u0663"),
    ]:
        a(("duration-" + name, sub1(base, r"<PublishSafety>[^<]*<", f"<PublishSafety>{t}<")))
    # --- trailing garbage / structure
    for name, t in [("text", "fail"), ("element", "<x>y</x>"), ("comment", "<!-- c -->"), ("nul", "\x00"), ("second-ksr", base[base.index("<KSR") :]), ("open-tag", "<"), ("ws", " \n\t "), ("nbsp", "\xa0"), ("zwsp", "​")]:
        a(("trailing-" + name, base + t))
    a(("leading-text", "garbage " + base))
    a(("leading-ksr-in-comment", "<!-- <KSR old> -->\n" + base))
    a(("leading-ksrx", "<KSRX/>\n" + base))
    # --- a start tag WRAPPED over lines (XML allows it; this reader does not): nothing after the line break may be silently dropped
    root_tag = re.search(r"<KSR [^>]*>", base)
    if root_tag is not None:
        t0 = root_tag.group(0)
        first_sp = t0.index(" ", t0.index('"'))  # after the first attribute
        a(("wrapped-root-tag-second-attribute-line", base.replace(t0, t0[:first_sp] + "\n    " + t0[first_sp + 1 :], 1)))
        a(("wrapped-root-tag-extra-attribute", base.replace(t0, t0[:-1] + '\n    timestamp="2030-01-01T00:00:00+00:00">', 1)))
        a(("wrapped-root-tag-garbage-line", base.replace(t0, t0[:-1] + "\n    this is <not> an attribute & never was>", 1)))
        a(("wrapped-root-tag-garbage-line-2", base.replace(t0, t0[:-1] + "\n    garbage garbage>", 1)))
        a(("wrapped-root-tag-crlf", base.replace(t0, t0[:first_sp] + "\r\n" + t0[first_sp + 1 :], 1)))
    btag = re.search(r"<(RequestBundle|ResponseBundle) [^>]*>", base)
    if btag is not None:
        t1 = btag.group(0)
        a(("wrapped-bundle-tag-garbage-line", base.replace(t1, t1[:-1] + "\n  garbage>", 1)))
        a(("wrapped-bundle-tag-second-id", base.replace(t1, t1[:-1] + '\n  id="another-id">', 1)))
    # --- UNTERMINATED constructs before the root element: whatever scans the header for the root must still come to an end
    xmldecl = '<?xml version="1.0" encoding="UTF-8"?>\n'
    root_on = base[base.index("<KSR") :]
    for name, t in [("comment", "<!-- unterminated comment\n"), ("comment-inner-dashes", "<!-- a -- b\n"), ("comment-almost-closed", "<!-- c --\n"), ("comment-after-a-closed-one", "<!-- closed -->\n<!-- open\n"),
                    ("pi", "<?pi unterminated\n"), ("doctype", "<!DOCTYPE KSR [\n"), ("cdata", "<![CDATA[ x\n"), ("comment-mentioning-root", "<!-- <KSR old>\n")]:
        a(("unterminated-" + name + "-at-start", t + root_on))
        a(("unterminated-" + name + "-after-declaration", xmldecl + t + root_on))
        a(("unterminated-" + name + "-after-blanks", "  " + t + root_on))
        a(("unterminated-" + name + "-and-no-root", xmldecl + t))
        a(("unterminated-" + name + "-after-root", base + t))
    a(("bom", "﻿" + base))
    a(("crlf", base.replace("\n", "\r\n")))
    a(("no-whitespace", re.sub(r">\s+<", "><", base)))
    a(("lower-case-ksr", base.replace("KSR", "ksr")))
    a(("namespace-prefix", base.replace("<KSR ", '<k:KSR xmlns:k="urn:x" ').replace("</KSR>", "</k:KSR>")))
    a(("default-namespace", base.replace("<KSR ", '<KSR xmlns="urn:x" ')))
    a(("comment-inside", base.replace(f"<{inner}>", f"<{inner}><!-- c -->", 1)))
    a(("cdata-inside", sub1(base, r"<SignersName>[^<]*<", "<SignersName><![CDATA[.]]><")))
    a(("entity-inside", sub1(base, r"<SignersName>[^<]*<", "<SignersName>&lt;.&gt;<")))
    a(("pi-inside", base.replace(f"<{inner}>", f"<{inner}><?pi x?>", 1)))
    a(("doctype", '<!DOCTYPE KSR [<!ENTITY a "b">]>\n' + base))
    a(("mixed-content", base.replace(f"<{inner}>", f"<{inner}>text", 1)))
    a(("text-after-children", base.replace(f"</{inner}>", f"text</{inner}>", 1)))
    a(("missing-end-tag", base.replace("</KSR>", "")))
    a(("missing-inner-end-tag", base.replace(f"</{inner}>", "", 1)))
    a(("wrong-case-end-tag", base.replace("</KSR>", "</ksr>")))
    a(("swapped-end-tags", base.replace(f"</{inner}>", "</KSR>", 1)))
    a(("unclosed-leaf", base.replace("</TTL>", "", 1)))
    a(("stray-end-tag", base.replace("<TTL>", "</TTL><TTL>", 1)))
    a(("stray-lt", base.replace("<TTL>", "< <TTL>", 1)))
    a(("stray-gt", base.replace("<TTL>", "> <TTL>", 1)))
    a(("lt-in-text", sub1(base, r"<SignersName>[^<]*<", "<SignersName>a<b<")))
    a(("nested-same-name-signature", sub1(base, r"<SignatureData>([^<]*)</SignatureData>", r"<Signature>\1</Signature>")))
    a(("nested-same-name-key", sub1(base, r"<PublicKey>([^<]*)</PublicKey>", r"<Key>\1</Key>")))
    a(("nested-same-name-attrs-inner", sub1(base, r"<PublicKey>([^<]*)</PublicKey>", r'<Key keyIdentifier="z">\1</Key>')))
    a(("nested-same-name-twice", sub1(base, r"<SignatureData>([^<]*)</SignatureData>", r"<Signature>\1</Signature><Signature>\1</Signature>")))
    a(("nested-same-name-bundle", sub1(base, rf"(<{bundle} [^>]*>)", rf"\1<{bundle}>x</{bundle}>")))
    for depth in (1, 2, 3):
        open_ = "".join(f"<d{i}>" for i in range(depth))
        close = "".join(f"</d{i}>" for i in reversed(range(depth)))
        a((f"deep-{depth}-below-leaf", sub1(base, r"<PublicKey>([^<]*)</PublicKey>", rf"<PublicKey>{open_}\1{close}</PublicKey>")))
    a(("element-named-attrs", sub1(base, r"(<Key [^>]*>)", r"\1<attrs>x</attrs><value>y</value>")))
    a(("dict-shape-mimic", sub1(base, r"<Key [^>]*>(.*?)</Key>", r"<Key><attrs><keyIdentifier>mimic</keyIdentifier><keyTag>1</keyTag></attrs><value>\1</value></Key>")))
    a(("ksr-shape-mimic", re.sub(r"<KSR [^>]*>(.*)</KSR>", r"<KSR><attrs><id>m</id><serial>1</serial><domain>.</domain></attrs><value>\1</value></KSR>", base, flags=re.S)))
    a(("ksr-no-attrs", sub1(base, r"<KSR [^>]*>", "<KSR>")))
    a(("text-policy", re.sub(r"<ZSK>.*?</ZSK>", "<ZSK>PublishSafety RetireSafety</ZSK>", base, flags=re.S)))
    a(("text-bundle-value", re.sub(rf"(<{bundle} [^>]*>).*?</{bundle}>", rf"\1Inception Expiration Key Signature</{bundle}>", base, count=1, flags=re.S)))
    a(("text-bundle-list", re.sub(rf"<{bundle} [^>]*>.*?</{bundle}>", rf"<{bundle}>Key</{bundle}>", base, flags=re.S)))
    a(("empty-bundle-element", re.sub(rf"<{bundle} [^>]*>.*?</{bundle}>", rf"<{bundle}></{bundle}>", base, flags=re.S)))
    a(("no-bundles", re.sub(rf"<{bundle} [^>]*>.*?</{bundle}>\s*", "", base, flags=re.S)))
    a(("one-bundle", re.sub(rf"(<{bundle} [^>]*>.*?</{bundle}>\s*)(<{bundle} .*</{bundle}>\s*)", r"\1", base, flags=re.S)))
    a(("bundle-no-id", sub1(base, rf"<{bundle} [^>]*>", f"<{bundle}>")))
    a(("bundle-empty-id", sub1(base, rf"<{bundle} id=\"[^\"]*\">", f'<{bundle} id="">')))
    a(("bundle-other-attr", sub1(base, rf"<{bundle} id=", f"<{bundle} ident=")))
    a(("one-signer", sub1(base, r"(<Expiration>[^<]*</Expiration>)", r'\1<Signer keyIdentifier="KC1"/>')))
    a(("two-signers", sub1(base, r"(<Expiration>[^<]*</Expiration>)", r'\1<Signer keyIdentifier="KC1"/><Signer keyIdentifier="KC2"/>')))
    a(("signer-one-space-attrless", sub1(base, r"(<Expiration>[^<]*</Expiration>)", r"\1<Signer />")))
    a(("signer-pair-attrless", sub1(base, r"(<Expiration>[^<]*</Expiration>)", r"\1<Signer></Signer>")))
    a(("signer-text", sub1(base, r"(<Expiration>[^<]*</Expiration>)", r"\1<Signer>KC1</Signer>")))
    a(("signer-no-keyid", sub1(base, r"(<Expiration>[^<]*</Expiration>)", r'\1<Signer id="KC1"/><Signer id="KC2"/>')))
    for el in ["Inception", "Expiration", "TTL", "Flags", "Protocol", "Algorithm", "PublicKey", "TypeCovered", "Labels", "OriginalTTL", "SignatureExpiration", "SignatureInception", "KeyTag", "SignersName", "SignatureData",
               "PublishSafety", "RetireSafety", "MaxSignatureValidity", "MinSignatureValidity", "MaxValidityOverlap", "MinValidityOverlap"]:
        a((f"missing-{el}", sub1(base, rf"<{el}>[^<]*</{el}>\s*", "")))
        a((f"duplicate-{el}", sub1(base, rf"(<{el}>[^<]*</{el}>)", r"\1\1")))
    for el in ["Key", "Signature", "SignatureAlgorithm", "ZSK", "KSK", inner + "Policy", inner]:
        a((f"missing-all-{el}", re.sub(rf"<{el}[ >].*?</{el}>\s*", "", base, flags=re.S)))
    a(("missing-rsa", re.sub(r"<RSA [^>]*/>", "", base)))
    for at in ["id", "serial", "domain", "keyIdentifier", "keyTag", "algorithm", "size", "exponent"]:
        a((f"missing-attr-{at}", re.sub(rf'\s{at}="[^"]*"', "", base)))
    # --- degenerate documents
    for name, t in [
        ("empty", ""), ("whitespace", " \n\t "), ("no-ksr", "<Request></Request>"), ("ksr-open-only", "<KSR"), ("ksr-open-space", "<KSR "), ("ksr-tag-only", "<KSR>"), ("ksr-empty", "<KSR></KSR>"),
        ("ksr-text", "<KSR>hello</KSR>"), ("ksr-attr-text", '<KSR id="foo">hello</KSR>'), ("ksr-prefix-name", "<KSRX>a</KSRX>"), ("ksr-only-lt", "<KSR<KSR>"), ("ksr-nul", "<KSR\x00>"), ("ksr-eof-in-attr", '<KSR id="a'),
        ("ksr-slashes", "<KSR " + "/" * 50), ("ksr-slashes-gt", "<KSR " + "/" * 50 + ">"), ("ksr-gt-only", "<KSR >"), ("ksr-gt-gt", "<KSR >>"), ("ksr-quote-only", '<KSR ">'), ("ksr-id-foo-single", "<KSR id='foo'></KSR>"),
        ("seven-deep", "<KSR><a><b><c><d><e><f>x</f></e></d></c></b></a></KSR>"), ("six-deep", "<KSR><a><b><c><d><e>x</e></d></c></b></a></KSR>"), ("five-deep", "<KSR><a><b><c><d>x</d></c></b></a></KSR>"),
        ("many-siblings", "<KSR>" + "<a>1</a>" * 300 + "</KSR>"), ("many-attrs", "<KSR " + " ".join(f'a{i}="{i}"' for i in range(300)) + "></KSR>"), ("same-attr-many", "<KSR " + 'a="1" ' * 300 + "></KSR>"),
    ]:
        a(("degenerate-" + name, t))
    seen: set[str] = set()
    out = []
    for name, t in v:
        if name != "unchanged" and t == base:
            continue  # the pattern did not apply to this document
        if t in seen:
            continue
        seen.add(t)
        out.append((name, t))
    return out


TAG_RE = re.compile(r"</?\w+[^<>]*>")


def mutate(r: Any, text: str, other: str) -> tuple[str, str]:
    """one random mutation; returns (kind, mutated text)"""
    k = r.randrange(13)
    n = len(text)
    if n == 0:
        return "noop", text
    if k == 0:  # bit flip in the UTF-8 octets (undecodable results are kept for the load_* stream only)
        b = bytearray(text.encode())
        for _ in range(r.choice([1, 1, 2, 5])):
            i = r.randrange(len(b))
            b[i] ^= 1 << r.randrange(8)
        return "bitflip", b.decode("utf-8", "replace")
    if k == 1:
        i = r.randrange(n)
        return "truncate", text[:i]
    if k == 2:
        i, j = sorted((r.randrange(n), r.randrange(n)))
        return "delete-span", text[:i] + text[min(j, i + r.choice([1, 5, 50, 500])) :]
    if k == 3:
        i, j = sorted((r.randrange(n), r.randrange(n)))
        j = min(j, i + r.choice([10, 100, 1000]))
        at = r.randrange(n)
        return "duplicate-span", text[:at] + text[i:j] + text[at:]
    if k == 4:
        i, j = sorted((r.randrange(len(other)), r.randrange(len(other)))) if other else (0, 0)
        j = min(j, i + r.choice([10, 100, 1000]))
        at = r.randrange(n)
        return "splice", text[:at] + other[i:j] + text[at:]
    tags = list(TAG_RE.finditer(text))
    if k == 5 and tags:
        m = r.choice(tags)
        return "delete-tag", text[: m.start()] + text[m.end() :]
    if k == 6 and tags:
        m = r.choice(tags)
        return "duplicate-tag", text[: m.end()] + m.group(0) + text[m.end() :]
    if k == 7 and tags:
        m1, m2 = r.choice(tags), r.choice(tags)
        if m1.start() > m2.start():
            m1, m2 = m2, m1
        if m1.end() <= m2.start():
            return "swap-tags", text[: m1.start()] + m2.group(0) + text[m1.end() : m2.start()] + m1.group(0) + text[m2.end() :]
    quotes = [i for i, c in enumerate(text) if c == '"']
    if k == 8 and quotes:
        i = r.choice(quotes)
        return "delete-quote", text[:i] + text[i + 1 :]
    if k == 9 and quotes:
        i = r.choice(quotes)
        return "quote-to-single", text[:i] + "'" + text[i + 1 :]
    if k == 10:
        i = r.randrange(n)
        return "insert-char", text[:i] + r.choice(["<", ">", "/", '"', "'", "=", " ", "\n", "\x00", "\xa0", "&", "é"]) + text[i:]
    if k == 11:
        i = r.randrange(n)
        return "replace-char", text[:i] + r.choice(["<", ">", "/", '"', " ", "\n", "x", "0"]) + text[i + 1 :]
    # delete one '<' or '>' or '/'
    idx = [i for i, c in enumerate(text) if c in "<>/"]
    if idx:
        i = r.choice(idx)
        return "delete-bracket", text[:i] + text[i + 1 :]
    return "noop", text


def grammar_violations(r: Any, n: int) -> list[tuple[str, str, str]]:
    """well-formed XML that breaks the schema: elements dropped / repeated / moved / renamed at the tree level"""
    out: list[tuple[str, str, str]] = []
    for i in range(n):
        kind = r.choice(["request", "response"])
        doc = xmlgen.gen_doc(r, kind, small=True)
        tree = xmlgen.to_tree(doc, r)
        nodes = list(xmlgen.nodes(tree))
        ops = []
        for _ in range(r.choice([1, 1, 2, 3])):
            parent = r.choice([x for x in nodes if x.children])
            op = r.randrange(7)
            if op == 0:
                parent.children.pop(r.randrange(len(parent.children)))
                ops.append("drop")
            elif op == 1:
                c = r.choice(parent.children)
                parent.children.insert(r.randrange(len(parent.children) + 1), c.copy())
                ops.append("repeat")
            elif op == 2:
                other = r.choice(nodes)
                parent.children.append(other.copy())
                ops.append("graft")
            elif op == 3:
                c = r.choice(parent.children)
                c.name = r.choice(["Key", "Signature", "Signer", "TTL", "attrs", "value", "X", parent.name])
                ops.append("rename")
            elif op == 4:
                c = r.choice(parent.children)
                if c.attrs:
                    c.attrs.pop(r.randrange(len(c.attrs)))
                else:
                    c.attrs.append((r.choice(["id", "keyIdentifier", "x"]), r.choice(["1", "a b", "."])))
                ops.append("attr")
            elif op == 5:
                c = r.choice(parent.children)
                if not c.children:
                    c.text = r.choice(["", "x", "-1", "P1D", "2018-01-01T00:00:00", "48", "DNSKEY", "99999999999999999999"])
                ops.append("text")
            else:
                # wrap a child some levels deeper
                j = r.randrange(len(parent.children))
                c = parent.children[j]
                for _d in range(r.choice([1, 2, 4])):
                    c = xmlgen.El(r.choice(["w", "Wrap", parent.name]), [], [c])
                parent.children[j] = c
                ops.append("wrap")
        lay = xmlgen.Layout(r) if r.random() < 0.5 else xmlgen.canonical_layout(r)
        out.append(("+".join(ops), kind, xmlgen.render(tree, lay)))
    return out


def tiny_strings(r: Any, n: int) -> list[str]:
    """short strings over the adversarial alphabet, biased towards almost-well-formed elements"""
    names = ["a", "b", "KSR", "a_1", "\xe9"]
    vals = ["", "x", " y ", "1", "<", ">", "/"]
    avals = ['i="v"', "i='v'", 'i=""', "i", 'j="a b"', 'i="1" j="2"', 'i="1"j="2"', "/", '"', 'i="x" ', 'i="</a>"', 'i="<a>"', 'i="</b>" j="<b "']
    out = []
    for _ in range(n):
        mode = r.randrange(10)
        if mode <= 4:
            parts = []
            for _k in range(r.randrange(1, 5)):
                nm = r.choice(names)
                attrs = "".join(r.choice([" ", "  ", "\t", "\n", ""]) + r.choice(avals) for _j in range(r.choice([0, 0, 1, 1, 2])))
                form = r.randrange(8)
                if form == 0:
                    parts.append(f"<{nm}{attrs}/>")
                elif form == 1:
                    parts.append(f"<{nm}{attrs} />")
                elif form == 2:
                    inner_nm = r.choice(names)
                    parts.append(f"<{nm}{attrs}><{inner_nm}>{r.choice(vals)}</{inner_nm}></{nm}>")
                elif form == 3:
                    parts.append(f"<{nm}{attrs}>{r.choice(vals)}")
                elif form == 4:
                    parts.append(f"<{nm}{attrs}><{nm}>{r.choice(vals)}</{nm}></{nm}>")
                else:
                    parts.append(f"<{nm}{attrs}>{r.choice(vals)}</{nm}>")
            s = r.choice(["", " ", "\n"]).join(parts)
            if r.random() < 0.3 and s:
                i = r.randrange(len(s))
                s = s[:i] + r.choice(regex_diff.ALPHABET) + s[i + r.choice([0, 1]) :]
        else:
            s = "".join(r.choice(regex_diff.ALPHABET + ["a", "<a>", "</a>", "<a ", "x"]) for _ in range(r.randrange(0, 16)))
        out.append(s)
    return out


def size_shapes(tier: str) -> list[tuple[str, str, bytes, int | None]]:
    """(name, loader, bytes, pad_to) — large inputs; `pad_to` pads with spaces to an exact file size"""
    ksr18 = (KSR_DIR / "ksr-root-2018-q1-0-d_to_e.xml").read_bytes()
    skr18 = (SKR_DIR / "skr-root-2018-q1-0-d_to_e.xml").read_bytes()
    MiB = 1 << 20
    k64 = 64 * 1024
    out: list[tuple[str, str, bytes, int | None]] = [
        ("valid-padded-64k", "load_ksr", ksr18, k64),
        ("valid-padded-1MiB", "load_ksr", ksr18, MiB),
        ("valid-padded-1MiB+1", "load_ksr", ksr18, MiB + 1),
        ("valid-padded-2MiB", "load_ksr", ksr18, 2 * MiB),
        ("skr-padded-1MiB", "load_skr", skr18, MiB),
        ("skr-padded-1MiB+1", "load_skr", skr18, MiB + 1),
        ("whitespace-64k", "load_ksr", b" " * k64, None),
        ("whitespace-1MiB", "load_ksr", b"\n" * MiB, None),
        ("zeros-1MiB+1", "load_ksr", b"\x00" * (MiB + 1), None),
        ("prolog-64k-then-ksr", "load_ksr", b"<!--" + b"x" * k64 + b"-->" + ksr18, None),
        ("lt-64k", "load_ksr", b"<KSR>" + b"<" * k64, None),
        ("open-tags-64k", "load_ksr", b"<KSR>" + b"<a>" * (k64 // 3), None),
        ("nested-64k", "load_ksr", b"<KSR>" + b"<a>" * 8000 + b"x" + b"</a>" * 8000 + b"</KSR>", None),
        ("nested-distinct-names-1500", "load_ksr", b"<KSR>" + b"".join(b"<n%d>" % i for i in range(1500)) + b"x" + b"".join(b"</n%d>" % i for i in reversed(range(1500))) + b"</KSR>", None),
        ("siblings-64k", "load_ksr", b"<KSR>" + b"<a>1</a>" * (k64 // 8) + b"</KSR>", None),
        ("attrs-64k", "load_ksr", b"<KSR " + b'a="1" ' * (k64 // 6) + b"></KSR>", None),
        ("distinct-attrs-2k", "load_ksr", b"<KSR " + b" ".join(b'a%d="1"' % i for i in range(2000)) + b"></KSR>", None),
        ("long-text-1MiB", "load_ksr", b'<KSR id="a" serial="1" domain="."><Request>' + b"A" * (MiB - 100) + b"</Request></KSR>", None),
        ("long-attr-64k", "load_ksr", b'<KSR id="' + b"a" * k64 + b'" serial="1" domain="."></KSR>', None),
        ("digits-64k", "load_ksr", ksr18.replace(b"<TTL>172800</TTL>", b"<TTL>" + b"9" * k64 + b"</TTL>", 1), None),
        ("many-bundles", "load_ksr", re.sub(rb"(<RequestBundle .*</RequestBundle>)", lambda m: m.group(1) * 3, ksr18, flags=re.S), None),
        ("end-tags-missing-64k", "load_ksr", b"<KSR>" + b"<a>x" * (k64 // 4), None),
        ("quotes-64k", "load_ksr", b'<KSR id="' + b'"' * k64 + b"></KSR>", None),
        ("space-run-in-tag-64k", "load_ksr", b"<KSR" + b" " * k64 + b'id="a"></KSR>', None),
        ("newline-run-in-tag-16k", "load_ksr", b"<KSR" + b"\n" * 16384 + b'id="a"></KSR>', None),
        # F5: quadratic backtracking of the start-tag expression
        ("quadratic-start-tag-8k", "load_ksr", b"<KSR " + b"/" * 8000, None),
        ("quadratic-start-tag-65k", "load_ksr", b"<KSR " + b"/" * 65000, None),
    ]
    if tier == "thorough":
        out += [
            ("quadratic-start-tag-1MiB", "load_ksr", b"<KSR " + b"/" * (MiB - 5), None),
            ("nested-1MiB", "load_ksr", b"<KSR>" + b"<a>" * 140000 + b"x" + b"</a>" * 140000 + b"</KSR>", None),
            ("siblings-1MiB", "load_ksr", b"<KSR>" + b"<a>1</a>" * (MiB // 8 - 2) + b"</KSR>", None),
        ]
    return out


def file_object_cases(tier: str, ksr18: bytes, skr18: bytes) -> list[dict[str, Any]]:
    """Stream "file-objects": what the path handed to load_ksr / load_skr can name besides a quiescent regular file.
    name, kind, bytes (the document part), policy, pad_to, source spec, model_big (ask the model although the line is 2 MB)."""
    out: list[dict[str, Any]] = []
    for kind, doc, pol in (("load_ksr", ksr18, "request-default"), ("load_skr", skr18, "response-default")):

        def a(name: str, data: bytes, source: dict[str, Any], pad_to: int | None = None, model_big: bool = False) -> None:
            out.append({"name": name, "kind": kind, "bytes": data, "policy": pol, "pad_to": pad_to, "source": source, "model_big": model_big})

        # a FIFO (process substitution, /dev/stdin): fstat says 0 whatever is on offer; the other end offers the document and then filler
        a("fifo:document-only", doc, {"type": "fifo", "total": len(doc)})
        for total, nm in ((1 << 16, "64KiB"), (CAP - 1, "cap-1"), (CAP, "cap"), (CAP + 1, "cap+1"), (2 * CAP, "2MiB"), (8 * CAP, "8MiB")) + (((64 * CAP, "64MiB"),) if tier == "thorough" else ()):
            a(f"fifo:document+spaces-to-{nm}", doc, {"type": "fifo", "total": total, "fill": "space"}, model_big=(nm == "8MiB"))
        a("fifo:newlines-8MiB", b"", {"type": "fifo", "total": 8 * CAP, "fill": "newline"})
        a("fifo:nul-8MiB", b"", {"type": "fifo", "total": 8 * CAP, "fill": "nul"})
        a("fifo:document+x-to-8MiB", doc, {"type": "fifo", "total": 8 * CAP, "fill": "x"})
        a("fifo:empty", b"", {"type": "fifo", "total": 0})
        # a regular file that GROWS after the loader's fstat (at its first read) or just before it (when it asks for the descriptor)
        for total, nm in ((CAP, "cap"), (CAP + 1, "cap+1"), (3 * CAP, "3MiB")):
            a(f"growing-after-fstat:document+spaces-to-{nm}", doc, {"type": "growing", "total": total, "fill": "space", "at": "read"}, model_big=(nm == "3MiB"))
            a(f"growing-before-fstat:document+spaces-to-{nm}", doc, {"type": "growing", "total": total, "fill": "space", "at": "fileno"})
        a("growing-after-fstat:empty-to-3MiB-newlines", b"", {"type": "growing", "total": 3 * CAP, "fill": "newline", "at": "read"})
        a("growing-after-fstat:document+x-to-3MiB", doc, {"type": "growing", "total": 3 * CAP, "fill": "x", "at": "read"})
        # … and one that shrinks
        a("shrinking-after-fstat:to-half", doc, {"type": "shrinking", "to": len(doc) // 2, "at": "read"})
        a("shrinking-after-fstat:to-nothing", doc, {"type": "shrinking", "to": 0, "at": "read"})
        # symbolic links
        a("symlink:to-document", doc, {"type": "symlink"})
        a("symlink:two-hops-to-document", doc, {"type": "symlink", "hops": 2})
        a("symlink:to-file-of-cap", doc, {"type": "symlink"}, pad_to=CAP)
        a("symlink:to-file-of-cap+1", doc, {"type": "symlink"}, pad_to=CAP + 1)
        a("symlink:to-file-of-3MiB", doc, {"type": "symlink", "hops": 2}, pad_to=3 * CAP)
        a("symlink:to-/dev/zero", b"", {"type": "symlink", "target": "/dev/zero"})
        a("symlink:dangling", b"", {"type": "symlink-dangling"})
        a("symlink:loop", b"", {"type": "symlink-loop"})
        # no file at all
        a("directory", b"", {"type": "directory"})
        a("missing", b"", {"type": "missing"})
        # character devices: fstat says 0, the read never ends by itself
        a("device:/dev/zero", b"", {"type": "device", "path": "/dev/zero"}, model_big=True)
        a("device:/dev/urandom", b"", {"type": "device", "path": "/dev/urandom"})
        a("device:/dev/full", b"", {"type": "device", "path": "/dev/full"})
        a("device:/dev/null", b"", {"type": "device", "path": "/dev/null"})
    return out


# --------------------------------------------------------------------------------------
# the run
# --------------------------------------------------------------------------------------


def slow_key(text: str) -> str:
    """which known slow shape an input that overran the budget belongs to"""
    if re.search(r"<\w+\s[^>\n]{5000,}", text):
        return "quadratic-start-tag-regex"
    if text.count("<") > 50000:
        # every iteration of the element loop copies the rest of the string (`xml[end_idx:]`, `strip()`) and
        # scans all of it for a nested start tag (`xml.index(nested_tag)` from 0): quadratic in the number of elements
        return "quadratic-element-loop"
    return "unclassified-slow-input"


def hang_key(text: str) -> str:
    return "attrs-loop"


def model_line(case: dict[str, Any]) -> dict[str, Any]:
    k = case["kind"]
    if k in ("parse", "parse_attrs"):
        ln = {"op": k, "s": hx(case["text"])}
        if "recurse" in case:
            ln["recurse"] = case["recurse"]
        return ln
    if k in ("request_from_xml", "response_from_xml"):
        return {"op": k, "s": hx(case["text"])}
    raise KeyError(k)


def run(tier: str, driver_ok: bool) -> Result:
    from kskm.common.config_misc import RequestPolicy  # noqa: F401  (import before fork)

    res = Result("C13")
    res.rule = (
        "syntax-variant dictionary x small generated KSRs/SKRs; random mutations (bit flip, truncate, delete/duplicate/splice span, delete/duplicate/swap tag, "
        "delete/replace quote, insert/replace char, delete bracket) of the 5 archived KSRs, the archived SKR and 8 generated documents; tree-level grammar violations; "
        "tiny adversarial strings through parse() (trees compared exactly); size shapes 64 KiB .. 1 MiB+1 through load_ksr/load_skr on real files; "
        "every optional parameter of the two loaders (both values, all combinations) x path length {short, 200, 240, 249, 250, 251, 255, 256, 300, 1000, 4000} x 22 valid / invalid files "
        "x log handler off / on (outcome must equal that under the short name without logging); "
        "the file object behind the name (real files): FIFO fed by a thread with document + filler up to 8 MiB (cap-1 / cap / cap+1 lattice), files growing / shrinking between "
        "fstat and read or before fstat, symlinks (1-2 hops; to cap / cap+1 / 3 MiB files, to /dev/zero, dangling, loop), directory, missing, /dev/zero, /dev/urandom, /dev/full, /dev/null "
        "under an address-space limit — with the size argument and yield of every read call recorded (total taken <= cap+1 on every load, an unbounded read call that takes more is named; "
        "FIFO relieved of <= cap+1 + one pipe buffer); a case is non-trivial when its text is new"
    )
    r = lib.rng("C13")
    quick = tier == "quick"
    cases: list[dict[str, Any]] = []

    def add(stream: str, name: str, kind: str, text: str, **kw: Any) -> None:
        c = {"stream": stream, "name": name, "kind": kind, "text": text}
        c.update(kw)
        cases.append(c)

    gen = small_docs(r)
    arch = archived()
    loader = {"request": "request_from_xml", "response": "response_from_xml"}

    # 0. corpus: minimised past failures / recorded findings, run first
    for f in sorted((VERIF / "corpus").glob("C13_*.json")):
        for e in json.loads(f.read_text()):
            if "text_spec" in e:
                sp = e["text_spec"]
                text = sp["prefix"] + sp["repeat"] * sp["count"] + sp.get("suffix", "")
            else:
                text = e["text"]
            add("corpus", e.get("key", f.name), e["kind"], text)
    # 1. syntax variants
    for kind in ("request", "response"):
        for bname, base in gen[kind][:3]:
            for name, t in syntax_variants(base, kind):
                add("syntax", f"{bname}:{name}", loader[kind], t)
    # a few of the classic attribute-loop inputs straight into the functions the property names
    for s in ["id='foo'", 'id=""', "stray", 'id="a" stray', "/", "  ", "", 'id="a"', "=", 'id="a', "id=\"a\"\n\nb='c'"]:
        add("syntax", "parse_attrs", "parse_attrs", s)
    for s in ["<KSR id='foo'></KSR>", '<KSR id=""></KSR>', "<KSR stray></KSR>", "<KSR />", "<KSR  />", "   ", "", "<a><b><c><d><e><ft>testing</ft></e></d></c></b></a>"]:
        add("syntax", "parse", "parse", s)
    add("syntax", "parse-recurse-3", "parse", "<a><b><c><d><e><ft>testing</ft></e></d></c></b></a>", recurse=3)
    add("syntax", "parse-recurse-10", "parse", "<a><b><c><d><e><ft>testing</ft></e></d></c></b></a>", recurse=10)

    # 2. mutations
    n_small = 5200 if quick else 60000
    n_arch = 900 if quick else 12000
    for kind in ("request", "response"):
        bases_small = gen[kind]
        bases_arch = arch[kind]
        share = 0.55 if kind == "request" else 0.45
        for i in range(int(n_small * share)):
            bname, base = r.choice(bases_small)
            other = r.choice(bases_small + bases_arch)[1]
            t = base
            kinds = []
            for _ in range(r.choice([1, 1, 1, 2, 3])):
                mk, t = mutate(r, t, other)
                kinds.append(mk)
            add("mutation", f"{bname}:{'+'.join(kinds)}", loader[kind], t)
        for i in range(int(n_arch * share)):
            bname, base = r.choice(bases_arch)
            other = r.choice(bases_small + bases_arch)[1]
            t = base
            kinds = []
            for _ in range(r.choice([1, 1, 2])):
                mk, t = mutate(r, t, other)
                kinds.append(mk)
            add("mutation-archived", f"{bname}:{'+'.join(kinds)}", loader[kind], t)
    # 3. grammar violations
    for ops, kind, t in grammar_violations(r, 1500 if quick else 15000):
        add("grammar", ops, loader[kind], t)
    # 4. tiny strings through parse
    for s in tiny_strings(r, 11000 if quick else 150000):
        add("tiny", "tiny", "parse", s)
    # 5. size shapes up to 64 KiB as text (the 1 MiB ones go through load_* only, below)
    for name, ld, data, pad in size_shapes(tier):
        if pad is None and len(data) <= 70000:
            try:
                add("size", name, "request_from_xml", data.decode())
            except UnicodeDecodeError:
                pass

    # --- model first
    # (documents beyond 200 000 characters are judged by the property only: the list-based model is itself
    # quadratic in the number of elements, and the hex line would be megabytes)
    small = [i for i, c in enumerate(cases) if len(c["text"]) <= 200000]
    model: list[Any] = [None] * len(cases)
    if driver_ok:
        for i, m in zip(small, drive([model_line(cases[i]) for i in small])):
            model[i] = m

    # --- budgets: proved-divergent inputs are confirmed with a short budget, a capped number of them
    cap_confirm = 350 if quick else 4000
    full_budget_hangs = 4 if quick else 12
    tasks: list[tuple[dict[str, Any], float]] = []
    task_case: list[int] = []
    confirmed = 0
    for i, (c, m) in enumerate(zip(cases, model)):
        if m == "hang":
            if confirmed >= cap_confirm:
                c["skipped_hang"] = True
                continue
            budget = BUDGET if confirmed < full_budget_hangs else HANG_CONFIRM_BUDGET
            confirmed += 1
        else:
            budget = BUDGET
        p = {k: c[k] for k in ("kind", "text", "recurse") if k in c}
        tasks.append((p, budget))
        task_case.append(i)

    # --- load_ksr / load_skr on real files (model asked afterwards: it needs the recorded verifier answers)
    load_cases: list[dict[str, Any]] = []

    def add_load(stream: str, name: str, kind: str, data: bytes, policy: str, pad_to: int | None = None, **kw: Any) -> None:
        c = {"stream": stream, "name": name, "kind": kind, "bytes": data, "policy": policy, "now": NOW_2018, "pad_to": pad_to}
        c.update(kw)
        load_cases.append(c)

    ksr18 = (KSR_DIR / "ksr-root-2018-q1-0-d_to_e.xml").read_text()
    skr18 = (SKR_DIR / "skr-root-2018-q1-0-d_to_e.xml").read_text()
    for name, text in arch["request"]:
        add_load("load", "archived:" + name, "load_ksr", text.encode(), "request-default")
        add_load("load", "archived-relaxed:" + name, "load_ksr", text.encode(), "request-relaxed")
        add_load("load", "archived-raise-original:" + name, "load_ksr", text.encode(), "request-default", raise_original=True)
    add_load("load", "archived:skr", "load_skr", skr18.encode(), "response-default")
    add_load("load", "archived:skr-wrong-count", "load_skr", skr18.encode(), "response-2")
    # benign layout changes keep the 2018 KSR / SKR valid: the object-returning branch is exercised
    benign = [
        ("crlf", lambda t: t.replace("\n", "\r\n")),
        ("no-indent", lambda t: re.sub(r"\n\s+", "\n", t)),
        ("one-line", lambda t: re.sub(r">\s+<", "><", t)),
        ("prolog", lambda t: '<?xml version="1.0"?>\n<!-- c -->\n' + t[t.index("<KSR") :]),
        ("trailing-ws", lambda t: t + "\n\n  "),
        ("tabs-in-tags", lambda t: t.replace('" ', '"\t')),
        ("self-closing-space", lambda t: t.replace('"/>', '" />')),
        ("empty-pair", lambda t: re.sub(r"<RSA ([^>]*)/>", r"<RSA \1></RSA>", t)),
        ("reversed-bundles", lambda t: _reverse_bundles(t)),
    ]
    for bn, f in benign:
        add_load("load-benign", "ksr18:" + bn, "load_ksr", f(ksr18).encode(), "request-default")
        add_load("load-benign", "skr18:" + bn, "load_skr", f(skr18).encode(), "response-default")
    rl = lib.rng("C13-load")
    for i in range(1300 if quick else 12000):
        if rl.random() < 0.6:
            base, kind, pol = ksr18, "load_ksr", rl.choice(["request-default", "request-relaxed"])
        else:
            base, kind, pol = skr18, "load_skr", "response-default"
        if rl.random() < 0.25:
            # octet-level damage: may no longer be UTF-8
            b = bytearray(base.encode())
            for _ in range(rl.choice([1, 1, 3])):
                j = rl.randrange(len(b))
                if rl.random() < 0.5:
                    b[j] ^= 1 << rl.randrange(8)
                else:
                    b[j : j + 1] = bytes([rl.choice([0x80, 0xC0, 0xED, 0xF4, 0xFF, 0xE2, 0x00])])
            add_load("load-mutation", "octets", kind, bytes(b), pol)
        else:
            t = base
            kinds = []
            for _ in range(rl.choice([1, 1, 2])):
                mk, t = mutate(rl, t, base)
                kinds.append(mk)
            add_load("load-mutation", "+".join(kinds), kind, t.encode(), pol)
    for s in [b"\xed\xa0\x80", b"\xc0\x80", b"\xf4\x90\x80\x80", b"\xff", b"\xe2\x82", b"\xef\xbb\xbf", b"\xf0\x9f\x98\x80"]:
        add_load("load-mutation", "utf8-edge", "load_ksr", s + ksr18.encode(), "request-default")
    for name, ld, data, pad in size_shapes(tier):
        add_load("size", name, ld, data, "request-default" if ld == "load_ksr" else "response-default", pad)
    # the FILE OBJECT behind the name is an input too: FIFOs, files that change between fstat and read, symbolic links, devices
    for fc in file_object_cases(tier, ksr18.encode(), skr18.encode()):
        add_load("file-objects", fc["name"], fc["kind"], fc["bytes"], fc["policy"], fc["pad_to"], source=fc["source"], model_big=fc["model_big"])

    # the loaders' OPTIONS and the file NAME are inputs too: every optional parameter of load_ksr / load_skr (read off the
    # signatures; both values of every flag) x path lengths on a lattice x valid and invalid documents, with and without a
    # log handler that formats every record.  Same oracle as always, plus: the outcome (object / error class) must not
    # depend on the path length or on anything that only concerns logging.
    import itertools

    import kskm.ksr.load as _kload
    import kskm.skr.load as _sload

    opt_space = {"load_ksr": loader_options(_kload.load_ksr), "load_skr": loader_options(_sload.load_skr)}
    res.stats["loader_options"] = {k: {n: [str(x) for x in v] for n, v in o.items()} for k, o in opt_space.items()}
    MiB = 1 << 20
    sigflip = lambda t: sub1(t, r"<SignatureData>(.)", lambda m: "<SignatureData>" + ("B" if m.group(1) == "A" else "A"))  # noqa: E731
    opt_docs: list[tuple[str, str, bytes, str, int | None]] = [
        ("ksr18", "load_ksr", ksr18.encode(), "request-default", None),
        ("ksr18-crlf", "load_ksr", ksr18.replace("\n", "\r\n").encode(), "request-default", None),
        ("ksr18-one-line", "load_ksr", re.sub(r">\s+<", "><", ksr18).encode(), "request-default", None),
        ("ksr-2016-q3", "load_ksr", dict(arch["request"])["ksr-root-2016-q3-0.xml"].encode(), "request-relaxed", None),
        ("ksr-2010-q2", "load_ksr", dict(arch["request"])["ksr-root-2010-q2-0.xml"].encode(), "request-relaxed", None),
        ("ksr18-bad-signature", "load_ksr", sigflip(ksr18).encode(), "request-default", None),
        ("ksr18-policy-violation", "load_ksr", ksr18.encode(), 'request:{"num_bundles": 8}', None),
        ("ksr18-truncated", "load_ksr", ksr18[: len(ksr18) // 2].encode(), "request-default", None),
        ("ksr18-single-quotes", "load_ksr", sub1(ksr18, r'id="([^"]*)"', r"id='\1'").encode(), "request-default", None),
        ("ksr18-not-utf8", "load_ksr", b"\xff\xfe" + ksr18.encode(), "request-default", None),
        ("ksr-empty", "load_ksr", b"", "request-default", None),
        ("ksr-generated", "load_ksr", gen["request"][0][1].encode(), "request-default", None),
        ("ksr18-padded-1MiB+1", "load_ksr", ksr18.encode(), "request-default", MiB + 1),
        ("skr18", "load_skr", skr18.encode(), "response-default", None),
        ("skr18-wrong-count", "load_skr", skr18.encode(), "response-2", None),
        ("skr18-bad-signature", "load_skr", sigflip(skr18).encode(), "response-default", None),
        ("skr18-truncated", "load_skr", skr18[: len(skr18) // 3].encode(), "response-default", None),
        ("skr-not-xml", "load_skr", b"hello world\n", "response-default", None),
    ]
    big_docs: list[tuple[str, str, bytes, str, int | None]] = [
        ("newlines-1MiB", "load_ksr", b"\n" * MiB, "request-default", None),
        ("one-line-1MiB", "load_ksr", b'<KSR id="a" serial="1" domain="."><Request>' + b"A" * (MiB - 100) + b"</Request></KSR>", "request-default", None),
        ("ksr18-padded-1MiB", "load_ksr", ksr18.encode(), "request-default", MiB),
        ("skr18-padded-1MiB", "load_skr", skr18.encode(), "response-default", MiB),
    ]

    def is_logging_option(n: str) -> bool:
        return n.startswith("log")

    option_groups: dict[str, list[int]] = {}
    for dname, kind, data, pol, pad in opt_docs + big_docs:
        names = list(opt_space[kind])
        big = (dname, kind, data, pol, pad) in big_docs
        for values in itertools.product(*(opt_space[kind][n] for n in names)):
            opts = dict(zip(names, values))
            for plen in PATH_LENGTHS if not big else [None, 250, 1000]:
                for sink in (False, True):
                    if sink and (big or plen not in (None, 250, 1000)):
                        continue
                    label = ",".join(f"{n}={v}" for n, v in opts.items())
                    gkey = json.dumps([dname, kind, pol, {n: v for n, v in opts.items() if not is_logging_option(n)}], default=str)
                    base_case = plen is None and not sink and not any(v for n, v in opts.items() if is_logging_option(n))
                    option_groups.setdefault(gkey, []).append(len(load_cases))
                    add_load(
                        "load-options", f"{dname}:{label}:path={plen or 'short'}:sink={sink}", kind, data, pol, pad,
                        options=opts, raise_original=bool(opts.get("raise_original", False)), path_len=plen, log_sink=sink, group=gkey, group_base=base_case,
                    )

    # pre-pass of the model on the load cases that decode: proved-divergent ones get the short budget
    pre_lines = []
    pre_idx = []
    for i, c in enumerate(load_cases):
        if c.get("pad_to") or len(c["bytes"]) > 200000 or c.get("source"):
            continue
        try:
            t = c["bytes"].decode()
        except UnicodeDecodeError:
            continue
        pre_lines.append({"op": "request_from_xml" if c["kind"] == "load_ksr" else "response_from_xml", "s": hx(t)})
        pre_idx.append(i)
    pre = drive(pre_lines) if driver_ok else []
    load_hang = {i for i, m in zip(pre_idx, pre) if m == "hang"}
    load_task_case: list[int] = []
    for i, c in enumerate(load_cases):
        if i in load_hang:
            if confirmed >= cap_confirm:
                c["skipped_hang"] = True
                continue
            confirmed += 1
            budget = HANG_CONFIRM_BUDGET
        else:
            budget = BUDGET
        p = {k: c[k] for k in ("kind", "bytes", "policy", "now", "pad_to", "raise_original", "options", "path_len", "log_sink", "source") if c.get(k) is not None}
        tasks.append((p, budget))
        load_task_case.append(i)

    t0 = time.time()
    # the load-options cases come last and run in slices: once several of them have overrun the full budget, the rest of
    # the stream gets a shorter one (a good load takes some 0.02 s), so that a loader that hangs for a whole class of
    # options does not cost 10 s for every member of the class; the cases reported first have had the full budget
    n_text_tasks = len(task_case)
    first_opt = next((k for k, ci in enumerate(load_task_case) if load_cases[ci].get("group")), len(load_task_case)) + n_text_tasks
    REDUCED_BUDGET = 2.0
    with WatchdogPool(min(16, os.cpu_count() or 4)) as pool:
        outs = pool.run(tasks[:first_opt])
        overruns = 0
        for lo in range(first_opt, len(tasks), 64):
            if overruns >= 8:
                tasks[lo : lo + 64] = [(p_, min(b_, REDUCED_BUDGET)) for p_, b_ in tasks[lo : lo + 64]]
                res.stats["load-options:run-with-reduced-budget"] = res.stats.get("load-options:run-with-reduced-budget", 0) + len(tasks[lo : lo + 64])
            part = pool.run(tasks[lo : lo + 64])
            overruns += sum(1 for o_ in part if o_.get("timeout"))
            outs += part
        res.stats["worker_restarts"] = pool.restarts
    res.stats["impl_wall_s"] = round(time.time() - t0, 1)

    # --- second model pass for the load cases, with the recorded verifier answers
    n_text = len(task_case)
    load_outs = outs[n_text:]
    load_lines = []
    load_line_case = []
    for ci, o in zip(load_task_case, load_outs):
        c = load_cases[ci]
        if c.get("source"):
            # the model's file oracle: fstat answers what the loader's fstat saw, read(n) hands out the first n octets on offer
            first = offered_prefix(c, CAP + 1)
            if first is None or o.get("opens", 0) != 1 or o.get("timeout") or o.get("died") or (len(first) > 300000 and not c.get("model_big")):
                continue  # nothing to open / not determined by the case / 2 MB line: judged by the property only
            pol = _policy(c["policy"])
            load_lines.append({
                "op": c["kind"], "bytes": first.hex(), "statSize": o.get("size", 0), "policy": lib.request_policy_j(pol) if c["kind"] == "load_ksr" else lib.response_policy_j(pol),
                "now": c["now"], "verify": o.get("verify", []), "raiseOriginal": False,
            })
            load_line_case.append(ci)
            res.bump("file-object:model-asked")
            continue
        if len(c["bytes"]) > 300000 and not c.get("pad_to"):
            continue  # MiB-sized documents: judged by the property only (the hex line would be 2+ MB)
        if c.get("group") and not c.get("group_base"):
            continue  # path length / logging are no inputs of the model: the base of the group stands for it, the rest is compared with the base
        pol = _policy(c["policy"])
        body = c["bytes"]
        ln = {
            "op": c["kind"],
            "bytes": body.hex(),
            "statSize": c["pad_to"] if c.get("pad_to") else len(body),
            "policy": lib.request_policy_j(pol) if c["kind"] == "load_ksr" else lib.response_policy_j(pol),
            "now": c["now"],
            "verify": o.get("verify", []),
            "raiseOriginal": bool(c.get("raise_original", False)),
        }
        if c.get("pad_to"):
            if c["pad_to"] > (1 << 20):
                ln["bytes"] = ""  # never read: only the size matters
            else:
                ln["bytes"] = (body + b" " * (c["pad_to"] - len(body))).hex()
        load_lines.append(ln)
        load_line_case.append(ci)
    load_model = dict(zip(load_line_case, drive(load_lines, procs=8))) if driver_ok else {}

    # --- judge
    def case_of(c: dict[str, Any]) -> dict[str, Any]:
        key_case = {"stream": c["stream"], "name": c["name"], "kind": c["kind"]}
        if "text" in c:
            key_case["text"] = c["text"] if len(c["text"]) <= 20000 else c["text"][:2000] + f"...[{len(c['text'])} chars]"
        else:
            key_case["bytes_hex"] = c["bytes"].hex() if len(c["bytes"]) <= 40000 else c["bytes"][:400].hex() + f"...[{len(c['bytes'])} octets]"
            key_case.update({"policy": c["policy"], "now": c["now"], "pad_to": c.get("pad_to"), "raise_original": c.get("raise_original", False)})
            for k in ("options", "path_len", "log_sink", "source"):
                if c.get(k) is not None:
                    key_case[k] = c[k]
        if "recurse" in c:
            key_case["recurse"] = c["recurse"]
        return key_case

    def option_key(c: dict[str, Any]) -> str:
        on = ",".join(n for n, v in (c.get("options") or {}).items() if v is True) or "defaults"
        return f"load-options:{on}:path={c.get('path_len') or 'short'}:sink={bool(c.get('log_sink'))}"

    def judge(c: dict[str, Any], o: dict[str, Any], m: Any, budget: float, text_for_key: str) -> None:
        key_case = case_of(c)
        if c.get("group"):
            res.bump(f"load-options:path={c.get('path_len') or 'short'}")
            res.bump("load-options:" + ",".join(f"{n}={v}" for n, v in (c.get("options") or {}).items()) + f",sink={bool(c.get('log_sink'))}")
            if o.get("log_records"):
                res.bump("load-options:log-records-formatted", o["log_records"])
            if c.get("path_len") and o.get("path_chars") not in (None, c["path_len"]):
                res.disagreement("harness self-test: the file path does not have the requested length", key_case, o.get("path_chars"), c["path_len"])
        res.count(hashlib.sha1(c["text"].encode() if "text" in c else c["bytes"] + str(c.get("pad_to")).encode() + (json.dumps([c["kind"], c["source"]], sort_keys=True).encode() if c.get("source") else b"")).hexdigest())
        res.bump("stream:" + c["stream"])
        res.bump("kind:" + c["kind"])
        impl = o.get("outcome")
        src_spec = c.get("source") or {}
        fkind = src_spec.get("type")
        if fkind:
            detail = src_spec.get("path") or src_spec.get("target") or (src_spec.get("at", "read") if fkind in ("growing", "shrinking") else None)
            if detail:
                fkind += ":" + {"read": "after-fstat", "fileno": "before-fstat"}.get(detail, detail)
            res.bump("file-object:" + c["name"].split(":")[0])
        # 1. the property on the implementation
        if o.get("timeout") or o.get("died"):
            res.bump("impl:timeout" if o.get("timeout") else "impl:worker-died")
            if o.get("died"):
                res.violation("loading killed the worker process (memory / stack exhaustion)", key_case, key="worker-died" + (f":file-object:{fkind}" if fkind else ""), exitcode=o.get("exitcode"))
            elif fkind:
                res.violation("load exceeds the 10 s budget", key_case, key=f"file-object:{fkind}:timeout", budget_s=budget, reads=o.get("reads"))
            elif m == "hang":
                res.bump("hang:confirmed")
                res.violation("does not terminate promptly", key_case, key=hang_key(text_for_key), budget_s=budget, model="hang (proved: KskmProofs.C13 parseAttrs_diverges)")
            elif c.get("group") and (c.get("options") or {}).get("log_contents") and (c.get("log_sink") or os.environ.get("VERIF_LOGGING") == "debug") and max(len(c.get("bytes", b"") or c.get("text", "")), c.get("pad_to") or 0) > 65536:
                # log_contents=True asks for one log record per line; with logging really switched on (a handler formats the
                # records, or the DEBUG second pass) a file of up to a million lines costs seconds of LOGGING, linear in the
                # number of lines — work the operator requested with --log-ksr, not the loader failing to terminate.  Beyond the
                # property's 64 KiB domain the time of these cases is recorded, not judged (with logging off, and for every
                # file within 64 KiB, it is judged as always).
                res.bump("load-options:logging-a-large-file-took-longer-than-the-budget (recorded, not judged)")
            else:
                extra = {"note": "run with a reduced budget after 8 members of this stream had overrun the full 10 s"} if c.get("group") and budget < BUDGET else {}
                res.violation("load exceeds the 10 s budget", key_case, key=option_key(c) if c.get("group") else slow_key(text_for_key), budget_s=budget, model=m if not isinstance(m, dict) or "ok" not in m else "ok", **extra)
            return
        res.stats["max_elapsed_s"] = max(res.stats.get("max_elapsed_s", 0.0), round(o.get("elapsed", 0.0), 3))
        if o.get("elapsed", 0.0) > 2.0:
            res.bump("impl:slower-than-2s")
            res.notes.append(f"slow: {c['stream']}:{c['name']} {o['elapsed']:.1f}s")
        # "larger than 1 MiB is refused unread … never exhausts memory": whatever the path names, the loader may not ask the file
        # for more than the cap in one call (no size argument = no bound), nor take more than the cap from it altogether
        # (+1: reading one octet beyond the cap to notice an over-size file is bounded all the same)
        if c["kind"] in ("load_ksr", "load_skr"):
            reads = o.get("reads") or []
            what_file = fkind or "regular"
            for meth, size_arg, got in reads:
                res.bump("read-call:" + ("size-argument-within-cap" if isinstance(size_arg, int) and 0 <= size_arg <= CAP + 1 else "UNBOUNDED"))
            unbounded = [rc for rc in reads if not (isinstance(rc[1], int) and 0 <= rc[1] <= CAP + 1)]
            taken = sum(rc[2] for rc in reads if isinstance(rc[2], int))
            # a failing input is one on which MORE than the cap left the file (or memory / time ran out, below); a read without bound that
            # met a file offering no more than the cap (a quiescent regular file that passed the gate, a FIFO with a small document) is counted
            if unbounded and taken <= CAP + 1 and not any(isinstance(rc[2], str) for rc in reads):
                res.bump("read-call:unbounded-but-no-more-than-the-cap-was-on-offer")
            if taken > CAP + 1:
                res.violation(
                    ("the loader reads the file without an upper bound on the amount (the size reported by fstat is not the amount a read delivers) and took more than the cap out of it"
                     if unbounded else "the loader took more than the cap out of the file"),
                    key_case, key=("unbounded-read:" if unbounded else "read-past-cap:") + what_file, reads=reads, fstat_size=o.get("size"), taken=taken, cap=CAP,
                    outcome=_short(impl if not (isinstance(impl, dict) and "ok" in impl) else "object"),
                )
            src_obs = o.get("source") or {}
            if src_obs.get("accepted_by_pipe") is not None and not src_obs.get("drained_by_harness"):
                res.stats["fifo:max_accepted_by_pipe"] = max(res.stats.get("fifo:max_accepted_by_pipe", 0), src_obs["accepted_by_pipe"])
                allowed = CAP + 1 + src_obs.get("pipe_capacity", 1 << 16) + (1 << 16)
                if src_obs["accepted_by_pipe"] > allowed:
                    res.violation(
                        "the loader consumed more than the cap (plus one pipe buffer) from a FIFO", key_case, key=f"stream-consumed-past-cap:{what_file}",
                        offered=src_obs.get("offered"), accepted_by_pipe=src_obs["accepted_by_pipe"], allowed=allowed, reads=reads,
                    )
        if isinstance(impl, dict) and impl.get("fatal"):
            res.violation(f"loading ends in {impl['fatal']}", key_case, key=(f"file-object:{fkind}:" if fkind else "") + impl["fatal"], reads=o.get("reads"))
            return
        if o.get("escaped"):
            res.violation("a non-Exception BaseException escaped the loader", key_case, key="base-exception", impl=impl)
            return
        if isinstance(impl, dict) and "ok" in impl:
            res.bump("impl:object")
            # "never a partially parsed object": where a standard parser can read the document as the schema
            # lays it out, the numbers and counts of the returned object are the document's
            if c["kind"] != "parse" and c["kind"] != "parse_attrs" and len(text_for_key) < 100000:
                import corr_C12

                try:
                    std = skeleton(corr_C12.et_extract(text_for_key))
                except Exception:  # noqa: BLE001  (not well-formed / not laid out as the schema says: no verdict)
                    std = None
                if std is not None:
                    res.bump("object-vs-standard-reading:compared")
                    if skeleton(impl["ok"]) != std:
                        res.violation("returned object does not carry the numbers and counts of the document", key_case, key="object-differs-from-document", impl=_short(skeleton(impl["ok"])), expected=_short(std))
            # a start tag wrapped over lines whose continuation is NOT attribute syntax (or repeats an attribute): the document is not
            # well-formed for any XML parser; an object returned for it was built from a start tag that was only partly parsed
            if ":wrapped-" in str(c.get("name", "")) and c["kind"] not in ("parse", "parse_attrs"):
                import xml.etree.ElementTree as _ET

                try:
                    _ET.fromstring(text_for_key[text_for_key.index("<KSR") :] if "<KSR" in text_for_key else text_for_key)
                    res.bump("wrapped-start-tag:well-formed-and-loaded")
                except _ET.ParseError as exc:
                    res.violation("an object was returned for a document whose wrapped start tag is not well-formed: the rest of the tag was dropped unparsed (partially parsed object)", key_case, key="partial:wrapped-start-tag", standard_parser=str(exc))
            if c["kind"] in ("load_ksr", "load_skr"):
                if o.get("revalidates") is not True:
                    res.violation("load returned an object that does not validate under the same policy", key_case, key="not-validated", revalidate_error=o.get("revalidate_error"))
        elif isinstance(impl, dict) and "violation" in impl:
            res.bump("impl:policy-violation")
        else:
            res.bump("impl:error:" + str((impl or {}).get("error")))
        if c["kind"] in ("load_ksr", "load_skr"):
            size = o.get("size", 0)
            cap = 1 << 20
            if size > cap:
                res.bump("size-gate:over")
                if o.get("read_called") or not (isinstance(impl, dict) and "error" in impl):
                    res.violation("a file larger than the cap was read or not refused", key_case, key="size-gate", size=size, read_called=o.get("read_called"), impl=impl)
            else:
                res.bump("size-gate:within")
        # 2. the tie: model vs implementation
        if m is None:
            return
        mm = m
        if c["kind"] in ("load_ksr", "load_skr"):
            if isinstance(m, dict) and "result" in m:
                if m.get("readCalled") != o.get("read_called"):
                    res.disagreement("load: model and implementation differ on whether the file is read", key_case, o.get("read_called"), m.get("readCalled"))
                mm = m["result"]
        if mm == "hang":
            res.bump("hang:predicted-but-terminated")
            res.disagreement("model predicts non-termination, implementation terminated", key_case, impl, mm)
            return
        if lib.is_unsupported(mm):
            res.unsupported += 1
            res.bump("model:unsupported")
            res.bump(f"model:unsupported:{c['stream']}:{c['kind']}")
            if str(c.get("name", "")).split(":")[-1].startswith(("time-", "sigtime-", "duration-")):
                # the timestamp / duration codecs answer every text since work package B2 (week dates, non-ASCII octets, Unicode digits)
                res.disagreement(f"{c['kind']}: the model declines a timestamp/duration boundary document", key_case, _short(impl), mm)
            return
        mc = canon_outcome(mm)
        if not same_outcome(impl, mc):
            res.disagreement(f"{c['kind']}: model != implementation", key_case, _short(impl), _short(mc))
        elif impl != mc:
            res.soft_error_kind_mismatch += 1
        if len(res.samples) < 5 and c["stream"] in ("syntax", "mutation", "load-benign") and r.random() < 0.01:
            res.sample({"stream": c["stream"], "name": c["name"], "kind": c["kind"], "input": (c.get("text") or "")[:300], "impl": _short(impl), "model": _short(mc), "elapsed_s": round(o.get("elapsed", 0), 4)})

    for ti, ci in enumerate(task_case):
        c = cases[ci]
        judge(c, outs[ti], model[ci], tasks[ti][1], c["text"])
    for k, ci in enumerate(load_task_case):
        c = load_cases[ci]
        o = load_outs[k]
        m = load_model.get(ci)
        try:
            tk = (c["bytes"] if not c.get("source") else (offered_prefix(c, CAP) or b""))[:1100000].decode("utf-8", "replace")
        except Exception:  # noqa: BLE001
            tk = ""
        judge(c, o, m if m is not None else ("hang" if ci in load_hang else None), tasks[n_text + k][1], tk)
    # the outcome must not depend on the path length or on logging: every member of an option group against its base
    out_by_case = {ci: load_outs[k] for k, ci in enumerate(load_task_case)}
    obs = lambda o: {"outcome": o.get("outcome"), "read_called": o.get("read_called"), "revalidates": o.get("revalidates")}  # noqa: E731
    for gkey, members in option_groups.items():
        bases = [ci for ci in members if load_cases[ci].get("group_base") and ci in out_by_case]
        if not bases or out_by_case[bases[0]].get("timeout") or out_by_case[bases[0]].get("died"):
            continue
        bo = obs(out_by_case[bases[0]])
        res.bump("load-options:groups")
        res.bump("load-options:base-outcome:" + ("object" if isinstance(bo["outcome"], dict) and "ok" in bo["outcome"] else "violation" if isinstance(bo["outcome"], dict) and "violation" in bo["outcome"] else "error"))
        for ci in members:
            o = out_by_case.get(ci)
            if o is None or ci == bases[0] or o.get("timeout") or o.get("died"):
                continue  # (an overrun is reported by judge)
            if obs(o) != bo:
                c = load_cases[ci]
                res.violation("the outcome of loading depends on the path length or on logging", case_of(c), key=option_key(c), impl=_short(obs(o)), same_file_short_path_no_logging=_short(bo))
            else:
                res.bump("load-options:same-outcome-as-base")
    skipped = sum(1 for c in cases + load_cases if c.get("skipped_hang"))
    res.stats["hang_predicted_not_replayed"] = skipped
    res.stats["hang_predicted"] = sum(1 for m in model if m == "hang") + len(load_hang)
    if skipped:
        res.notes.append(f"{skipped} inputs on which the model proves non-termination were not replayed on the implementation (cap {cap_confirm})")

    # --- the regex differential (permanent part of this check)
    if driver_ok:
        regex_diff.run(res, tier, "C13-regex")
    res.notes.append("F5 shapes: " + ", ".join(f"{c['name']}={load_outs[k].get('elapsed', 0):.1f}s" + ("(timeout)" if load_outs[k].get("timeout") else "") for k, ci in enumerate(load_task_case) for c in [load_cases[ci]] if c["name"].startswith("quadratic")))
    return res


def _reverse_bundles(t: str) -> str:
    ms = list(re.finditer(r"<(Re(?:quest|sponse)Bundle) .*?</\1>\s*", t, flags=re.S))
    if len(ms) < 2:
        return t
    return t[: ms[0].start()] + "".join(m.group(0) for m in reversed(ms)) + t[ms[-1].end() :]


def _short(o: Any) -> Any:
    s = json.dumps(o, default=str)
    return o if len(s) < 1500 else s[:1500] + "..."


def replay(obj: dict[str, Any]) -> Any:
    v = obj.get("violation") or obj.get("disagreement") or {}
    c = v.get("case") or {}
    out: dict[str, Any] = {"case": {k: (x if not isinstance(x, str) or len(x) < 400 else x[:400] + "...") for k, x in c.items()}, "recorded": {k: v.get(k) for k in ("what", "key", "impl", "model", "reads", "taken", "fstat_size", "accepted_by_pipe", "allowed") if k in v}}
    if "text" in c and not c["text"].endswith(" chars]"):
        p = {k: c[k] for k in ("kind", "text", "recurse") if k in c}
        out["model_now"] = _short(drive([model_line(p)])[0])
    elif "bytes_hex" in c and not c["bytes_hex"].endswith(" octets]"):
        p = {"kind": c["kind"], "bytes": bytes.fromhex(c["bytes_hex"]), "policy": c["policy"], "now": c["now"], "pad_to": c.get("pad_to"), "raise_original": c.get("raise_original", False),
             "options": c.get("options"), "path_len": c.get("path_len"), "log_sink": c.get("log_sink"), "source": c.get("source")}
        p = {k: x for k, x in p.items() if x is not None}
    else:
        return out
    with WatchdogPool(1) as pool:
        o = pool.run([(p, BUDGET)])[0]
    out["implementation_now"] = {k: _short(x) for k, x in o.items() if k != "verify"}
    return out
