"""C16 table section: the configuration schema of /repo as Lean data, regenerated on every run.

For each pydantic model reachable from `KSKMConfig` this emits an `ObjSchema` (lean/Kskm/ConfigSchema.lean):
field names in definition order, `additionalProperties` (extra="forbid"), `strict`, required fields, the
loaded defaults (by instantiating the model / the field's default factory), numeric bounds, string
patterns, the free-form `env` map, int-keyed mappings (from the annotations: the JSON schema does not say),
and the field validators: the `mode="before"` ones by name, the `mode="after"` ones by name AND by
execution (the function is probed, see `KNOWN_AFTER_VALIDATORS`: the name alone is not trusted).  A validator
this translator does not know, or one that does not behave as modelled, makes the section fail, so a new or
changed validator can never be silently ignored.

Also tabulated BY EXECUTION: the exit status of the real `kskm.tools.ksrsigner.main()` (a subprocess)
for a configuration raising ConfigurationError, a schema-invalid configuration, a missing file and
malformed YAML (`exitStatusObserved`), from which the behaviour switch `validationErrorCaught` of the
model is derived (DESIGN.md section 5, F3).
"""

from __future__ import annotations

import datetime as _dt
import enum
import os
import shutil
import subprocess
import sys
import time
import typing
from collections.abc import Mapping
from pathlib import Path
from typing import Any

import lib  # noqa: F401
from lib import REPO, VERIF, dt_us, td_us

KNOWN_BEFORE_VALIDATORS = {"turn_into_list", "algorithm_by_name"}


def probe_naive_is_utc(fn: Any) -> str | None:
    """Is `fn` (a `mode="after"` field validator, called on the already validated value) exactly
    "a naive datetime becomes the same wall-clock time with UTC offset 0; an aware datetime and None are
    returned unchanged"?  Decided by EXECUTION on probe values; returns None when it is, else what differed."""
    utc = _dt.timezone.utc
    walls = [
        _dt.datetime(2010, 7, 15), _dt.datetime(2010, 7, 15, 12, 30, 1, 5), _dt.datetime(1970, 1, 1), _dt.datetime(1969, 12, 31, 23, 59, 59, 999999),
        _dt.datetime(1, 1, 1), _dt.datetime(9999, 12, 31, 23, 59, 59, 999999), _dt.datetime(2012, 2, 29, 23, 59, 59), _dt.datetime(2024, 3, 31, 2, 30),
        _dt.datetime(2024, 10, 27, 2, 30, fold=1), _dt.datetime(2038, 1, 19, 3, 14, 8),
    ]  # fmt: skip
    zones = [utc, _dt.timezone(_dt.timedelta(0), "X"), _dt.timezone(_dt.timedelta(hours=2)), _dt.timezone(_dt.timedelta(hours=-11, minutes=-30)),
             _dt.timezone(_dt.timedelta(hours=14)), _dt.timezone(_dt.timedelta(seconds=1))]  # fmt: skip
    try:
        import zoneinfo

        zones.append(zoneinfo.ZoneInfo("Europe/Stockholm"))
    except Exception:  # noqa: BLE001
        pass
    # the answer must not depend on the time zone of the process
    saved = os.environ.get("TZ")
    try:
        for tzname in (None, "UTC", "Asia/Tokyo", "America/Los_Angeles"):
            if tzname is not None:
                os.environ["TZ"] = tzname
                time.tzset()
            try:
                if fn(None) is not None:
                    return "None is not returned unchanged"
                for w in walls:
                    got = fn(w)
                    if type(got) is not _dt.datetime:
                        return f"naive {w!r}: returns a {type(got).__name__}"
                    if got.utcoffset() != _dt.timedelta(0):
                        return f"naive {w!r}: result has UTC offset {got.utcoffset()!r}"
                    if got.replace(tzinfo=None) != w or got.fold != w.fold:
                        return f"naive {w!r}: wall-clock fields changed to {got!r}"
                    for z in zones:
                        if w.year in (1, 9999):
                            continue  # utcoffset() of the edge years may overflow for some zones
                        a = w.replace(tzinfo=z)
                        got = fn(a)
                        if got is a:
                            continue
                        if type(got) is not _dt.datetime or got.tzinfo is None or got.replace(tzinfo=None) != w or got.utcoffset() != a.utcoffset() or got.fold != a.fold:
                            return f"aware {a!r}: not returned unchanged ({got!r})"
            except Exception as exc:  # noqa: BLE001
                return f"raises {type(exc).__name__}: {exc}"
    finally:
        if saved is None:
            os.environ.pop("TZ", None)
        else:
            os.environ["TZ"] = saved
        time.tzset()
    return None


# `mode="after"` field validators the model has built in: name -> (the per-field flag of the generated table,
# the behaviour probe the function must pass, the field types it may be declared for)
KNOWN_AFTER_VALIDATORS: dict[str, tuple[str, Any, set[str]]] = {
    "validity_without_timezone_is_utc": ("naiveIsUtc", probe_naive_is_utc, {"STy.scalar [Scalar.datetime]", "STy.scalar [Scalar.datetime, Scalar.null]"}),
}
AFTER_FLAGS = sorted({flag for flag, _, _ in KNOWN_AFTER_VALIDATORS.values()})

# the four probe configurations of `exitStatusObserved`
EXIT_PROBES: list[tuple[str, str | None]] = [
    ("configuration_error", "request_policy: {num_bundles: 0}\n"),
    ("validation_error", "request_policy: {bogus_option: 1}\n"),
    ("missing_file", None),
    ("malformed_yaml", "request_policy: {num_bundles: 0\n  - ]: [\n"),
]


def lstr(s: str) -> str:
    out = ['"']
    for ch in s:
        o = ord(ch)
        if ch == '"':
            out.append('\\"')
        elif ch == "\\":
            out.append("\\\\")
        elif ch == "\n":
            out.append("\\n")
        elif ch == "\t":
            out.append("\\t")
        elif ch == "\r":
            out.append("\\r")
        elif o < 32 or o == 127:
            out.append("\\x%02x" % o)
        else:
            out.append(ch)
    out.append('"')
    return "".join(out)


def lint(i: int) -> str:
    return str(i) if i >= 0 else f"({i})"


def lopt(x: str | None) -> str:
    return "none" if x is None else f"(some {x})"


# ---------------------------------------------------------------------------------------------
# canonical loaded values (shared with corr_C16: the same encoder is used for the implementation's
# loaded configuration, so the Lean defaults and the observed values are comparable)
# ---------------------------------------------------------------------------------------------


def canon(v: Any, r: bool = False) -> Any:
    """A loaded Python value -> the JSON transport form of `CVal` (see Kskm/Ops/PkgF.lean)."""
    import pydantic

    if v is None:
        return None
    if isinstance(v, bool):
        return v
    if isinstance(v, int):
        return v
    if isinstance(v, float):
        if v != v or v in (float("inf"), float("-inf")):
            return {"f": [None, False], "r": repr(v)} if r else {"f": [None, False]}
        return {"f": [int(v), v == int(v)], "r": repr(v)} if r else {"f": [int(v), v == int(v)]}
    if isinstance(v, str):
        return v
    if isinstance(v, enum.Enum):
        return canon(v.value, r)
    if isinstance(v, _dt.timedelta):
        return {"td": td_us(v)}
    if isinstance(v, _dt.datetime):
        off = v.utcoffset()
        if off is None:
            return {"ts": [dt_us(v.replace(tzinfo=_dt.timezone.utc)), None]}
        return {"ts": [dt_us(v), int(off.total_seconds())]}
    if isinstance(v, _dt.date):
        return {"date": (v - _dt.date(1970, 1, 1)).days}
    if isinstance(v, Path):
        return str(v)
    if isinstance(v, pydantic.BaseModel):
        return {"map": [[k, canon(getattr(v, k), r)] for k in type(v).model_fields]}
    if isinstance(v, Mapping):
        return {"map": [[canon(k, r), canon(x, r)] for k, x in v.items()]}
    if isinstance(v, (list, tuple)):
        return [canon(x, r) for x in v]
    if isinstance(v, (set, frozenset)):
        return [canon(x, r) for x in v]
    raise TypeError(f"no canonical form for {type(v).__name__}")


def lean_cval(j: Any) -> str:
    """transport form -> Lean term of type CVal"""
    if j is None:
        return "CVal.null"
    if isinstance(j, bool):
        return f"CVal.bool {'true' if j else 'false'}"
    if isinstance(j, int):
        return f"CVal.int {lint(j)}"
    if isinstance(j, str):
        return f"CVal.str {lstr(j)}"
    if isinstance(j, list):
        return "CVal.list [" + ", ".join(lean_cval(x) for x in j) + "]"
    if isinstance(j, dict):
        if "f" in j:
            t, i = j["f"]
            return f"CVal.float {lopt(None if t is None else lint(t))} {'true' if i else 'false'}"
        if "td" in j:
            return f"CVal.td {lint(j['td'])}"
        if "ts" in j:
            us, off = j["ts"]
            return f"CVal.ts {lint(us)} {lopt(None if off is None else lint(off))}"
        if "date" in j:
            return f"CVal.date {lint(j['date'])}"
        if "map" in j:
            return "CVal.map [" + ", ".join(f"({lean_cval(k)}, {lean_cval(v)})" for k, v in j["map"]) + "]"
    raise TypeError(f"bad transport value {j!r}")


# ---------------------------------------------------------------------------------------------
# JSON schema -> STy
# ---------------------------------------------------------------------------------------------


class SchemaWalker:
    def __init__(self, root_model: Any) -> None:
        self.root = root_model
        self.js = root_model.model_json_schema()
        self.defs = self.js.get("$defs", {})
        self.models: dict[str, Any] = {}
        self._collect_models(root_model)

    def _collect_models(self, m: Any) -> None:
        import pydantic

        if m.__name__ in self.models:
            return
        self.models[m.__name__] = m

        def walk(t: Any) -> None:
            t = getattr(t, "__supertype__", t)  # NewType
            if isinstance(t, type) and issubclass(t, pydantic.BaseModel):
                self._collect_models(t)
                return
            for a in typing.get_args(t):
                walk(a)

        for f in m.model_fields.values():
            walk(f.annotation)

    @staticmethod
    def mapping_key_types(t: Any) -> list[Any]:
        """key types along nested Mapping[...] annotations, outermost first"""
        out: list[Any] = []
        while True:
            t = getattr(t, "__supertype__", t)
            origin = typing.get_origin(t)
            if origin is not None and isinstance(origin, type) and issubclass(origin, Mapping):
                k, v = typing.get_args(t)
                out.append(getattr(k, "__supertype__", k))
                t = v
                continue
            return out

    def scalar(self, s: dict[str, Any], model: str, field: str, before: set[str]) -> list[str]:
        """a JSON-schema node that must be scalar -> list of Lean `Scalar` terms"""
        known = {"type", "format", "pattern", "minimum", "maximum", "exclusiveMinimum", "title", "default", "description"}
        if "anyOf" in s:
            if set(s) - {"anyOf", "title", "default", "description"}:
                raise ValueError(f"{model}.{field}: unexpected keys beside anyOf: {sorted(s)}")
            out: list[str] = []
            for alt in s["anyOf"]:
                out.extend(self.scalar(alt, model, field, before))
            return out
        if "$ref" in s:
            name = s["$ref"].rsplit("/", 1)[-1]
            d = self.defs[name]
            if "enum" in d:
                return ["Scalar.algByName" if "algorithm_by_name" in before else "Scalar.enumMember"]
            raise ValueError(f"{model}.{field}: model reference {name} inside a scalar union")
        if set(s) - known:
            raise ValueError(f"{model}.{field}: JSON-schema keywords this translator does not know: {sorted(set(s) - known)}")
        t = s.get("type")
        if t == "null":
            return ["Scalar.null"]
        if t == "boolean":
            return ["Scalar.bool"]
        if t == "integer":
            ge = s.get("minimum")
            le = s.get("maximum")
            gt = s.get("exclusiveMinimum")
            f = lambda x: lopt(None if x is None else lint(int(x)))  # noqa: E731
            return [f"Scalar.int {f(ge)} {f(le)} {f(gt)}"]
        if t == "string":
            fmt = s.get("format")
            if fmt is None:
                pat = s.get("pattern")
                return [f"Scalar.str {lopt(None if pat is None else lstr(pat))}"]
            if "pattern" in s:
                raise ValueError(f"{model}.{field}: pattern on a formatted string")
            table = {"duration": "Scalar.duration", "date-time": "Scalar.datetime", "file-path": "Scalar.filePath", "path": "Scalar.path"}
            if fmt not in table:
                raise ValueError(f"{model}.{field}: unknown string format {fmt}")
            return [table[fmt]]
        raise ValueError(f"{model}.{field}: unknown scalar type {t!r}")

    def sty(self, s: dict[str, Any], model: str, field: str, before: set[str], keytypes: list[Any]) -> str:
        if "$ref" in s:
            name = s["$ref"].rsplit("/", 1)[-1]
            d = self.defs.get(name)
            if d is not None and d.get("type") == "object" and "properties" in d:
                return f"STy.model {lstr(name)}"
        t = s.get("type")
        if t == "array":
            extra = set(s) - {"type", "items", "uniqueItems", "title", "default", "description"}
            if extra:
                raise ValueError(f"{model}.{field}: array keywords {sorted(extra)}")
            item = self.sty(s["items"], model, field, before, keytypes)
            return f"STy.set ({item})" if s.get("uniqueItems") else f"STy.list ({item})"
        if t == "object":
            extra = set(s) - {"type", "additionalProperties", "title", "default", "description"}
            if extra:
                raise ValueError(f"{model}.{field}: object keywords {sorted(extra)}")
            ap = s.get("additionalProperties", True)
            if not keytypes:
                raise ValueError(f"{model}.{field}: object without a Mapping annotation")
            kt, rest = keytypes[0], keytypes[1:]
            if kt not in (str, int):
                raise ValueError(f"{model}.{field}: mapping key type {kt}")
            if ap is True:
                if kt is not str:
                    raise ValueError(f"{model}.{field}: free-form map with non-str keys")
                return "STy.anyMap"
            if ap is False:
                raise ValueError(f"{model}.{field}: closed anonymous object")
            return f"STy.mapOf {'true' if kt is int else 'false'} ({self.sty(ap, model, field, before, rest)})"
        return "STy.scalar [" + ", ".join(self.scalar(s, model, field, before)) + "]"

    def obj_schema(self, name: str) -> str:
        from pydantic_core import PydanticUndefined

        m = self.models[name]
        js = self.js if m is self.root else self.defs.get(name)
        if js is None:
            js = m.model_json_schema()
        # additionalProperties absent = JSON-schema default = extras allowed (extra="ignore"/"allow")
        ap = js.get("additionalProperties", True)
        if ap not in (True, False):
            raise ValueError(f"{name}: additionalProperties {ap!r}")
        strict = bool(m.model_config.get("strict", False))
        required = set(js.get("required", []))
        before_by_field: dict[str, set[str]] = {}
        after_by_field: dict[str, set[str]] = {}
        for vname, dec in m.__pydantic_decorators__.field_validators.items():
            if dec.info.mode == "before" and vname in KNOWN_BEFORE_VALIDATORS:
                by_field = before_by_field
            elif dec.info.mode == "after" and vname in KNOWN_AFTER_VALIDATORS:
                # the name is not trusted: the function itself must behave exactly as the model's flag says
                why = KNOWN_AFTER_VALIDATORS[vname][1](getattr(m, dec.cls_var_name))
                if why is not None:
                    raise ValueError(f"{name}: field validator {vname} (mode after) is not modelled: it does not behave as its name says: {why}")
                by_field = after_by_field
            else:
                raise ValueError(f"{name}: field validator {vname} (mode {dec.info.mode}) is not modelled")
            for fld in dec.info.fields:
                targets = list(m.model_fields) if fld == "*" else [fld]
                for t in targets:
                    if t not in m.model_fields:
                        raise ValueError(f"{name}: field validator {vname} names an unknown field {t}")
                    by_field.setdefault(t, set()).add(vname)
        if m.model_config.get("validate_default") and after_by_field:
            raise ValueError(f"{name}: validate_default with after-validators is not modelled")
        for kind in ("validators", "root_validators", "model_validators"):
            if getattr(m.__pydantic_decorators__, kind, None):
                raise ValueError(f"{name}: {kind} are not modelled")
        if set(js.get("properties", {})) != set(m.model_fields):
            raise ValueError(f"{name}: JSON-schema properties differ from model_fields")
        fields: list[str] = []
        for fname, finfo in m.model_fields.items():
            before = before_by_field.get(fname, set())
            ty = self.sty(js["properties"][fname], name, fname, before, self.mapping_key_types(finfo.annotation))
            after_flags: set[str] = set()
            for vname in after_by_field.get(fname, set()):
                flag, _, types = KNOWN_AFTER_VALIDATORS[vname]
                if ty not in types:
                    raise ValueError(f"{name}.{fname}: after-validator {vname} on a field of type {ty} is not modelled")
                if finfo.validate_default:
                    raise ValueError(f"{name}.{fname}: validate_default with after-validator {vname} is not modelled")
                after_flags.add(flag)
            req = fname in required
            if req != finfo.is_required():
                raise ValueError(f"{name}.{fname}: required mismatch")
            if req:
                default = "none"
            else:
                d = finfo.get_default(call_default_factory=True)
                if d is PydanticUndefined:
                    raise ValueError(f"{name}.{fname}: no default")
                default = f"some ({lean_cval(canon(d))})"
            fields.append(
                "    { name := %s, ty := %s, required := %s, default := %s, strToList := %s%s }"
                % (lstr(fname), ty, "true" if req else "false", default, "true" if "turn_into_list" in before else "false",
                   "".join(", %s := %s" % (flag, "true" if flag in after_flags else "false") for flag in AFTER_FLAGS))
            )
        return "  { name := %s, additionalProperties := %s, strict := %s, fields := [\n%s] }" % (
            lstr(name),
            "true" if ap else "false",
            "true" if strict else "false",
            ",\n".join(fields),
        )


# ---------------------------------------------------------------------------------------------
# exit statuses by execution
# ---------------------------------------------------------------------------------------------

MAIN_SNIPPET = (
    "import sys; sys.path.insert(0, {src!r}); sys.argv = ['ksrsigner'] + {argv!r}; "
    "from kskm.tools.ksrsigner import main; main()"
)


def run_main(config_path: str, cwd: Path, extra_args: list[str] | None = None, timeout: float = 120.0) -> subprocess.Popen[bytes]:
    code = MAIN_SNIPPET.format(src=str(REPO / "src"), argv=["--config", config_path] + (extra_args or []))
    env = dict(os.environ)
    env.pop("PYTHONPATH", None)
    return subprocess.Popen(
        ["/venv/bin/python", "-c", code], cwd=str(cwd), stdin=subprocess.DEVNULL, stdout=subprocess.PIPE, stderr=subprocess.PIPE, env=env
    )


def observe_exit_statuses() -> list[tuple[str, int]]:
    scratch = VERIF / f".scratch_tables_{os.getpid()}"
    scratch.mkdir(exist_ok=True)
    try:
        procs = []
        for name, text in EXIT_PROBES:
            p = scratch / f"{name}.yaml"
            if text is not None:
                p.write_text(text)
            procs.append((name, run_main(str(p), scratch)))
        out = []
        for name, pr in procs:
            pr.communicate(timeout=120)
            out.append((name, pr.returncode))
        return out
    finally:
        shutil.rmtree(scratch, ignore_errors=True)


FLAG_READER_FILES = [
    "src/kskm/ksr/verify_header.py",
    "src/kskm/ksr/verify_bundles.py",
    "src/kskm/ksr/verify_policy.py",
    "src/kskm/signer/verify_chain.py",
    "src/kskm/signer/policy.py",
]


def flag_readers() -> list[tuple[str, list[str]]]:
    """for every boolean option of RequestPolicy: the functions (module.function) of the rule files whose body reads
    `<anything>.<option>` — which check consults which flag, by `ast`"""
    import ast

    from kskm.common.config_misc import RequestPolicy

    flags = [n for n, f in RequestPolicy.model_fields.items() if f.annotation is bool]
    readers: dict[str, set[str]] = {f: set() for f in flags}
    for rel in FLAG_READER_FILES:
        tree = ast.parse((REPO / rel).read_text())
        mod = Path(rel).stem
        for fn in [n for n in ast.walk(tree) if isinstance(n, (ast.FunctionDef, ast.AsyncFunctionDef))]:
            for node in ast.walk(fn):
                if isinstance(node, ast.Attribute) and node.attr in readers:
                    readers[node.attr].add(f"{mod}.{fn.name}")
    return [(f, sorted(readers[f])) for f in flags]


def dns_ttl_fallback() -> str:
    from kskm.common.config import KSKMConfig

    try:
        c = KSKMConfig.from_dict({"ksk_policy": {}, "request_policy": {"dns_ttl": 0}})
    except KeyError:
        return "none"
    return f"some {lint(c.request_policy.dns_ttl)}"


def section() -> list[str]:
    from kskm.common.config import KSKMConfig

    w = SchemaWalker(KSKMConfig)
    order = ["KSKMConfig", "RequestPolicy", "ResponsePolicy", "KSKPolicy", "SignaturePolicy", "KSKKey", "SchemaAction", "KSKMHSM", "KSKMFilenames"]
    names = order + sorted(n for n in w.models if n not in order)
    missing = [n for n in order if n not in w.models]
    if missing:
        raise ValueError(f"models not reachable from KSKMConfig: {missing}")
    out: list[str] = []
    out.append("/-- the configuration models reachable from KSKMConfig: model_json_schema() + model_fields + defaults -/")
    out.append("def configSchema : List ObjSchema := [")
    out.append(",\n".join(w.obj_schema(n) for n in names))
    out.append("]")
    out.append("/-- declared `mode=\"before\"` field validators: (model, validator, fields) -/")
    rows: dict[str, list[str]] = {"before": [], "after": []}
    for n in names:
        for vname, dec in w.models[n].__pydantic_decorators__.field_validators.items():
            rows[dec.info.mode].append(f"({lstr(n)}, {lstr(vname)}, [{', '.join(lstr(f) for f in dec.info.fields)}])")
    out.append("def configBeforeValidators : List (String × String × List String) := [" + ", ".join(rows["before"]) + "]")
    out.append("/-- declared `mode=\"after\"` field validators: (model, validator, fields); each one was PROBED by execution")
    out.append("    (tables_config.KNOWN_AFTER_VALIDATORS) before its per-field flag was written into `configSchema` -/")
    out.append("def configAfterValidators : List (String × String × List String) := [" + ", ".join(rows["after"]) + "]")
    out.append("/-- which rule function reads which boolean option of RequestPolicy (by `ast`) -/")
    out.append("def flagReaders : List (String × List String) := [")
    out.append(",\n".join(f"  ({lstr(f)}, [{', '.join(lstr(x) for x in fs)}])" for f, fs in flag_readers()))
    out.append("]")
    out.append("/-- behaviour switch (F15), by execution: KSKMConfig.from_dict({ksk_policy: {}, request_policy: {dns_ttl: 0}}) —")
    out.append("    none: KeyError 'ttl'; some t: loads with request_policy.dns_ttl = t -/")
    out.append(f"def dnsTtlFallback : Option Int := {dns_ttl_fallback()}")
    obs = observe_exit_statuses()
    out.append("/-- exit status of the real ksrsigner.main() (subprocess) per loader outcome, observed now -/")
    out.append("def exitStatusObserved : List (String × Int) := [" + ", ".join(f"({lstr(k)}, {lint(v)})" for k, v in obs) + "]")
    out.append("")
    return out


if __name__ == "__main__":
    print("\n".join(section()))
    sys.exit(0)
