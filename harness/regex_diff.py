"""Differential test: Python's `re` / `str` built-ins  vs.  the hand-written matchers of lean/Kskm/Xml.lean.

The reader of /repo matches three regular expressions with Python's backtracking engine; the model
replaces each by a deterministic scan (maximal word run, shortest whitespace prefix, first `>` / `"`
on the line …).  That characterisation is validated here on every run of C13 (and C12): adversarial
strings over a small alphabet of exactly the characters the expressions distinguish (angle brackets,
slashes, quotes, `=`, newline, ASCII and Unicode whitespace, ASCII and Unicode word characters) are
matched by `re.match(<literal taken from the repo source>, s)` and by the model ops `re_tag1`,
`re_tag2`, `re_attr`; `str.strip()` and `str.index(sub, start)` likewise (`strip`, `index`).
Any difference is a broken tie between model and code (a `disagreement`), never hidden.

Also here: the text codec of the package-D driver protocol (`hx`) and a parallel driver runner.
"""

from __future__ import annotations

import ast
import re
from concurrent.futures import ThreadPoolExecutor
from typing import Any

import lib
from lib import DRIVER as _CORE_DRIVER_PATH
from lib import REPO, DriverError, Result

DRIVER = "kskm_driver_pkgd"


def hx(s: str) -> str:
    """text -> lower-case hex of its UTF-8 octets (the driver protocol of package D)"""
    return s.encode("utf-8").hex()


def run_driver(lines: list[dict[str, Any]], exe: str = "kskm_driver_pkgd", timeout: float = 3000.0) -> list[Any]:
    """lib.run_driver, except that answers are split on "\\n" only: the model's answers carry text with
    U+0085, U+2028, VT, FF … verbatim, which `str.splitlines()` would take for line ends."""
    import json
    import subprocess

    if not lines:
        return []
    payload = "\n".join(json.dumps(x, separators=(",", ":")) for x in lines) + "\n"
    path = _CORE_DRIVER_PATH.parent / exe
    if not path.exists():
        raise DriverError(f"model driver not built: {path}")
    proc = subprocess.run([str(path)], input=payload.encode(), stdout=subprocess.PIPE, stderr=subprocess.PIPE, timeout=timeout, check=False)
    if proc.returncode != 0:
        raise DriverError(f"driver exit {proc.returncode}: {proc.stderr.decode()[:2000]}")
    out = [json.loads(x) for x in proc.stdout.decode().split("\n") if x.strip(" \r\t")]
    if len(out) != len(lines):
        raise DriverError(f"driver answered {len(out)} of {len(lines)} lines: {proc.stderr.decode()[:2000]}")
    return out


def drive(lines: list[dict[str, Any]], procs: int = 12, timeout: float = 3000.0) -> list[Any]:
    """Pipe the lines through `procs` driver processes in parallel, keeping order."""
    if not lines:
        return []
    procs = max(1, min(procs, (len(lines) + 199) // 200))
    if procs == 1:
        return run_driver(lines, exe=DRIVER, timeout=timeout)
    # interleave so that expensive neighbours are spread over the workers
    chunks = [lines[i::procs] for i in range(procs)]
    with ThreadPoolExecutor(procs) as ex:
        outs = list(ex.map(lambda c: run_driver(c, exe=DRIVER, timeout=timeout), chunks))
    res: list[Any] = [None] * len(lines)
    for i, out in enumerate(outs):
        res[i::procs] = out
    return res


PINNED_READER_REGEXES = ["<(\\w+?)(\\s+?)(.+?)(/*)>", "<(\\w+)>", '^(\\w+)="(.+?)"\\s*(.*)']


def _source_patterns() -> list[str]:
    """Every string literal handed to re.match / re.compile / re.search / re.fullmatch in xml_parser.py, in source order."""
    tree = ast.parse((REPO / "src/kskm/common/xml_parser.py").read_text())
    found: list[tuple[int, int, str]] = []
    for node in ast.walk(tree):
        if isinstance(node, ast.Call) and isinstance(node.func, ast.Attribute) and node.func.attr in ("match", "compile", "search", "fullmatch"):
            if isinstance(node.func.value, ast.Name) and node.func.value.id == "re" and node.args:
                a = node.args[0]
                if isinstance(a, ast.Constant) and isinstance(a.value, str):
                    found.append((node.lineno, node.col_offset, a.value))
    return [p for _, _, p in sorted(found)]


def _same_matcher(p: str, q: str, corpus: list[str]) -> bool:
    try:
        cp, cq = re.compile(p), re.compile(q)
    except re.error:
        return False
    if cp.groups != cq.groups:
        return False
    for s in corpus:
        a, b = cp.match(s), cq.match(s)
        if (a is None) != (b is None) or (a is not None and (a.groups() != b.groups() or a.end() != b.end())):
            return False
    return True


def reader_regexes() -> list[str]:
    """The three patterns the reader matches with (start tag with attributes, start tag without, attribute), in that order, as
    the source has them NOW.  Literals may have moved (inline `re.match(lit, …)` or module-level `re.compile(lit)`) and may have
    been rewritten into EQUIVALENT expressions: each pinned pattern is paired with the source literal that behaves like it on the
    differential corpus (`match` groups and end position on ~45 000 strings); if no such pairing exists the literals are returned
    as found (source order), and the differential run against the model's matchers then shows where they differ."""
    pats = _source_patterns()
    if pats[:3] == PINNED_READER_REGEXES and len(pats) == 3:
        return pats
    import random

    r = random.Random(20260926)
    corpus = FIXED_TAG + FIXED_ATTR + gen_strings(r, 20000, "tag") + gen_strings(r, 20000, "attr")
    paired: list[str] = []
    for pinned in PINNED_READER_REGEXES:
        hit = [q for q in pats if q not in paired and _same_matcher(pinned, q, corpus)]
        if not hit:
            return pats
        paired.append(hit[0])
    return paired


def reader_regexes_equivalent_to_pinned() -> bool:
    """True iff the source's patterns are the pinned ones or behave like them on the differential corpus."""
    got = reader_regexes()
    if got == PINNED_READER_REGEXES:
        return True
    import random

    r = random.Random(20260927)
    corpus = FIXED_TAG + FIXED_ATTR + gen_strings(r, 20000, "tag") + gen_strings(r, 20000, "attr")
    return len(got) == 3 and all(_same_matcher(a, b, corpus) for a, b in zip(PINNED_READER_REGEXES, got))


# characters the three expressions can tell apart, plus look-alikes
SPACES = [" ", " ", "\t", "\n", "\n", "\r", "\x0b", "\x0c", "\x1c", "\x1f", "\x85", "\xa0", " ", " ", " ", " ", "　"]
NOT_SPACES = ["​", "﻿", "\x00", "\x1b"]
WORDS = ["a", "Z", "9", "_", "k", "\xe9", "٣", "\xaa", "中", "\U0001d7d8", "\xb2"]
NOT_WORDS = ["-", ".", ":", "\xd7", "€", "\U0001f600"]
PUNCT = ["<", "<", ">", ">", "/", "/", "=", '"', '"', "'", "=\"", "/>", "</"]
ALPHABET = SPACES + NOT_SPACES + WORDS + NOT_WORDS + PUNCT


def gen_strings(r: Any, n: int, kind: str) -> list[str]:
    out: list[str] = []
    for _ in range(n):
        k = r.choice([0, 1, 2, 3, 4, 5, 6, 8, 10, 14, 20])
        body = "".join(r.choice(ALPHABET) for _ in range(k))
        mode = r.randrange(6)
        if kind == "tag":
            if mode <= 2:
                s = "<" + "".join(r.choice(WORDS) for _ in range(r.randrange(0, 4))) + body
            elif mode == 3:
                s = "<" + "".join(r.choice(WORDS) for _ in range(r.randrange(1, 3))) + "".join(r.choice(SPACES) for _ in range(r.randrange(1, 4))) + body + r.choice(["", ">", "/>", "//>", ">>"])
            else:
                s = body
        else:
            if mode <= 2:
                s = "".join(r.choice(WORDS) for _ in range(r.randrange(0, 3))) + r.choice(['="', '="', "=", '"', "='"]) + body
            elif mode == 3:
                s = "".join(r.choice(WORDS) for _ in range(r.randrange(1, 3))) + '="' + body + '"' + "".join(r.choice(SPACES) for _ in range(r.randrange(0, 3))) + "".join(r.choice(ALPHABET) for _ in range(r.randrange(0, 6)))
            else:
                s = body
        out.append(s)
    return out


FIXED_TAG = [
    "<a />", "<a/>", "<a >", "<a  >", "<a >>", "<a \n b>", "<a\n>", "<a \n>", "<a b/c//>", "<a //>", "<a ///", "<a>", "<a", "<", "", "<>", "< a>", "<a b>",
    "<a b=\"c\">", "<a b=\"c\"/>", "<a b=\"c\" />", "<a\tb>", "<a b>", "<a​b>", "<\xe9 x>", "<a_1 x>", "<a-b x>", "<a x\n>", "<a x>\n>", "<a >x</a>", "<KSR id='foo'>",
]
FIXED_ATTR = [
    'id="foo"', 'id="foo" domain="."', "id='foo'", 'id=""', 'id="" x="y"', "id", 'id="a\nb"', 'id="a" \n b="c"', 'id="a"\n\nb="c"\nd="e"', 'id="a" b="c"\nrest', 'id=""x"', '="x"', ' id="x"',
    'id ="x"', 'id= "x"', 'id="x', 'i\xe9="x"', 'a-b="x"', 'id="x"junk', 'id="x" y="z"', 'id="x"​y="z"', "/", 'id="\n"', 'id="""',
]


def run(res: Result, tier: str, tag: str = "regex") -> None:
    """Adds disagreements to `res`; bumps `regex_*` counters."""
    r = lib.rng(tag)
    pats = reader_regexes()
    if len(pats) != 3:
        res.disagreement("xml_parser.py no longer has exactly three re.match literals", {"patterns": pats}, pats, None)
        return
    p_tag1, p_tag2, p_attr = (re.compile(p) for p in pats)
    n = 20000 if tier == "quick" else 400000
    tags = FIXED_TAG + gen_strings(r, n, "tag")
    attrs = FIXED_ATTR + gen_strings(r, n, "attr")
    lines: list[dict[str, Any]] = []
    expect: list[tuple[str, str, Any]] = []

    def grp(m: Any) -> Any:
        return None if m is None else list(m.groups())

    for s in tags:
        lines.append({"op": "re_tag1", "s": hx(s)})
        expect.append(("re_tag1", s, grp(p_tag1.match(s))))
        lines.append({"op": "re_tag2", "s": hx(s)})
        expect.append(("re_tag2", s, grp(p_tag2.match(s))))
    for s in attrs:
        lines.append({"op": "re_attr", "s": hx(s)})
        expect.append(("re_attr", s, grp(p_attr.match(s))))
    for s in (tags + attrs)[:: 4 if tier == "quick" else 2]:
        lines.append({"op": "strip", "s": hx(s)})
        expect.append(("strip", s, s.strip()))
        pat = r.choice(["<a>", "</a>", "<a ", "<", ">", "a", '"', "<KSR"])
        start = r.choice([0, 0, 1, 2, 5, len(s), len(s) + 1])
        lines.append({"op": "index", "s": hx(s), "pat": hx(pat), "start": start})
        try:
            want: Any = s.index(pat, start)
        except ValueError:
            want = None
        expect.append(("index", s, want))
    model = drive(lines)
    for (what, s, want), got in zip(expect, model):
        res.evaluations += 1
        res.bump("regex_" + what)
        if want is not None:
            res.bump("regex_" + what + "_matched")
        if got != want:
            res.disagreement(f"{what}: model matcher != Python", {"op": what, "s": s, "s_hex": hx(s)}, want, got)
    # the classes themselves: every code point of the alphabet and a sweep
    cps = sorted({ord(c) for c in "".join(ALPHABET)} | set(range(0, 0x3100, 7)) | {0xD7FF, 0xE000, 0x10FFFF})
    cps = [c for c in cps if not 0xD800 <= c <= 0xDFFF]
    cl = drive([{"op": "classes", "c": c} for c in cps])
    for c, got in zip(cps, cl):
        ch = chr(c)
        want = {"word": re.match(r"\w", ch) is not None, "space": re.match(r"\s", ch) is not None, "strip": ch.strip() == ""}
        res.evaluations += 1
        res.bump("regex_classes")
        if got != want:
            res.disagreement("character class table != running Python", {"op": "classes", "c": c}, want, got)


if __name__ == "__main__":
    import sys

    rr = Result("regex")
    run(rr, sys.argv[1] if len(sys.argv) > 1 else "quick")
    print(rr.evaluations, rr.stats, len(rr.disagreements))
    for d in rr.disagreements[:10]:
        print(d)
