"""C20 correspondence: the KSR receiver confines uploads, admits listed clients, judges like the signer.

fastapi / starlette are not installed; harness/wksr_stubs.py injects stub modules for the names
kskm/wksr/server.py imports, and the REAL `save_ksr`, `ClientCertificateWhitelist.dispatch` and
`validate_ksr` are called with fake app / request / upload objects (real DER certificates, a real
temporary upload directory).  Three verdicts per case: implementation, Lean model driver, and an
independent oracle written here from the property text.

  upload    client file names (separators, dot-dot, NUL, unicode incl. non-BMP / combining /
            fullwidth digits / lone surrogates, empty, only-unsafe, 10 kB, None, non-str; HOSTILE ENDS:
            a body of safe characters only + each of 21 single unsafe characters — newline, CR, space,
            NUL, dot, slash, backslash, tab, U+2028/2029, VT, FF, NEL, FS, NBSP, `$`, `^`, … — at the
            start / the end / both ends / doubled / inside, CR LF, the character alone) x sizes
            {None, 0, max-1, max, max+1, huge} x content types {right, wrong, None, case variant,
            with parameters}: the written path's parent is the upload directory, its name is made of
            safe characters + timestamp + ".xml", the file holds exactly the body, NOTHING else is
            created (tree snapshot of the upload dir, a sibling dir and their parent before / after);
            a rejected upload has the exact status, leaves the tree untouched and the body unread.
  whitelist real self-signed certificates: listed / not listed / empty list / upper-case entry /
            no TLS object / no client certificate / garbage DER: reaches the handler iff listed.
  verdict   validate_ksr on /repo's archived KSRs and broken files, under ksrsigner configurations
            whose POLICY is perturbed one rule at a time, with and without a previous SKR: status vs
            what load_ksr + check_skr_and_ksr(p11modules=None) say themselves vs the model's composition.
            CONFIGURATION SECTIONS: num_bundles / validate_signatures occur in request_policy and in
            response_policy; 4 request x 4 response settings (equal and different) x previous SKR honest /
            first- / last-bundle signature bit-flipped, and a bit-flipped upload: the previous SKR is judged
            by the response policy (load_skr), the upload by the request policy.
  history   HISTORIES in one process: sequences of 2..5 uploads handled by the same long-lived module
            state (real WKSR application objects built by WKSR.from_file from a real wksr.yaml) while,
            BETWEEN the uploads, the content of the file named by filenames.previous_skr is replaced
            (the next quarter's SKR, an older one, a damaged one, removed, restored), ksrsigner.yaml
            is rewritten (policy tightened / relaxed, chain checks toggled, previous_skr re-pointed /
            unset / set, response policy), wksr.yaml is rewritten (whitelist shrunk / restored, size
            limit, content type) and the upload directory is emptied or overwritten; also the same
            KSR twice, A-B-A, refused-then-good, two clients in turn.  30 written histories + random
            ones.  Every step — whitelist decision, storage, verdict — is compared with (1) the
            property's text on the configuration in force now, (2) the signer's own functions on the
            files as they are now, (3) a FRESH interpreter (harness/wksr_fresh.py, one new process
            per step, never reused) given the same client and the same stored file at that moment,
            (4) the model.  Nothing the receiver answered earlier may influence an answer.
  config    (harness/c20_receiver.py) the real pydantic models of config_wksr.py on generated wksr.yaml documents (tls: files,
            require_client_cert spellings / absent, whitelist spellings; ksr: max_size around 0 and 1 MiB, paths, signer
            configuration file), the whitelist entry validator on ~80 strings, the REAL kskm.tools.wksr.main() with a
            recording uvicorn.run (harness/wksr_main.py) x argv variants: what the TLS server is told; the real
            request_peercert_digest on real certificates.
  route     (harness/c20_receiver.py) the real middleware with call_next = the real upload_post (save_ksr + validate_ksr +
            notify + result page): 7 kinds of peer x 18 kinds of upload x 4 notification set-ups; outcome, files created,
            body reads and the ORDER of events against the model's handleUpload and the property's text.
"""

from __future__ import annotations

import asyncio
import contextlib
import hashlib
import itertools
import os
import tempfile
from datetime import datetime, timezone
from pathlib import Path
from typing import Any

import lib
import wksr_stubs
from lib import REPO, Result, hexs, run_driver, same_outcome

DRIVER = "kskm_driver_pkgc"

ASSUMPTIONS = [
    "configuration model: values of the declared type or absent keys are modelled (loadTls / loadKsrSection); pydantic's lax coercions of other types ('yes', 1, '5', 2.0) are answered `unsupported` and judged by the specification only; "
    "FilePath existence, the YAML parser and EmailStr are parameters / not modelled",
    "route: request_peercert_client_subject fails exactly when request_peercert_digest fails (both start with request_peercert); template rendering + SMTP hand-off is one parameter `mailOk`",
    "UploadFile.size is the number of body octets (starlette computes it while spooling the part); the gate is on that number",
    "bool(x509.Certificate) is True (the class defines neither __bool__ nor __len__; asserted on the real class in this run), so the "
    "`digest is None` pass-through branch of dispatch is unreachable",
    "the upload directory exists, is writable and contains no attacker-made symlinks; timestamps have the strftime('_%Y%m%d_%H%M%S_%f') shape",
    "validate_ksr's XML parser and signature verifier are parameters of the model (C12/C13/C07); their answers are passed as oracle",
    "histories: the receiver reads wksr.yaml when it starts (WKSR.from_file), so a rewritten wksr.yaml takes effect through a new application object in the SAME interpreter "
    "(module state survives); ksrsigner.yaml and the previous SKR are read by validate_ksr on every upload, so their changes must take effect at once",
    "histories: the clock of the horizon rule is pinned (5 days before the first inception of the 2017-Q2 KSR) in the long-lived and in the fresh interpreters alike; the upload clock advances between steps",
]
TRUSTED = [
    "harness/wksr_main.py stands in for uvicorn (`uvicorn.run` records its keyword arguments, `HttpToolsProtocol` is an empty class): that the TLS stack honours ssl_cert_reqs / ssl_ca_certs / ssl_ciphers is not exercised",
    "route stream: Jinja2 templates and smtplib.SMTP are replaced by recorders (what is rendered / sent is not part of C20; WHETHER and WHEN it happens is compared)",
    "harness/wksr_stubs.py stands in for fastapi / starlette (HTTPException, status codes, base classes); TLS, ASGI and multipart parsing are not exercised",
    "pathlib.PurePosixPath joining semantics (modelled in Kskm/Wksr.lean, compared on random strings)",
    "harness/wksr_fresh.py: a new CPython process per history step as the reference for 'no influence of earlier uploads' (same stubs, same fake request objects)",
]

SAFE = set("abcdefghijklmnopqrstuvwxyzABCDEFGHIJKLMNOPQRSTUVWXYZ0123456789_-")
WHEN = datetime(2026, 9, 26, 12, 34, 56, 789012, tzinfo=timezone.utc)
SUFFIX = "_20260926_123456_789012"


def cps(s: str) -> list[int]:
    return [ord(c) for c in s]


def oracle_wash(s: str) -> str:
    """Every maximal run of characters outside [A-Za-z0-9_-] becomes one underscore (no `re`)."""
    out = []
    for safe, grp in itertools.groupby(s, key=lambda ch: ch in SAFE):
        out.append("".join(grp) if safe else "_")
    return "".join(out)


def name_fits(fn: Any) -> bool:
    """Linux NAME_MAX: a path component of more than 255 octets cannot be created (oracle for `open`)."""
    return len((oracle_wash(str(fn)) + SUFFIX + ".xml").encode()) <= 255


def snapshot(root: Path) -> dict[str, Any]:
    snap: dict[str, Any] = {}
    for dirpath, dirnames, filenames in os.walk(root, followlinks=False):
        for n in dirnames:
            p = Path(dirpath) / n
            snap[str(p.relative_to(root)) + "/"] = "link" if p.is_symlink() else "dir"
        for n in filenames:
            p = Path(dirpath) / n
            snap[str(p.relative_to(root))] = "link" if p.is_symlink() else hashlib.sha256(p.read_bytes()).hexdigest()
    return snap


# bodies made of safe characters only (what a shortcut for "already safe" names lets through) …
SAFE_BODIES = ["ksr-root-2030-q1", "x", "KSR_1", "-", "_", "0", "a" * 200]
# … and the single characters that are NOT safe, by the name used in the counters
UNSAFE_SINGLE = [
    ("newline", "\n"), ("cr", "\r"), ("space", " "), ("nul", "\x00"), ("dot", "."), ("slash", "/"), ("backslash", "\\"), ("tab", "\t"),
    ("u2028", "\u2028"), ("u2029", "\u2029"), ("vtab", "\x0b"), ("formfeed", "\x0c"), ("nel", "\x85"), ("fs", "\x1c"), ("nbsp", "\xa0"),
    ("dollar", "$"), ("caret", "^"), ("colon", ":"), ("e-acute", "\u00e9"), ("fullwidth-digit", "\uff11"), ("del", "\x7f"),
]


def hostile_ends(body: str, ch: str) -> list[tuple[str, str]]:
    """(position, name): the unsafe character once at the start, at the end, at both ends; doubled at the end and at the start;
    CR LF at the end for the newline; once inside."""
    out = [("start", ch + body), ("end", body + ch), ("both", ch + body + ch), ("end-doubled", body + ch + ch), ("start-doubled", ch + ch + body), ("inside", body[: len(body) // 2] + ch + body[len(body) // 2 :] if len(body) > 1 else body + ch + body)]
    if ch == "\n":
        out += [("end-crlf", body + "\r\n"), ("end-after-extension", body + ".xml\n")]
    return out


def filenames(r: Any, tier: str) -> list[tuple[str, Any]]:
    out: list[tuple[str, Any]] = [
        ("plain", "ksr-root-2026-q1-0.xml"),
        ("safe-only", "Abc_123-xyz"),
        ("empty", ""),
        ("none", None),
        ("int", 12345),
        ("dot", "."),
        ("dotdot", ".."),
        ("dotdot-slash", "../../../../etc/passwd"),
        ("abs", "/etc/cron.d/evil"),
        ("abs2", "//etc//passwd"),
        ("backslash", "..\\..\\windows\\system32\\x.xml"),
        ("drive", "C:\\x.xml"),
        ("nul", "a\x00b.xml"),
        ("nul-only", "\x00"),
        ("nul-trunc", "good.xml\x00/../../evil"),
        ("newline", "a\nb\r\nc\td"),
        ("space", "  leading and trailing  "),
        ("only-unsafe", "/////"),
        ("only-unsafe-mixed", "/.\\ \x00\u00e9"),
        ("unsafe-ends", "//a//"),
        ("alternating", "a/b/c/d/e"),
        ("hyphen-underscore", "-_-_-"),
        ("percent", "%2e%2e%2f%2e%2e%2fetc"),
        ("tilde", "~root/.ssh/authorized_keys"),
        ("shell", "$(reboot);`id`|x>y&z"),
        ("unicode-letters", "r\u00e9sum\u00e9-\u0416\u0443\u043a-\u6f22\u5b57.xml"),
        ("fullwidth-digits", "\uff11\uff12\uff13.xml"),
        ("arabic-digits", "\u0661\u0662\u0663"),
        ("fullwidth-solidus", "a\uff0fb\u2215c\u2044d"),
        ("combining", "e\u0301a\u0308"),
        ("non-bmp", "\U0001f600\U00010348x\U0010ffff"),
        ("lone-surrogate", "a\ud800b\udfffc"),
        ("kelvin-sign", "\u212a\u017f"),  # case-fold to k / s under IGNORECASE (not used by the code)
        ("rtl-override", "x\u202exml.exe"),
        ("long-safe", "a" * 10240),
        ("long-unsafe", "/" * 10240),
        ("long-mixed", "a/" * 5120),
        ("long-dotdot", "../" * 3413),
    ]
    # HOSTILE ENDS: a body of safe characters only, with ONE unsafe character at the start / at the end / at both ends,
    # doubled, and inside (every name an "is it safe already?" shortcut, an anchored pattern, a strip() or a basename()
    # could get wrong: `$` before a final newline, `\\s`, `\\w`, line and paragraph separators, NUL, path separators)
    bodies = SAFE_BODIES if tier != "quick" else SAFE_BODIES[:3]
    for bi, body in enumerate(bodies):
        for cname, ch in UNSAFE_SINGLE:
            for pos, name in hostile_ends(body, ch):
                out.append((f"hostile:{pos}:{cname}:{bi}", name))
    for cname, ch in UNSAFE_SINGLE:  # no body at all: the unsafe character alone, doubled
        out.append((f"hostile:alone:{cname}", ch))
        out.append((f"hostile:alone-doubled:{cname}", ch + ch))
    alphabet = list("abzAZ09_-") + list("/\\. \x00\n:;%~$") + ["\u00e9", "\u0416", "\uff11", "\u0301", "\U0001f600", "\ud800", "\u212a"]
    for k in range(60 if tier == "quick" else 600):
        n = r.choice([1, 2, 3, 5, 8, 20, 60])
        out.append((f"random:{k}", "".join(r.choice(alphabet) for _ in range(n))))
    return out


def stream_upload(res: Result, tier: str, driver_ok: bool) -> None:
    server = wksr_stubs.load_server()
    HTTPException = wksr_stubs.http_exception_class()
    r = lib.rng("C20:upload")
    MAXS = 4096
    CT = "application/xml"
    sizes: list[tuple[str, Any]] = [("none", None), ("zero", 0), ("max-1", MAXS - 1), ("max", MAXS), ("max+1", MAXS + 1), ("huge", 10**12), ("small", 7)]
    ctypes: list[tuple[str, Any]] = [("right", CT), ("wrong", "text/plain"), ("none", None), ("case", "Application/XML"), ("params", "application/xml; charset=utf-8"), ("empty", "")]
    fns = filenames(r, tier)
    plan: list[dict[str, Any]] = []
    # every file name with a passing upload
    for ftag, fn in fns:
        plan.append({"ftag": ftag, "fn": fn, "stag": "small", "size": 7, "ctag": "right", "ct": CT, "dir": "ok"})
    # every size x every content type, on a few file names
    for (stag, size), (ctag, ct) in itertools.product(sizes, ctypes):
        for ftag, fn in [fns[0], fns[7], fns[12]]:
            plan.append({"ftag": ftag, "fn": fn, "stag": stag, "size": size, "ctag": ctag, "ct": ct, "dir": "ok"})
    # upload directory missing / relative
    for ftag, fn in [fns[0], fns[7]]:
        plan.append({"ftag": ftag, "fn": fn, "stag": "small", "size": 7, "ctag": "right", "ct": CT, "dir": "missing"})
        plan.append({"ftag": ftag, "fn": fn, "stag": "small", "size": 7, "ctag": "right", "ct": CT, "dir": "relative"})
        plan.append({"ftag": ftag, "fn": fn, "stag": "max+1", "size": MAXS + 1, "ctag": "right", "ct": CT, "dir": "missing"})

    cases = []
    lines = []
    with tempfile.TemporaryDirectory(prefix="kskm_c20_") as top:
        root = Path(top).resolve()
        (root / "upload").mkdir()
        (root / "sibling").mkdir()
        (root / "sibling" / "precious.txt").write_text("do not touch")
        (root / "upload" / "earlier_upload.xml").write_text("<KSR/>")
        with wksr_stubs.FixedClock(server, WHEN):
            for p in plan:
                if p["size"] is None or p["size"] > 10**6:
                    body = b"<KSR>x</KSR>"
                else:
                    body = r.randbytes(p["size"]) if p["size"] else b""
                if p["dir"] == "ok":
                    updir: Path = root / "upload"
                elif p["dir"] == "missing":
                    updir = root / "no-such-dir"
                else:
                    updir = Path("upload")
                app = wksr_stubs.FakeApp(wksr_stubs.FakeConfig(wksr_stubs.FakeKsrConfig(MAXS, CT, updir)))
                up = wksr_stubs.FakeUpload(p["fn"], p["ct"], p["size"], body)
                before = snapshot(root)
                cwd = os.getcwd()
                if p["dir"] == "relative":
                    os.chdir(root)
                try:
                    try:
                        ret = asyncio.run(server.save_ksr(app, up))
                        out: Any = {"ok": [str(ret[0]), ret[1]]}
                    except HTTPException as e:  # type: ignore[misc]
                        out = {"http": e.status_code}
                    except OSError:
                        out = {"error": "os"}
                    except Exception as e:  # noqa: BLE001
                        out = {"error": lib.error_kind(e)}
                finally:
                    os.chdir(cwd)
                after = snapshot(root)
                created = sorted(set(after) - set(before))
                changed = sorted(k for k in before if after.get(k) != before[k])
                cases.append({"p": p, "body": body, "out": out, "created": created, "changed": changed, "reads": up.reads, "updir": updir, "root": root, "after": after})
                # remove what this upload created, so that name collisions between cases (pinned clock) stay visible
                for c in created:
                    with contextlib.suppress(OSError):
                        (root / c).unlink()
                fn = p["fn"]
                lines.append(
                    {
                        "op": "save_ksr", "cfgContentType": CT, "maxSize": MAXS, "uploadDir": cps(str(updir)),
                        "contentType": p["ct"], "size": p["size"], "filename": None if fn is None else cps(str(fn)),
                        "body": hexs(body), "suffix": cps(SUFFIX), "openOk": p["dir"] != "missing" and name_fits(fn), "hashHex": hashlib.sha256(body).hexdigest(),
                    }
                )
    model = run_driver(lines, exe=DRIVER) if driver_ok else [None] * len(lines)
    for c, m in zip(cases, model):
        p = c["p"]
        fn = p["fn"]
        case = {
            "stream": "upload", "filename": None if fn is None else (repr(fn) if len(str(fn)) <= 80 else f"{p['ftag']} ({len(str(fn))} chars)"),
            "filename_codepoints": None if fn is None or len(str(fn)) > 80 else cps(str(fn)),
            "size": p["size"], "content_type": p["ct"], "upload_dir": p["dir"],
        }
        res.count(case)
        res.bump("upload:name:" + p["ftag"].split(":")[0])
        if p["ftag"].startswith("hostile:"):
            res.bump("upload:hostile-ends:position:" + p["ftag"].split(":")[1])
            res.bump("upload:hostile-ends:character:" + p["ftag"].split(":")[2])
        res.bump(f"upload:size:{p['stag']}")
        res.bump(f"upload:ctype:{p['ctag']}")
        out = c["out"]
        res.bump("upload:outcome:" + ("stored" if "ok" in out else str(out.get("http") or out.get("error"))))
        root: Path = c["root"]
        obs = {"out": out, "created": c["created"], "changed": c["changed"], "body_reads": c["reads"]}
        # ---- the property, from its text
        if p["ct"] != CT:
            want: Any = {"http": 400}
        elif p["size"] is None:
            want = {"http": 400}
        elif p["size"] > MAXS:
            want = {"http": 413}
        elif p["dir"] == "missing" or not name_fits(fn):
            # the operating system refuses the open (no such directory / ENAMETOOLONG): an OSError leaves save_ksr
            # (HTTP 500 in the real stack); the property asks that nothing is written anywhere
            want = {"error": "os"}
            if p["dir"] != "missing":
                res.bump("upload:name-longer-than-NAME_MAX -> unhandled OSError, nothing written")
        else:
            want = "stored"
        if c["changed"]:
            res.violation("save_ksr modified a pre-existing file", case, key="upload:changed", observed=obs)
        if want != "stored":
            if out != want:
                res.violation("save_ksr: a gate did not answer with its status", case, key=f"upload:gate:{p['ctag']}:{p['stag']}", observed=obs, expected=want)
            if c["created"]:
                res.violation("save_ksr wrote something for a rejected upload", case, key="upload:rejected-write", observed=obs, expected=want)
            if c["reads"] and "http" in want:
                res.violation("save_ksr read the body of an upload it rejects", case, key="upload:rejected-read", observed=obs)
        else:
            if "ok" not in out:
                res.violation("save_ksr refused an upload that passes all gates", case, key="upload:refused", observed=obs)
            else:
                path = Path(out["ok"][0])
                absolute = path if path.is_absolute() else root / path
                updir_abs = c["updir"] if c["updir"].is_absolute() else root / c["updir"]
                name = path.name
                want_name = oracle_wash(str(fn)) + SUFFIX + ".xml"
                rel = os.path.relpath(os.path.realpath(absolute), os.path.realpath(updir_abs))
                if path.parent != c["updir"] or os.sep in rel or rel.startswith("..") or os.path.realpath(absolute.parent) != os.path.realpath(updir_abs):
                    res.violation("save_ksr stored the upload outside its upload directory", case, key="upload:confinement", observed=obs)
                if not set(name) <= (SAFE | set(".")) or name != want_name:
                    res.violation("save_ksr: stored name is not the washed name + timestamp + .xml", case, key="upload:name", observed=obs, expected_name=want_name)
                expect_created = [str(absolute.relative_to(root))]
                if c["created"] != expect_created:
                    res.violation("save_ksr created something other than the one upload file", case, key="upload:created", observed=obs, expected=expect_created)
                elif c["after"].get(expect_created[0]) != hashlib.sha256(c["body"]).hexdigest():
                    res.violation("save_ksr: stored content is not the body", case, key="upload:content", observed=obs)
                if out["ok"][1] != hashlib.sha256(c["body"]).hexdigest():
                    res.violation("save_ksr: returned hash is not the SHA-256 of the body", case, key="upload:hash", observed=obs)
        # ---- the tie to the model
        if m is not None:
            mr = m["result"]
            if "ok" in mr:
                mcanon: Any = {"ok": ["".join(map(chr, mr["ok"]["path"])), mr["ok"]["hash"]]}
            else:
                mcanon = mr
            m_writes = [e for e in m["effects"] if e["e"] == "write"]
            i_writes = 1 if ("ok" in out) else 0
            m_reads = sum(1 for e in m["effects"] if e["e"] == "readBody")
            if mcanon != out or len(m_writes) != i_writes or m_reads != c["reads"]:
                res.disagreement("save_ksr: model != implementation", case, obs, {"result": mcanon, "writes": len(m_writes), "reads": m_reads})
            elif "ok" in mr and "".join(map(chr, mr["ok"]["parent"])) != str(c["updir"]):
                res.disagreement("save_ksr: model parent != upload directory", case, str(c["updir"]), "".join(map(chr, mr["ok"]["parent"])))
        if len(res.samples) < 2 and p["ftag"] in ("dotdot-slash", "lone-surrogate") and p["stag"] == "small" and p["ctag"] == "right" and p["dir"] == "ok":
            msample = None
            if m is not None and "ok" in m["result"]:
                msample = {k: ("".join(map(chr, v)) if isinstance(v, list) else v) for k, v in m["result"]["ok"].items()}
            res.sample({"case": {k: v for k, v in case.items() if k != "filename_codepoints"}, "observed": obs, "model": msample})

    # pathlib joining on arbitrary strings (the model of `/` and `.parent` used by path_confined)
    from pathlib import PurePosixPath

    plines = []
    pcases = []
    palpha = list("ab.") + ["/", "/", ".."]
    for k in range(300 if tier == "quick" else 3000):
        a = "".join(r.choice(palpha) for _ in range(r.randrange(0, 7)))
        b = "".join(r.choice(palpha) for _ in range(r.randrange(0, 7)))
        pcases.append((a, b))
        plines.append({"op": "path_join", "dir": cps(a), "name": cps(b)})
    pm = run_driver(plines, exe=DRIVER) if driver_ok else [None] * len(plines)
    for (a, b), m in zip(pcases, pm):
        case = {"stream": "upload", "pathlib": [a, b]}
        res.count(case, nontrivial=False)
        res.bump("upload:pathlib-join")
        if m is None:
            continue
        if lib.is_unsupported(m):
            res.unsupported += 1
            continue
        p = PurePosixPath(a) / PurePosixPath(b)
        got = {"render": "".join(map(chr, m["path"]["render"])), "parent": "".join(map(chr, m["parent"])), "name": "".join(map(chr, m["name"]))}
        want_p = {"render": str(p), "parent": str(p.parent), "name": p.name}
        if str(p) in ("/", ".") and got["render"] == want_p["render"]:
            continue  # parent of a root / empty path is itself in pathlib; not used by the model's theorems
        if got != want_p:
            res.disagreement("pathlib join: model != PurePosixPath", case, want_p, got)


def stream_whitelist(res: Result, tier: str, driver_ok: bool) -> None:
    from cryptography.hazmat.primitives import hashes
    from cryptography.x509 import Certificate, load_der_x509_certificate

    server = wksr_stubs.load_server()
    HTTPException = wksr_stubs.http_exception_class()
    truthy_by_class = not hasattr(Certificate, "__bool__") and not hasattr(Certificate, "__len__")
    if not truthy_by_class:
        res.violation(
            "x509.Certificate defines __bool__/__len__: the `digest is None` pass-through of dispatch may be reachable (assumption of C20.digest_never_none)",
            {"stream": "whitelist", "class": str(Certificate)}, key="whitelist:truthy",
        )
    ncerts = 4 if tier == "quick" else 10
    certs = [wksr_stubs.make_cert(f"client-{i}", i, ec=(i != 0)) for i in range(ncerts)]
    fps = [hashlib.sha256(c).hexdigest() for c in certs]
    peers: list[tuple[str, Any]] = [(f"cert{i}", c) for i, c in enumerate(certs)]
    peers += [("noTls", "noTls"), ("noCert", "noCert"), ("garbage", b"not a certificate"), ("empty-der", b""), ("trailing", certs[0] + b"\x00"), ("truncated", certs[0][:-1])]
    lists: list[tuple[str, list[str]]] = [
        ("empty", []),
        ("only-0", [fps[0]]),
        ("only-1", [fps[1]]),
        ("all", list(fps)),
        ("all-but-0", fps[1:]),
        ("upper-0", [fps[0].upper()]),
        ("prefix-0", [fps[0][:32]]),
        ("longer-0", [fps[0] + "00"]),
        ("colon-0", [":".join(fps[0][i : i + 2] for i in range(0, 64, 2))]),
        ("spki-0", []),
    ]
    # the SPKI digest of cert 0 (another fingerprint one could confuse it with) must not admit
    from cryptography.hazmat.primitives import serialization

    c0 = load_der_x509_certificate(certs[0])
    spki = hashlib.sha256(c0.public_key().public_bytes(serialization.Encoding.DER, serialization.PublicFormat.SubjectPublicKeyInfo)).hexdigest()
    lists[-1] = ("spki-0", [spki])

    mw = server.ClientCertificateWhitelist(None)
    cases = []
    lines = []
    for (ptag, peer), (ltag, wl) in itertools.product(peers, lists):
        app = wksr_stubs.FakeApp(wksr_stubs.FakeConfig(wksr_stubs.FakeKsrConfig(1, "x", Path(".")), wksr_stubs.FakeTls(wl)))
        req = wksr_stubs.FakeRequest(app, peer)
        reached = []

        async def call_next(rq: Any) -> str:
            reached.append(rq)
            return "handler-response"

        try:
            ret = asyncio.run(mw.dispatch(req, call_next))
            out: Any = "callNext" if (reached and ret == "handler-response") else {"error": "returned-without-handler"}
        except HTTPException as e:  # type: ignore[misc]
            out = {"http": e.status_code}
        except Exception as e:  # noqa: BLE001
            out = {"error": lib.error_kind(e)}
        if reached and out != "callNext":
            out = {"error": "handler-reached-then-failed"}
        # oracle answers for the model
        parse_ok = False
        truthy = True
        fp_real = ""
        if isinstance(peer, bytes):
            try:
                cobj = load_der_x509_certificate(peer)
                parse_ok = True
                truthy = bool(cobj)
                fp_real = hexs(cobj.fingerprint(hashes.SHA256()))
            except Exception:  # noqa: BLE001
                parse_ok = False
        cases.append({"ptag": ptag, "ltag": ltag, "peer": peer, "wl": wl, "out": out, "parse_ok": parse_ok, "fp_real": fp_real})
        line: dict[str, Any] = {"op": "dispatch", "parseOk": parse_ok, "truthy": truthy, "fingerprint": fp_real, "whitelist": wl}
        if isinstance(peer, bytes):
            line.update({"peer": "der", "der": hexs(peer)})
        else:
            line.update({"peer": peer})
        lines.append(line)
    model = run_driver(lines, exe=DRIVER) if driver_ok else [None] * len(lines)
    for c, m in zip(cases, model):
        peer = c["peer"]
        case = {"stream": "whitelist", "peer": c["ptag"], "whitelist": c["ltag"], "list": c["wl"], "der_sha256": hashlib.sha256(peer).hexdigest() if isinstance(peer, bytes) else None}
        res.count(case)
        res.bump("whitelist:peer:" + ("cert" if c["ptag"].startswith("cert") else c["ptag"]))
        res.bump("whitelist:list:" + c["ltag"])
        out = c["out"]
        res.bump("whitelist:outcome:" + (out if isinstance(out, str) else str(out.get("http") or "exception")))
        # ---- the property: admitted iff a certificate was presented whose SHA-256 fingerprint (hex of the DER digest) is listed
        listed = isinstance(peer, bytes) and c["parse_ok"] and hashlib.sha256(peer).hexdigest() in c["wl"]
        if listed and out != "callNext":
            res.violation("a listed client was refused", case, key="whitelist:listed-refused", observed=out)
        if not listed:
            if out == "callNext":
                res.violation("a client that is not on the whitelist reached the handler", case, key="whitelist:unlisted-admitted", observed=out)
            elif isinstance(peer, bytes) and c["parse_ok"] and out != {"http": 403}:
                res.violation("an unlisted certificate was not answered with 403", case, key="whitelist:status", observed=out)
        if c["parse_ok"] and c["fp_real"] != hashlib.sha256(peer).hexdigest():
            res.violation("certificate fingerprint is not the SHA-256 of the DER encoding", case, key="whitelist:fingerprint", observed=c["fp_real"])
        if m is not None:
            mo = m if isinstance(m, str) else ({"http": m["http"]} if "http" in m else m)
            if not (mo == out or same_outcome(out, mo)):
                res.disagreement("dispatch: model != implementation", case, out, mo)
        if len(res.samples) < 4 and c["ptag"] == "cert0" and c["ltag"] in ("only-0", "upper-0"):
            res.sample({"case": case, "impl": out, "model": m})


# --------------------------------------------------------------------------------------
# verdict
# --------------------------------------------------------------------------------------

BASE_POLICY: dict[str, Any] = {
    "rsa_approved_key_sizes": [1024, 2048],
    "rsa_approved_exponents": [3, 65537],
}

PERTURB: list[tuple[str, dict[str, Any]]] = [
    ("base", {}),
    ("num_bundles-8", {"num_bundles": 8}),
    ("domain", {"acceptable_domains": ["example."]}),
    ("approved_algorithms", {"approved_algorithms": ["RSASHA512"]}),
    ("key_sizes", {"rsa_approved_key_sizes": [4096]}),
    ("exponents", {"rsa_approved_exponents": [17]}),
    ("min_cycle", {"min_cycle_inception_length": "P85D"}),
    ("max_cycle", {"max_cycle_inception_length": "P70D", "min_cycle_inception_length": "P60D"}),
    ("max_interval", {"max_bundle_interval": "P9DT23H", "min_bundle_interval": "P1D"}),
    ("min_interval", {"min_bundle_interval": "P10DT1S"}),
    ("keys_per_bundle", {"num_keys_per_bundle": [1, 1, 1, 1, 1, 1, 1, 1, 1]}),
    ("different_keys", {"num_different_keys_in_all_bundles": 2}),
    ("horizon-on", {"signature_check_expire_horizon": True, "signature_horizon_days": 180}),
    ("horizon-1day", {"signature_check_expire_horizon": True, "signature_horizon_days": 1}),
    ("no-signatures", {"validate_signatures": False}),
    ("flags-off", {"check_cycle_length": False, "check_bundle_overlap": False, "check_bundle_intervals": False, "signature_validity_match_zsk_policy": False, "check_keys_match_ksk_operator_policy": False, "keys_match_zsk_policy": False, "signature_algorithms_match_zsk_policy": False}),
    ("num_bundles-8+flags-off", {"num_bundles": 8, "check_cycle_length": False, "check_keys_match_ksk_operator_policy": False}),
    ("chain-keys-off", {"check_chain_keys": False}),
    ("chain-overlap-off", {"check_chain_overlap": False}),
    ("chain-off", {"check_chain_keys": False, "check_chain_overlap": False}),
]


def _flip_after(doc: bytes, marker: bytes) -> bytes:
    """Exchange the first base64 character after `marker` for another one (same length)."""
    i = doc.index(marker) + len(marker)
    return doc[:i] + (b"B" if doc[i : i + 1] == b"A" else b"A") + doc[i + 1 :]


def signer_says(cfg_path: Path | None, ksr_path: Path) -> tuple[Any, dict[str, Any]]:
    """The signer's own functions on the files as they are NOW, called the way ksrsigner calls them but token-less:
    get_config, load_skr (previous SKR, if one is configured), load_ksr, check_skr_and_ksr(p11modules=None)."""
    from kskm.common.config import get_config
    from kskm.common.validate import PolicyViolation
    from kskm.ksr import load_ksr
    from kskm.signer.policy import check_skr_and_ksr
    from kskm.skr import load_skr

    exp: Any
    parts: dict[str, Any] = {}
    try:
        config = get_config(cfg_path)
        parts["config"] = "ok"
        try:
            prev = load_skr(config.filenames.previous_skr, config.response_policy) if config.filenames.previous_skr is not None else None
            parts["load_skr"] = "ok" if prev is not None else "none"
            ksr = load_ksr(ksr_path, config.request_policy, raise_original=True)
            parts["load_ksr"] = "ok"
            if prev is not None:
                check_skr_and_ksr(ksr, prev, config.request_policy, None)
                parts["check_skr_and_ksr"] = "ok"
            exp = {"ok": "OK"}
        except PolicyViolation as e:
            parts["violation"] = type(e).__name__
            exp = {"ok": "ERROR"}
    except Exception as e:  # noqa: BLE001
        parts["exception"] = type(e).__name__
        exp = {"error": lib.error_kind(e)}
    return exp, parts


def verdict_model_line(cfg_path: Path | None, ksrb: bytes, now_us: int, verify_log: list[Any]) -> dict[str, Any]:
    """The model's inputs for one validate_ksr call (oracle answers: parser outcomes, verifier answers, the clock)."""
    from kskm.common.config import get_config
    from kskm.ksr.load import request_from_xml
    from kskm.skr import load_skr

    line: dict[str, Any] = {"op": "validate_ksr", "now": now_us, "verify": verify_log}
    try:
        config = get_config(cfg_path)
        line["policy"] = lib.request_policy_j(config.request_policy)
        prevfile = config.filenames.previous_skr
        if prevfile is not None:
            try:
                prev = load_skr(prevfile, config.response_policy)
                line["prev"] = lib.response_j(prev)
            except Exception as e:  # noqa: BLE001
                line["prevFail"] = {"error": lib.error_kind(e)}
        try:
            if len(ksrb) > 1024 * 1024:
                raise RuntimeError("oversize")
            line["request"] = lib.request_j(request_from_xml(ksrb.decode()))
        except Exception as e:  # noqa: BLE001
            line["parseFail"] = {"error": lib.error_kind(e)}
    except Exception as e:  # noqa: BLE001
        line["cfgFail"] = {"error": lib.error_kind(e)}
        line["policy"] = lib.request_policy_j(__import__("kskm.common.config_misc", fromlist=["RequestPolicy"]).RequestPolicy())
        line["parseFail"] = {"error": "other"}
    return line


def stream_verdict(res: Result, tier: str, driver_ok: bool) -> None:
    import yaml

    import kskm.common.signature as sigmod
    from kskm.ksr.load import request_from_xml

    server = wksr_stubs.load_server()
    r = lib.rng("C20:verdict")
    data = REPO / "src/kskm"
    ksr_files: list[tuple[str, Path | bytes]] = [
        ("2017-q2", data / "signer/tests/data/ksr-root-2017-q2-0.xml"),
        ("2018-q1", data / "ksr/tests/data/ksr-root-2018-q1-0-d_to_e.xml"),
        ("2016-q3", data / "ksr/tests/data/ksr-root-2016-q3-0.xml"),
        ("2010-q2", data / "ksr/tests/data/ksr-root-2010-q2-0.xml"),
        ("2009-q4", data / "ksr/tests/data/ksr-root-2009-q4-2.xml"),
        ("testing-wksr", REPO / "testing/wksr/ksr.xml"),
        ("testing-softhsm-bad", REPO / "testing/softhsm/ksr.bad.xml"),
    ]
    good = (data / "signer/tests/data/ksr-root-2017-q2-0.xml").read_bytes()
    ksr_files += [
        ("truncated", good[: len(good) // 2]),
        ("empty", b""),
        ("not-utf8", b"\xff\xfe" + good),
        ("not-xml", b"hello world\n"),
        ("oversize", good + b" " * (1024 * 1024 + 1 - len(good))),
        ("sig-bitflip", _flip_after(good, b"<SignatureData>")),
    ]
    skr_files: list[tuple[str, Any]] = [
        ("none", None),
        ("2017-q1", data / "signer/tests/data/skr-root-2017-q1-0.xml"),
        ("2017-q2-same-id", data / "signer/tests/data/skr-root-2017-q2-0.xml"),
        ("2017-q3", data / "signer/tests/data/skr-root-2017-q3-0-c_to_d.xml"),
        ("2018-q1", data / "skr/tests/data/skr-root-2018-q1-0-d_to_e.xml"),
        ("skr-truncated", (data / "signer/tests/data/skr-root-2017-q1-0.xml").read_bytes()[:3000]),
    ]
    # previous SKRs whose own signatures do not verify: one base64 character of the first / of the LAST bundle's signature changed
    q1 = (data / "signer/tests/data/skr-root-2017-q1-0.xml").read_bytes()
    last_sig = q1.rindex(b"<SignatureData>")
    skr_files += [("2017-q1-first-sig-bitflip", _flip_after(q1, b"<SignatureData>")), ("2017-q1-last-sig-bitflip", q1[:last_sig] + _flip_after(q1[last_sig:], b"<SignatureData>"))]
    resp_policies: list[tuple[str, dict[str, Any]]] = [("resp-default", {}), ("resp-8-bundles", {"num_bundles": 8}), ("resp-no-signatures", {"validate_signatures": False}), ("resp-8-bundles-no-signatures", {"num_bundles": 8, "validate_signatures": False})]

    plan: list[tuple[str, str, str, str, str]] = []
    for ptag, _ in PERTURB:
        plan.append(("2017-q2", "none", ptag, "resp-default", "pinned"))
        plan.append(("2017-q2", "2017-q1", ptag, "resp-default", "pinned"))
    for ktag, _ in ksr_files:
        for stag in ("none", "2017-q1"):
            plan.append((ktag, stag, "base", "resp-default", "pinned"))
    for stag, _ in skr_files:
        for ptag in ("base", "chain-off", "chain-keys-off", "chain-overlap-off"):
            plan.append(("2017-q2", stag, ptag, "resp-default", "pinned"))
    plan.append(("2017-q2", "2017-q1", "base", "resp-8-bundles", "pinned"))  # previous SKR refused by load_skr -> RuntimeError
    # CONFIGURATION SECTIONS: num_bundles and validate_signatures exist in request_policy AND response_policy (the option names
    # shared by two sections are read off the pydantic models, ceremony_run.shared_section_options()); every pair of settings,
    # equal and DIFFERENT, with an honest previous SKR and with previous SKRs whose signatures do not verify: the previous SKR
    # is the response policy's business, the upload the request policy's
    for stag in ("2017-q1", "2017-q1-first-sig-bitflip", "2017-q1-last-sig-bitflip"):
        for ptag in ("base", "no-signatures", "num_bundles-8", "num_bundles-8+flags-off"):
            for rtag, _ in resp_policies:
                plan.append(("2017-q2", stag, ptag, rtag, "pinned"))
    for rtag, _ in resp_policies:
        plan.append(("sig-bitflip", "2017-q1", "base", rtag, "pinned"))
        plan.append(("sig-bitflip", "2017-q1", "no-signatures", rtag, "pinned"))
    plan.append(("2017-q2", "none", "base", "resp-default", "real"))  # real clock: long expired
    plan.append(("2017-q2", "none", "horizon-on", "resp-default", "real"))
    plan.append(("2017-q2", "none", "horizon-on", "resp-default", "pinned-late"))
    plan.append(("2017-q2", "none", "base", "resp-default", "no-config"))  # ksrsigner_configfile unset: default policy
    plan.append(("2017-q2", "none", "base", "resp-default", "bad-config"))  # configuration does not load: outside the try
    extra = 10 if tier == "quick" else 120
    kt = [k for k, _ in ksr_files]
    st = [s for s, _ in skr_files]
    for _ in range(extra):
        plan.append((r.choice(kt[:6]), r.choice(st), r.choice(PERTURB)[0], r.choice(resp_policies)[0], r.choice(["pinned", "pinned", "real"])))
    seen = set()
    plan = [p for p in plan if not (p in seen or seen.add(p))]

    import ceremony_run

    SHARED_OPTIONS = ceremony_run.shared_section_options()
    res.stats["options-named-in-two-sections"] = SHARED_OPTIONS
    from kskm.common.config_misc import RequestPolicy

    SHARED_DEFAULTS = {o: RequestPolicy.model_fields[o].default for o in SHARED_OPTIONS if o in RequestPolicy.model_fields}
    first_inception_us = lib.dt_us(request_from_xml(good.decode()).bundles[0].inception)
    cases = []
    lines = []
    rec = lib.VerifyRecorder().install(sigmod)
    try:
        with tempfile.TemporaryDirectory(prefix="kskm_c20_") as top, lib.PinnedClock() as clock:
            root = Path(top)
            for n, (ktag, stag, ptag, rtag, clk) in enumerate(plan):
                d = root / f"case{n}"
                d.mkdir()
                ksrsrc = dict(ksr_files)[ktag]
                ksrb = ksrsrc.read_bytes() if isinstance(ksrsrc, Path) else ksrsrc
                ksr_path = d / "upload.xml"
                ksr_path.write_bytes(ksrb)
                skrsrc = dict(skr_files)[stag]
                skr_path = None
                if skrsrc is not None:
                    skr_path = d / "previous-skr.xml"
                    skr_path.write_bytes(skrsrc.read_bytes() if isinstance(skrsrc, Path) else skrsrc)
                pol = dict(BASE_POLICY)
                pol.setdefault("signature_check_expire_horizon", False)
                pol.update(dict(PERTURB)[ptag])
                cfg: dict[str, Any] = {"request_policy": pol, "response_policy": dict(resp_policies)[rtag]}
                if skr_path is not None:
                    cfg["filenames"] = {"previous_skr": str(skr_path)}
                cfg_path: Path | None = d / "ksrsigner.yaml"
                if clk == "bad-config":
                    cfg["request_policy"] = dict(pol, no_such_option=1)
                if clk == "no-config":
                    cfg_path = None
                else:
                    assert cfg_path is not None
                    cfg_path.write_text(yaml.safe_dump(cfg))
                if clk in ("real", "no-config", "bad-config"):
                    now_us = lib.dt_us(datetime.now(timezone.utc))
                elif clk == "pinned-late":
                    now_us = first_inception_us + 400 * lib.DAY_US
                else:
                    now_us = first_inception_us - 5 * lib.DAY_US
                clock.now_us = now_us
                app = wksr_stubs.FakeApp(wksr_stubs.FakeConfig(wksr_stubs.FakeKsrConfig(1 << 20, "application/xml", d, cfg_path)))
                # ---- the implementation
                rec.take()
                try:
                    result = server.validate_ksr(app, ksr_path)
                    out: Any = {"ok": result.get("status")}
                    has_msg = isinstance(result.get("message"), str)
                except Exception as e:  # noqa: BLE001
                    out = {"error": lib.error_kind(e)}
                    has_msg = True
                verify_log = rec.take()
                # ---- the signer's own functions, called the way ksrsigner calls them but token-less
                exp, parts = signer_says(cfg_path, ksr_path)
                rec.take()
                # ---- the model's inputs (oracle answers: parser outcomes, verifier answers, the clock)
                line = verdict_model_line(cfg_path, ksrb, now_us, verify_log)
                rec.take()
                lines.append(line)
                cases.append({"ksr": ktag, "skr": stag, "policy": ptag, "resp": rtag, "clock": clk, "out": out, "exp": exp, "parts": parts, "has_msg": has_msg})
    finally:
        rec.uninstall()
    model = run_driver(lines, exe=DRIVER) if driver_ok else [None] * len(lines)
    for c, m in zip(cases, model):
        case = {"stream": "verdict", "ksr": c["ksr"], "previous_skr": c["skr"], "policy": c["policy"], "policy_overrides": dict(PERTURB)[c["policy"]], "response_policy": c["resp"], "clock": c["clock"]}
        res.count(case)
        res.bump("verdict:ksr:" + c["ksr"])
        res.bump("verdict:skr:" + c["skr"])
        res.bump("verdict:policy:" + c["policy"])
        res.bump("verdict:response-policy:" + c["resp"])
        req_over = dict(PERTURB)[c["policy"]]
        resp_over = dict(resp_policies)[c["resp"]]
        differ = sorted(o for o in SHARED_OPTIONS if req_over.get(o, SHARED_DEFAULTS.get(o)) != resp_over.get(o, SHARED_DEFAULTS.get(o)))
        if differ and c["skr"] != "none":
            res.bump("verdict:sections-differ-in:" + "+".join(differ) + ":previous-skr:" + c["skr"])
        out, exp = c["out"], c["exp"]
        res.bump("verdict:outcome:" + (out["ok"] if "ok" in out else "exception"))
        if "violation" in c["parts"]:
            res.bump("verdict:rule:" + c["parts"]["violation"])
        if not (out == exp or same_outcome(out, exp)):
            res.violation("validate_ksr does not judge like the signer's own validation", case, key=f"verdict:{c['policy']}:{c['skr']}", observed=out, signer_functions_say=exp, detail=c["parts"])
        if m is not None:
            ms = m["status"]
            if lib.is_unsupported(ms):
                res.unsupported += 1
            else:
                mo: Any = {"ok": ms} if isinstance(ms, str) else ms
                if not (mo == out or same_outcome(out, mo)):
                    res.disagreement("validate_ksr: model != implementation", case, out, {"status": mo, "validateRequest": m.get("validateRequest"), "checkSkrAndKsr": m.get("checkSkrAndKsr")})
        if len(res.samples) < 7 and c["policy"] in ("num_bundles-8", "base") and c["skr"] in ("2017-q1", "2017-q2-same-id") and c["ksr"] == "2017-q2":
            res.sample({"case": case, "impl": out, "signer_functions_say": exp, "model": None if m is None else m["status"], "detail": c["parts"]})


# --------------------------------------------------------------------------------------
# histories: several uploads handled by ONE process, with the files changed between them
# --------------------------------------------------------------------------------------

HISTORY_DEFAULT: dict[str, Any] = {
    "skr": "2017-q1",  # content of <dir>/previous-skr.xml ("missing" = the file is removed)
    "other": "2017-q2",  # content of <dir>/other-skr.xml
    "prev": "previous-skr.xml",  # what filenames.previous_skr of ksrsigner.yaml names (None = not configured)
    "policy": "base",  # request policy of ksrsigner.yaml (PERTURB)
    "resp": "resp-default",  # response policy of ksrsigner.yaml
    "whitelist": [0],  # client certificates listed in wksr.yaml (indices)
    "max_size": 1 << 20,
    "ct": "application/xml",
    "updir": None,  # one-shot operation on the upload directory before the step: "emptied" | "garbage"
}

GOOD_NAME = "ksr-root-2017-q2-0.xml"


def U(ksr: str = "A", client: Any = 0, fn: Any = GOOD_NAME, ct: str = "application/xml", **changes: Any) -> dict[str, Any]:
    """one step of a history: the files changed before it (`changes` to the state above), then one upload"""
    return {"set": changes, "ksr": ksr, "client": client, "fn": fn, "ct": ct}


FIXED_HISTORIES: list[tuple[str, list[dict[str, Any]]]] = [
    # the ceremony: the KSR is answered, signed; the SKR file gets the new quarter's content; the KSR is replayed
    ("ceremony-then-replay", [U(), U(skr="2017-q2"), U(skr="2017-q1")]),
    ("ceremony-reverse", [U(skr="2017-q2"), U(skr="2017-q1")]),
    ("skr-walk", [U(skr="2017-q1"), U(skr="2017-q3"), U(skr="2018-q1"), U(skr="2017-q1")]),
    ("same-twice", [U(), U()]),
    ("same-thrice-other-names", [U(fn="a.xml"), U(fn="../../b.xml"), U(fn="a.xml")]),
    ("A-B-A", [U("A"), U("B"), U("A")]),
    ("A-C-A", [U("A"), U("C"), U("A")]),
    ("B-A-B-skr-2018", [U("B", skr="2018-q1"), U("A"), U("B")]),
    ("refused-truncated-then-good", [U("truncated"), U("A")]),
    ("refused-bad-signature-then-good", [U("sig-bitflip"), U("A")]),
    ("refused-not-xml-then-good", [U("not-xml"), U("A"), U("not-xml")]),
    ("good-then-refused-then-good", [U("A"), U("sig-bitflip"), U("A")]),
    ("wrong-content-type-then-good", [U(ct="text/plain"), U()]),
    ("policy-tightened-and-relaxed", [U(), U(policy="num_bundles-8"), U(policy="base")]),
    ("policy-key-sizes", [U(policy="key_sizes"), U(policy="base"), U(policy="exponents")]),
    ("chain-checks-toggled", [U(skr="2017-q3"), U(policy="chain-off"), U(policy="base"), U(policy="chain-keys-off")]),
    ("previous-skr-repointed", [U(), U(prev="other-skr.xml"), U(prev="previous-skr.xml")]),
    ("previous-skr-configured-later", [U(prev=None), U(prev="previous-skr.xml", skr="2017-q2"), U(prev=None)]),
    ("previous-skr-unconfigured-later", [U(skr="2017-q2"), U(prev=None)]),
    ("previous-skr-removed-and-restored", [U(), U(skr="missing"), U(skr="2017-q1")]),
    ("previous-skr-damaged-and-restored", [U(), U(skr="skr-truncated"), U(skr="2017-q2"), U(skr="2017-q1")]),
    ("damaged-skr-first", [U(skr="skr-truncated"), U(skr="2017-q1")]),
    ("response-policy-changed", [U(), U(resp="resp-8-bundles"), U(resp="resp-default")]),
    ("whitelist-shrunk-and-restored", [U(), U(whitelist=[1]), U(whitelist=[0, 1])]),
    ("two-clients", [U(client=0, whitelist=[0, 1]), U(client=1), U(client=0, whitelist=[1]), U(client=1), U(client="noCert")]),
    ("unlisted-first", [U(client=1), U(client=0), U(client=1, whitelist=[0, 1])]),
    ("max-size-lowered-and-raised", [U(), U(max_size=100), U(max_size=1 << 20)]),
    ("content-type-changed", [U(), U(ct_cfg="text/xml"), U(ct="text/xml"), U(ct_cfg="application/xml")]),
    ("upload-directory-emptied", [U(), U(updir="emptied"), U()]),
    ("upload-directory-overwritten", [U(), U(updir="garbage"), U("B")]),
]


def random_history(r: Any) -> list[dict[str, Any]]:
    steps = []
    for _ in range(r.choice([2, 3, 3, 4])):
        ch: dict[str, Any] = {}
        for _k in range(r.choice([0, 1, 1, 2])):
            what = r.choice(["skr", "skr", "skr", "other", "prev", "policy", "resp", "whitelist", "max_size", "updir"])
            ch[what] = {
                "skr": lambda: r.choice(["2017-q1", "2017-q2", "2017-q3", "2018-q1", "skr-truncated", "missing"]),
                "other": lambda: r.choice(["2017-q1", "2017-q2", "2017-q3"]),
                "prev": lambda: r.choice(["previous-skr.xml", "other-skr.xml", None]),
                "policy": lambda: r.choice(["base", "base", "num_bundles-8", "key_sizes", "chain-off", "chain-keys-off", "chain-overlap-off", "flags-off", "no-signatures"]),
                "resp": lambda: r.choice(["resp-default", "resp-default", "resp-8-bundles"]),
                "whitelist": lambda: r.choice([[0], [1], [0, 1], []]),
                "max_size": lambda: r.choice([1 << 20, 1 << 20, 100, 19556]),
                "updir": lambda: r.choice(["emptied", "garbage"]),
            }[what]()
        steps.append(U(r.choice(["A", "A", "A", "B", "C", "truncated", "sig-bitflip", "not-xml"]), client=r.choice([0, 0, 0, 1, "noCert"]), fn=r.choice([GOOD_NAME, GOOD_NAME, "../../../etc/passwd", "a b\x00c", ""]), ct=r.choice(["application/xml"] * 5 + ["text/plain"]), **ch))
    return steps


def stream_history(res: Result, tier: str, driver_ok: bool) -> None:
    """One long-lived process handles a SEQUENCE of uploads while the previous-SKR file, ksrsigner.yaml, wksr.yaml (whitelist,
    size limit, content type) and the upload directory change between them.  Every answer must be what a FRESH interpreter
    (harness/wksr_fresh.py: never handled an upload, builds the application from wksr.yaml as it is now) gives for the same
    client and the same stored file at that moment, what the signer's own functions say on the current files, what the
    property's text says about whitelist and storage, and what the model computes."""
    import yaml

    import kskm.common.signature as sigmod
    from kskm.ksr.load import request_from_xml
    from wksr_fresh import FreshPool

    server = wksr_stubs.load_server()
    HTTPException = wksr_stubs.http_exception_class()
    r = lib.rng("C20:history")
    data = REPO / "src/kskm"
    good = (data / "signer/tests/data/ksr-root-2017-q2-0.xml").read_bytes()
    KSRS: dict[str, bytes] = {
        "A": good,
        "B": (data / "ksr/tests/data/ksr-root-2018-q1-0-d_to_e.xml").read_bytes(),
        "C": (data / "ksr/tests/data/ksr-root-2016-q3-0.xml").read_bytes(),
        "truncated": good[: len(good) // 2],
        "sig-bitflip": _flip_after(good, b"<SignatureData>"),
        "not-xml": b"hello world\n",
    }
    SKRS: dict[str, bytes] = {
        "2017-q1": (data / "signer/tests/data/skr-root-2017-q1-0.xml").read_bytes(),
        "2017-q2": (data / "signer/tests/data/skr-root-2017-q2-0.xml").read_bytes(),
        "2017-q3": (data / "signer/tests/data/skr-root-2017-q3-0-c_to_d.xml").read_bytes(),
        "2018-q1": (data / "skr/tests/data/skr-root-2018-q1-0-d_to_e.xml").read_bytes(),
    }
    SKRS["skr-truncated"] = SKRS["2017-q1"][:3000]
    resp_policies = {"resp-default": {}, "resp-8-bundles": {"num_bundles": 8}}
    certs = [wksr_stubs.make_cert(f"history-client-{i}", 50 + i, ec=True) for i in range(2)]
    fps = [hashlib.sha256(c).hexdigest() for c in certs]
    now_us = lib.dt_us(request_from_xml(good.decode()).bundles[0].inception) - 5 * lib.DAY_US

    histories = list(FIXED_HISTORIES)
    for k in range(14 if tier == "quick" else 160):
        histories.append((f"random-{k}", random_history(r)))

    records: list[dict[str, Any]] = []
    lines: list[dict[str, Any]] = []
    rec = lib.VerifyRecorder().install(sigmod)
    try:
        with tempfile.TemporaryDirectory(prefix="kskm_c20h_") as top, lib.PinnedClock() as clock, FreshPool(8) as pool:
            clock.now_us = now_us
            for hname, steps in histories:
                d = Path(top).resolve() / hname
                (d / "upload").mkdir(parents=True)
                for n in ("cert.pem", "key.pem", "ca.pem", "upload.html", "result.html", "email.txt"):
                    (d / n).write_text("x")
                state = dict(HISTORY_DEFAULT)
                state["ct_cfg"] = state.pop("ct")
                written: dict[str, Any] = {}
                app = None
                described = []
                for k, st in enumerate(steps):
                    ch = dict(st["set"])
                    updir_op = ch.pop("updir", None)
                    state.update(ch)
                    described.append({"changed_before": st["set"], "upload": st["ksr"], "client": st["client"], "filename": st["fn"], "content_type": st["ct"]})
                    # ---- the files, as this step wants them
                    for fname, key in (("previous-skr.xml", "skr"), ("other-skr.xml", "other")):
                        if written.get(fname) != state[key]:
                            if state[key] == "missing":
                                with contextlib.suppress(FileNotFoundError):
                                    (d / fname).unlink()
                            else:
                                (d / fname).write_bytes(SKRS[state[key]])
                            written[fname] = state[key]
                    pol = dict(BASE_POLICY)
                    pol.setdefault("signature_check_expire_horizon", False)
                    pol.update(dict(PERTURB)[state["policy"]])
                    cfg: dict[str, Any] = {"request_policy": pol, "response_policy": resp_policies[state["resp"]]}
                    if state["prev"] is not None:
                        cfg["filenames"] = {"previous_skr": str(d / state["prev"])}
                    cfg_text = yaml.safe_dump(cfg)
                    if written.get("ksrsigner.yaml") != cfg_text:
                        (d / "ksrsigner.yaml").write_text(cfg_text)
                        written["ksrsigner.yaml"] = cfg_text
                    wcfg = {
                        "tls": {"cert": str(d / "cert.pem"), "key": str(d / "key.pem"), "ca_cert": str(d / "ca.pem"), "require_client_cert": True, "client_whitelist": [fps[i] for i in state["whitelist"]]},
                        "ksr": {"max_size": state["max_size"], "content_type": state["ct_cfg"], "upload_path": str(d / "upload"), "ksrsigner_configfile": str(d / "ksrsigner.yaml")},
                        "templates": {"upload": str(d / "upload.html"), "result": str(d / "result.html"), "email": str(d / "email.txt")},
                    }
                    wtext = yaml.safe_dump(wcfg)
                    if written.get("wksr.yaml") != wtext:
                        (d / "wksr.yaml").write_text(wtext)
                        written["wksr.yaml"] = wtext
                        app = server.WKSR.from_file(str(d / "wksr.yaml"))  # the receiver reads its own configuration when it starts
                    if updir_op == "emptied":
                        for f in (d / "upload").iterdir():
                            f.unlink()
                    elif updir_op == "garbage":
                        for f in (d / "upload").iterdir():
                            f.write_bytes(b"garbage " + f.name.encode())
                    # ---- the step in the long-lived process: whitelist, store, validate
                    peer: Any = certs[st["client"]] if isinstance(st["client"], int) else st["client"]
                    body = KSRS[st["ksr"]]
                    when = WHEN.replace(second=(WHEN.second + k) % 60, microsecond=(WHEN.microsecond + 7 * k) % 10**6)
                    suffix = when.strftime("_%Y%m%d_%H%M%S_%f")
                    obs: dict[str, Any] = {}
                    reached: list[Any] = []

                    async def call_next(rq: Any) -> str:
                        reached.append(rq)  # noqa: B023
                        return "handler-response"

                    try:
                        ret = asyncio.run(server.ClientCertificateWhitelist(None).dispatch(wksr_stubs.FakeRequest(app, peer), call_next))
                        obs["dispatch"] = "callNext" if (reached and ret == "handler-response") else {"error": "returned-without-handler"}
                    except HTTPException as e:  # type: ignore[misc]
                        obs["dispatch"] = {"http": e.status_code}
                    except Exception as e:  # noqa: BLE001
                        obs["dispatch"] = {"error": lib.error_kind(e)}
                    stored: Path | None = None
                    if obs["dispatch"] == "callNext":
                        up = wksr_stubs.FakeUpload(st["fn"], st["ct"], len(body), body)
                        before = snapshot(d)
                        with wksr_stubs.FixedClock(server, when):
                            try:
                                ret2 = asyncio.run(server.save_ksr(app, up))
                                stored = Path(ret2[0])
                                obs["save"] = {"ok": [str(ret2[0]), ret2[1]]}
                            except HTTPException as e:  # type: ignore[misc]
                                obs["save"] = {"http": e.status_code}
                            except OSError:
                                obs["save"] = {"error": "os"}
                            except Exception as e:  # noqa: BLE001
                                obs["save"] = {"error": lib.error_kind(e)}
                        after = snapshot(d)
                        obs["created"] = sorted(set(after) - set(before))
                        obs["changed"] = sorted(x for x in before if after.get(x) != before[x])
                        obs["body_reads"] = up.reads
                        obs["stored_sha256"] = after.get(str(stored.relative_to(d))) if stored is not None and stored.is_relative_to(d) else None
                    exp = parts = line = None
                    if stored is not None:
                        rec.take()
                        try:
                            result = server.validate_ksr(app, stored)
                            obs["verdict"] = {"ok": result.get("status")}
                        except Exception as e:  # noqa: BLE001
                            obs["verdict"] = {"error": lib.error_kind(e)}
                        verify_log = rec.take()
                        # the signer's own functions on the files as they are now, and the model's inputs
                        exp, parts = signer_says(d / "ksrsigner.yaml", stored)
                        rec.take()
                        line = verdict_model_line(d / "ksrsigner.yaml", body, now_us, verify_log)
                        rec.take()
                    # ---- the same client and the same stored file, judged by an interpreter that has never seen an upload
                    fresh = pool.ask({"wksr_yaml": str(d / "wksr.yaml"), "peer": {"der": peer.hex()} if isinstance(peer, bytes) else peer, "stored": None if stored is None else str(stored), "now_us": now_us})
                    records.append({
                        "history": hname, "step": k, "steps": list(described), "st": st, "state": dict(state), "obs": obs, "fresh": fresh, "exp": exp, "parts": parts,
                        "line_index": None if line is None else len(lines), "listed": isinstance(st["client"], int) and st["client"] in state["whitelist"],
                        "suffix": suffix, "body_sha256": hashlib.sha256(body).hexdigest(), "updir": str(d / "upload"), "root": str(d), "body_len": len(body),
                    })
                    if line is not None:
                        lines.append(line)
            res.stats["history:fresh-interpreters-used"] = pool.used
            res.stats["history:distinct-fresh-pids"] = len(pool.pids)
    finally:
        rec.uninstall()
    model = run_driver(lines, exe=DRIVER) if (driver_ok and lines) else [None] * len(lines)
    for c in records:
        st, state, obs, fresh = c["st"], c["state"], c["obs"], c["fresh"]
        case = {"stream": "history", "history": c["history"], "step": c["step"], "steps_so_far": c["steps"], "files_now": {k: v for k, v in state.items() if k != "updir"}}
        res.count(case)
        res.bump("history:histories" if c["step"] == 0 else "history:later-steps")
        res.bump(f"history:step-{c['step']}")
        for what in st["set"]:
            res.bump("history:changed-before-step:" + what)
        res.bump("history:upload:" + st["ksr"])
        hk = c["history"].split("-")[0] if c["history"].startswith("random") else c["history"]
        # ---- whitelist, from the property's text
        if c["listed"] != (obs["dispatch"] == "callNext") or (not c["listed"] and isinstance(st["client"], int) and obs["dispatch"] != {"http": 403}):
            res.violation("history: the whitelist in force now does not decide who is admitted", case, key=f"history:{hk}:whitelist", observed=obs, listed_now=c["listed"])
        # ---- storage, from the property's text
        if obs["dispatch"] == "callNext":
            if st["ct"] != state["ct_cfg"]:
                want: Any = {"http": 400}
            elif c["body_len"] > state["max_size"]:
                want = {"http": 413}
            elif not name_fits(st["fn"]):
                want = {"error": "os"}
            else:
                want = "stored"
            name = oracle_wash(str(st["fn"])) + c["suffix"] + ".xml"
            rel = os.path.relpath(os.path.join(c["updir"], name), c["root"])
            if want == "stored":
                good_store = obs.get("save") == {"ok": [os.path.join(c["updir"], name), c["body_sha256"]]} and obs["created"] == [rel] and not obs["changed"] and obs["stored_sha256"] == c["body_sha256"]
            else:
                good_store = obs.get("save") == want and not obs["created"] and not obs["changed"] and not (obs["body_reads"] and "http" in want)
            res.bump("history:save:" + ("stored" if "ok" in obs.get("save", {}) else str(obs.get("save"))))
            if not good_store:
                res.violation("history: an upload is not stored (or refused) as the limits in force now say", case, key=f"history:{hk}:storage", observed=obs, expected=want, expected_name=name)
        # ---- a fresh interpreter on the same files
        if "fresh_failed" in fresh or "app" in fresh:
            res.disagreement("history: the fresh interpreter did not answer", case, obs, fresh)
            continue
        if fresh.get("dispatch") != obs["dispatch"]:
            res.violation("history: the long-lived receiver admits / refuses a client differently from a fresh one on the same configuration", case, key=f"history:{hk}:whitelist-vs-fresh", observed=obs["dispatch"], fresh_interpreter_says=fresh.get("dispatch"))
        if "verdict" in obs:
            out, exp = obs["verdict"], c["exp"]
            res.bump("history:verdict:" + (out["ok"] if "ok" in out else "exception"))
            if "violation" in (c["parts"] or {}):
                res.bump("history:rule:" + c["parts"]["violation"])
            if fresh.get("verdict") != out:
                res.violation("history: the long-lived receiver judges an upload differently from a fresh one on the same files", case, key=f"history:{hk}:verdict-vs-fresh", observed=out, fresh_interpreter_says=fresh.get("verdict"), signer_functions_say=exp, detail=c["parts"])
            if not (out == exp or same_outcome(out, exp)):
                res.violation("validate_ksr does not judge like the signer's own validation", case, key=f"history:{hk}:verdict", observed=out, signer_functions_say=exp, fresh_interpreter_says=fresh.get("verdict"), detail=c["parts"])
            m = model[c["line_index"]] if c["line_index"] is not None else None
            if m is not None:
                ms = m["status"]
                if lib.is_unsupported(ms):
                    res.unsupported += 1
                else:
                    mo: Any = {"ok": ms} if isinstance(ms, str) else ms
                    if not (mo == out or same_outcome(out, mo)):
                        res.disagreement("history: validate_ksr: model != implementation", case, out, {"status": mo, "validateRequest": m.get("validateRequest"), "checkSkrAndKsr": m.get("checkSkrAndKsr")})
        if len(res.samples) < 9 and c["history"] == "ceremony-then-replay":
            res.sample({"case": {k: v for k, v in case.items() if k != "steps_so_far"}, "impl": obs.get("verdict"), "fresh_interpreter": fresh.get("verdict"), "signer_functions_say": c["exp"], "detail": c["parts"]})


STREAMS = [("upload", stream_upload), ("whitelist", stream_whitelist), ("verdict", stream_verdict), ("history", stream_history)]

import c20_receiver  # noqa: E402  (streams `config` and `route`: configuration model, TLS options, the upload route end to end)

STREAMS += c20_receiver.STREAMS


def run(tier: str, driver_ok: bool) -> Result:
    res = Result("C20")
    res.rule = (
        "upload: ~40 crafted + random client file names (unsafe/unicode/NUL/surrogate/10 kB/None) + hostile ends (safe-only body x 21 single unsafe characters incl. newline / CR / NUL / U+2028 / `$` x {start, end, both, doubled, inside, CR LF, alone}) with a passing upload, sizes {None,0,max-1,max,max+1,huge} x "
        "content types {right,wrong,None,case,params,empty} x 3 names, missing / relative upload dir; tree snapshot before/after; random pathlib joins; "
        "whitelist: real certificates x {listed, unlisted, empty, upper-case, prefix, longer, colon-separated, SPKI digest} + no TLS / no certificate / bad DER; "
        "verdict: archived and broken KSRs x previous SKR {none, chained, same id, unrelated, later, unparsable, first / last bundle signature bit-flipped} x one-rule policy perturbations x clocks; "
        "the options named in two configuration sections (num_bundles, validate_signatures of request_policy / response_policy, read off the pydantic models) set to every pair of values, equal and different, x honest / bit-flipped previous SKR and upload; "
        "history: 30 written + random sequences of 2..5 uploads in one process with previous-SKR content / ksrsigner.yaml / wksr.yaml (whitelist, limits) / upload directory changed between them "
        "(same KSR twice, A-B-A, refused-then-good, ceremony-then-replay), every step vs property text, signer's functions now, a fresh interpreter per step, model; "
        "config: wksr.yaml documents (tls files present / missing / directory / absent, require_client_cert true / false / absent / 'yes' / 'no' / 1 / 0 / None / 2, 19 whitelist spellings x required / optional, ciphers; "
        "ksr max_size {-2^63, -1, 0, 1, 2, 1 MiB - 1, 1 MiB, 1 MiB + 1, 2^63, '5', 1.5, 2.0, True, None, absent}, content types, upload paths, signer configuration file) + random documents; ~80 whitelist entry strings; "
        "kskm.tools.wksr.main() x {require true / false / absent, bad whitelist} x ciphers {absent, 1, 3, empty} x argv {default, --debug, --hostname/--port, port 0, ::1}; request_peercert_digest on real certificates; "
        "route: middleware + upload_post on peers {listed, unlisted, upper-case entry, empty list, no TLS, no certificate, garbage} x uploads {accepted, accepted-chained, refused by policy / chain, not XML, truncated, bad / default signer configuration, "
        "damaged previous SKR, wrong / no content type, no size, size = limit, size = limit + 1, hostile / missing name, missing upload dir, bit-flipped signature} x notify {none, empty smtp_server, delivered, SMTP refuses}; "
        "non-trivial = distinct (stream, input)"
    )
    for name, fn in STREAMS:
        fn(res, tier, driver_ok)
    res.notes.append(
        "a client file name whose washed form exceeds NAME_MAX - 27 octets makes open() fail with ENAMETOOLONG: save_ksr raises an unhandled OSError "
        "(HTTP 500) after reading the body; nothing is written (fail-safe; availability is not part of C20)"
    )
    res.notes.append(
        "an invalid PREVIOUS SKR is not reported as ERROR: load_skr wraps its PolicyViolation in RuntimeError, which validate_ksr does not catch "
        "(C20.previous_skr_failure_propagates; exercised in stream 'verdict' with response_policy num_bundles=8)"
    )
    res.notes.append(
        "client verification can be configured down to ssl.CERT_OPTIONAL (require_client_cert: false) but not by omission (the key has no default) and never to CERT_NONE; under CERT_OPTIONAL a client without "
        "certificate still never reaches a handler: request_peercert raises TypeError in the middleware (C20.optional_tls_still_needs_certificate; route stream peer 'noCert')"
    )
    res.notes.append(
        "upload_post stores the upload BEFORE it validates it and never removes it: a KSR reported ERROR, one whose validation raises (HTTP 500), and one whose notification mail fails all stay in the upload directory "
        "(C20.upload_effects_order; confinement and the verdict are unaffected)"
    )
    res.notes.append(
        "the whitelist comparison is on the text: the configuration accepts upper-case hex fingerprints ([0-9a-fA-F]+) but the computed digest is "
        "lower-case, so an upper-case entry never admits its client (fail-closed; exercised as list 'upper-0')"
    )
    return res


def _case_key(case: Any) -> Any:
    """certificates are generated afresh in every run: compare cases without their volatile fields"""
    return {k: v for k, v in case.items() if k not in ("der_sha256", "list")} if isinstance(case, dict) else case


def replay(obj: dict[str, Any]) -> Any:
    v = obj.get("violation") or obj.get("disagreement") or {}
    case = v.get("case", {})
    stream = case.get("stream")
    res = Result("C20")
    for name, fn in STREAMS:
        if name == stream or stream is None:
            fn(res, obj.get("tier", "quick"), True)
    hits = [x for x in res.violations + res.disagreements if _case_key(x.get("case")) == _case_key(case)]
    return {"case": case, "reproduced": bool(hits), "now": hits[:3], "violations_in_stream": len(res.violations), "disagreements_in_stream": len(res.disagreements)}
