"""Grammar-based generator of KSR / SKR documents over /repo/schema/ksr.rnc (work package D: C12, C13).

Three layers, kept apart so that each can be varied independently:

  Doc     the DATA of a request / response (ids, times, policies, bundles, keys, signatures, signers) —
          `gen_doc()` draws it from the schema's value spaces in the plain form the reference clients
          produce;
  El      the element TREE the schema prescribes for that data — `to_tree()`;
  Layout  how the tree is written down — `render()`: whitespace between elements (spaces, tabs,
          newlines, CR LF, none), spaces/tabs inside start tags, attribute order, self-closing vs
          empty-pair form, optional padding of whitespace-collapsing texts, and what precedes `<KSR`: the six
          classic PROLOGS, or a prolog of the XML grammar (`gen_prolog` / `prolog_lattice`: declaration,
          comments, processing instructions, doctype, nothing) in every LAYOUT relative to the root — the
          root on the same line after no / one / many blanks or tabs, on the next line, after CR LF, a bare
          CR, a blank line; leading white space of every XML kind; `<KSR` as the very first characters;
          the whole document on one line (`one_line_layout`).

`expected_j(doc)` is the canonical JSON (the shape of lib.request_j / response_j) of the data that went
in; corr_C12 cross-checks its ElementTree-based extractor against it (a self-test of the harness).

"Risky features" — schema-conformant shapes on which the pinned reader is known or suspected to differ
from a standard parser — are only produced on request (`feature=`), one per document, so that every
violation is attributable: one-signer (F11), one-response-bundle (F12), timestamp (F13),
equal-expiration / equal-times (F8), space-in-attrless-start-tag, gt-in-attribute-value
(and space-in-end-tag, which is outside the property's plain form and used by C13 only).

`tree_from_xml()` turns any well-formed document (the archived, genuinely signed KSRs / SKRs) into the same
tree, and `add_duplicates()` gives one element of a tree two or three sibling versions (DUP_KINDS: <Key> /
<Signature> with equal keyIdentifier, repeated <Signer>, <SignatureAlgorithm> with equal number, bundles
with equal id; differing in chosen fields or verbatim) with `group_orders()` / `shuffle_children()` for
every order of them.
"""

from __future__ import annotations

import base64
import itertools
from dataclasses import dataclass, field
from typing import Any, Iterator

SEC = 10**6
DAY = 86400 * SEC

RSA_ALGS = [5, 8, 10]
ECDSA_ALGS = [13, 14]


# --------------------------------------------------------------------------------------
# element tree
# --------------------------------------------------------------------------------------


@dataclass
class El:
    name: str
    attrs: list[tuple[str, str]] = field(default_factory=list)
    children: list["El"] = field(default_factory=list)
    text: str = ""
    # whitespace around the text is insignificant for this element's schema type (numbers, dateTime,
    # duration, base64Binary: XSD whitespace facet "collapse"); not so for xsd:string
    collapsible: bool = False

    def copy(self) -> "El":
        return El(self.name, list(self.attrs), [c.copy() for c in self.children], self.text, self.collapsible)


def leaf(name: str, text: str, collapsible: bool = True) -> El:
    return El(name, [], [], text, collapsible)


# --------------------------------------------------------------------------------------
# data
# --------------------------------------------------------------------------------------


def fmt_dt(us: int, r: Any, style: int | None = None) -> str:
    """xsd:dateTime spellings of a UTC instant that the reference clients use (and close relatives)."""
    from datetime import datetime, timedelta, timezone

    dt = datetime(1970, 1, 1, tzinfo=timezone.utc) + timedelta(microseconds=us)
    base = dt.strftime("%Y-%m-%dT%H:%M:%S")
    if us % SEC:
        base += "." + ("%06d" % (us % SEC)).rstrip("0")
    style = r.randrange(4) if style is None else style
    return base + ["", "Z", "+00:00", "-00:00"][style]


def fmt_duration(us: int, r: Any) -> str:
    """xsd:duration spellings (whole seconds; days / hours / minutes / seconds designators only)."""
    s = us // SEC
    if s == 0:
        return r.choice(["PT0S", "P0D", "PT0M", "PT0H"])
    d, rem = divmod(s, 86400)
    h, rem2 = divmod(rem, 3600)
    m, sec = divmod(rem2, 60)
    style = r.randrange(4)
    if style == 0 and rem == 0:
        return f"P{d}D"
    if style == 1:
        return f"PT{s}S"
    if style == 2 and s % 3600 == 0:
        return f"PT{s // 3600}H"
    out = "P"
    if d:
        out += f"{d}D"
    t = ""
    if h:
        t += f"{h}H"
    if m:
        t += f"{m}M"
    if sec:
        t += f"{sec}S"
    if t:
        out += "T" + t
    return out


def fmt_int(n: int, r: Any) -> str:
    """xsd:nonNegativeInteger lexical forms: mostly canonical, sometimes leading zeros or a plus sign."""
    k = r.randrange(40)
    if k == 0:
        return "0" + str(n)
    if k == 1:
        return "+" + str(n)
    return str(n)


ID_CHARS = "abcdefghijklmnopqrstuvwxyzABCDEFGHIJKLMNOPQRSTUVWXYZ0123456789-_.:"


def gen_id(r: Any, rich: bool = False) -> str:
    k = r.randrange(6)
    if k == 0:
        return "%08x-%04x-%04x-%04x-%012x" % (r.getrandbits(32), r.getrandbits(16), r.getrandbits(16), r.getrandbits(16), r.getrandbits(48))
    if k == 1:
        return "".join(r.choice("0123456789abcdef") for _ in range(r.choice([8, 40, 94])))
    if k == 2 and rich:
        # legal in a double-quoted XML attribute without entities: spaces, slashes, '=', single quotes, non-ASCII
        return "".join(r.choice(ID_CHARS + " /='é中") for _ in range(r.randrange(1, 12))).strip() or "x"
    return "".join(r.choice(ID_CHARS) for _ in range(r.randrange(1, 20)))


def gen_pubkey(r: Any, alg: int) -> str:
    if alg in RSA_ALGS:
        e = r.choice([b"\x03", b"\x01\x00\x01"])
        n = bytes([0x80 | r.getrandbits(7)]) + r.randbytes(r.choice([63, 127, 255]))
        return base64.b64encode(bytes([len(e)]) + e + n).decode()
    size = 64 if alg == 13 else 96
    return base64.b64encode(r.choice([b"", b"\x04"]) + r.randbytes(size)).decode()


def gen_policy(r: Any, nalgs: int) -> dict[str, Any]:
    algs: list[dict[str, Any]] = []
    seen: set[tuple[Any, ...]] = set()
    while len(algs) < nalgs:
        if r.random() < 0.7:
            a = {"kind": "RSA", "algorithm": r.choice(RSA_ALGS), "size": r.choice([1024, 2048, 4096]), "exponent": r.choice([3, 65537])}
        else:
            alg = r.choice(ECDSA_ALGS)
            a = {"kind": "ECDSA", "algorithm": alg, "size": 256 if alg == 13 else 384}
        key = tuple(sorted(a.items()))
        if key in seen:
            continue
        seen.add(key)
        algs.append(a)
    days = lambda lo, hi: r.randrange(lo, hi + 1) * DAY + r.choice([0, 0, 0, 3600 * SEC, 5400 * SEC, 59 * SEC])  # noqa: E731
    return {
        "PublishSafety": days(0, 30),
        "RetireSafety": days(0, 30),
        "MaxSignatureValidity": days(15, 30),
        "MinSignatureValidity": days(10, 21),
        "MaxValidityOverlap": days(5, 16),
        "MinValidityOverlap": days(0, 9),
        "algorithms": algs,
    }


def gen_key(r: Any, ident: str) -> dict[str, Any]:
    alg = r.choice([8, 8, 8, 5, 10, 13, 14])
    return {
        "keyIdentifier": ident,
        "keyTag": r.randrange(65536),
        "TTL": r.choice([0, 3600, 172800, r.randrange(2**31)]),
        "Flags": r.choice([256, 256, 257, 385]),
        "Protocol": 3,
        "Algorithm": alg,
        "PublicKey": gen_pubkey(r, alg),
    }


def gen_sig(r: Any, ident: str, inc: int, exp: int) -> dict[str, Any]:
    return {
        "keyIdentifier": ident,
        "TTL": r.choice([172800, 3600]),
        "TypeCovered": "DNSKEY",
        "Algorithm": r.choice([8, 8, 5, 10, 13, 14]),
        "Labels": r.choice([0, 0, 1, 255]),
        "OriginalTTL": r.choice([172800, 3600, 0]),
        "SignatureExpiration": exp,
        "SignatureInception": inc,
        "KeyTag": r.randrange(65536),
        "SignersName": r.choice([".", ".", ".", "example.", "a>b", "x y"]),
        "SignatureData": base64.b64encode(r.randbytes(r.choice([16, 64, 128, 256]))).decode(),
    }


def gen_doc(
    r: Any,
    kind: str,
    *,
    nbundles: int | None = None,
    feature: str | None = None,
    rich_ids: bool = False,
    small: bool = False,
) -> dict[str, Any]:
    """One request / response.  Counts follow the property: 1..9 bundles, 1..3 keys, 1..3 signatures,
    0..3 signers, 1..3 algorithms.  (Exactly one Signer / exactly one ResponseBundle — findings F11 / F12,
    repaired — occur in the ordinary streams too; corr_C12 recognises them in the data, so a regression is
    still reported under its own key.)"""
    if nbundles is None:
        lo = 1
        nbundles = r.randrange(lo, 4) if small else r.randrange(lo, 10)
    if feature == "one-response-bundle":
        nbundles = 1
    start = r.randrange(1_200_000_000, 1_900_000_000) * SEC
    start -= start % DAY
    exps: list[int] = []
    bundles: list[dict[str, Any]] = []
    ids: set[str] = set()

    def fresh(rich: bool = False) -> str:
        while True:
            s = gen_id(r, rich)
            if s not in ids:
                ids.add(s)
                return s

    pool = [fresh(rich_ids) for _ in range(4)]
    for i in range(nbundles):
        inc = start + i * 10 * DAY + r.choice([0, 0, 3600 * SEC, 500_000])
        exp = inc + r.randrange(14, 22) * DAY + r.choice([0, 0, 86399 * SEC])
        if feature in ("equal-expiration", "equal-times") and i == 1:
            exp = exps[0]
            if feature == "equal-times":
                inc = bundles[0]["inception"]
        while exp in exps and not (feature in ("equal-expiration", "equal-times") and i == 1):
            exp += SEC
        exps.append(exp)
        nk = r.randrange(1, 4)
        key_ids = r.sample(pool, nk)
        ns = r.randrange(1, 4)
        nsigners = r.choice([0, 0, 1, 2, 3]) if kind == "request" else 0
        if feature == "one-signer" and i == 0:
            nsigners = 1
        bundles.append(
            {
                "id": fresh(rich_ids),
                "inception": inc,
                "expiration": exp,
                "signers": [fresh(rich_ids) for _ in range(nsigners)] if kind == "request" else None,
                "keys": [gen_key(r, k) for k in key_ids],
                "signatures": [gen_sig(r, r.choice(key_ids), inc - r.choice([0, DAY]), exp) for _ in range(ns)],
            }
        )
    if feature in ("equal-expiration", "equal-times") and nbundles < 2:
        raise ValueError("equal-expiration needs two bundles")
    # bundles appear in a random document order (the reader sorts requests by expiration)
    doc: dict[str, Any] = {
        "kind": kind,
        "id": fresh(rich_ids),
        "serial": r.choice([0, 1, 2, 99, r.randrange(10**6)]),
        "domain": r.choice([".", ".", "example.", "net"]),
        "timestamp": (start - DAY + r.randrange(86400) * SEC) if feature == "timestamp" else None,
        "ZSK": gen_policy(r, r.randrange(1, 4)),
        "bundles": bundles,
    }
    if kind == "response":
        doc["KSK"] = gen_policy(r, r.randrange(1, 4))
    return doc


# --------------------------------------------------------------------------------------
# data -> tree (the schema's element structure)
# --------------------------------------------------------------------------------------


def policy_tree(name: str, p: dict[str, Any], r: Any) -> El:
    ch = [leaf(k, fmt_duration(p[k], r)) for k in ("PublishSafety", "RetireSafety", "MaxSignatureValidity", "MinSignatureValidity", "MaxValidityOverlap", "MinValidityOverlap")]
    for a in p["algorithms"]:
        if a["kind"] == "RSA":
            inner = El("RSA", [("size", fmt_int(a["size"], r)), ("exponent", fmt_int(a["exponent"], r))])
        else:
            inner = El("ECDSA", [("size", fmt_int(a["size"], r))])
        ch.append(El("SignatureAlgorithm", [("algorithm", fmt_int(a["algorithm"], r))], [inner]))
    return El(name, [], ch)


def key_tree(k: dict[str, Any], r: Any) -> El:
    return El(
        "Key",
        [("keyIdentifier", k["keyIdentifier"]), ("keyTag", fmt_int(k["keyTag"], r))],
        [leaf("TTL", fmt_int(k["TTL"], r)), leaf("Flags", fmt_int(k["Flags"], r)), leaf("Protocol", fmt_int(k["Protocol"], r)), leaf("Algorithm", fmt_int(k["Algorithm"], r)), leaf("PublicKey", k["PublicKey"])],
    )


def sig_tree(s: dict[str, Any], r: Any) -> El:
    return El(
        "Signature",
        [("keyIdentifier", s["keyIdentifier"])],
        [
            leaf("TTL", fmt_int(s["TTL"], r)),
            leaf("TypeCovered", s["TypeCovered"], collapsible=False),
            leaf("Algorithm", fmt_int(s["Algorithm"], r)),
            leaf("Labels", fmt_int(s["Labels"], r)),
            leaf("OriginalTTL", fmt_int(s["OriginalTTL"], r)),
            leaf("SignatureExpiration", fmt_dt(s["SignatureExpiration"], r)),
            leaf("SignatureInception", fmt_dt(s["SignatureInception"], r)),
            leaf("KeyTag", fmt_int(s["KeyTag"], r)),
            leaf("SignersName", s["SignersName"], collapsible=False),
            leaf("SignatureData", s["SignatureData"]),
        ],
    )


def to_tree(doc: dict[str, Any], r: Any) -> El:
    req = doc["kind"] == "request"
    bundles = []
    for b in doc["bundles"]:
        ch = [leaf("Inception", fmt_dt(b["inception"], r)), leaf("Expiration", fmt_dt(b["expiration"], r))]
        for s in b["signers"] or []:
            ch.append(El("Signer", [("keyIdentifier", s)]))
        ch += [key_tree(k, r) for k in b["keys"]]
        ch += [sig_tree(s, r) for s in b["signatures"]]
        bundles.append(El("RequestBundle" if req else "ResponseBundle", [("id", b["id"])], ch))
    if req:
        pol = El("RequestPolicy", [], [policy_tree("ZSK", doc["ZSK"], r)])
    else:
        pol = El("ResponsePolicy", [], [policy_tree("KSK", doc["KSK"], r), policy_tree("ZSK", doc["ZSK"], r)])
    inner_attrs = [("timestamp", fmt_dt(doc["timestamp"], r))] if doc["timestamp"] is not None else []
    inner = El("Request" if req else "Response", inner_attrs, [pol] + bundles)
    return El("KSR", [("id", doc["id"]), ("serial", fmt_int(doc["serial"], r)), ("domain", doc["domain"])], [inner])


# --------------------------------------------------------------------------------------
# tree -> text
# --------------------------------------------------------------------------------------


@dataclass
class Layout:
    r: Any
    between: list[str] = field(default_factory=lambda: ["\n", "\n  ", "\n\t", " ", "", "\r\n", "\n\n", "  \n    "])
    in_tag: list[str] = field(default_factory=lambda: [" ", " ", "  ", "\t", " \t"])
    permute_attrs: bool = True
    empty_forms: list[str] = field(default_factory=lambda: ["/>", " />", "pair", "\t/>"])
    pad_text: float = 0.05
    prolog: bool = True
    # risky features (off unless asked for)
    space_in_attrless_start_tag: float = 0.0
    space_in_end_tag: float = 0.0

    def ws(self) -> str:
        return self.r.choice(self.between)

    def tws(self) -> str:
        return self.r.choice(self.in_tag)


def canonical_layout(r: Any) -> Layout:
    """one element per line, single spaces — the layout of the reference clients"""
    return Layout(r, between=["\n"], in_tag=[" "], permute_attrs=False, empty_forms=["/>"], pad_text=0.0, prolog=False)


PROLOGS = [
    "",
    '<?xml version="1.0" encoding="UTF-8"?>\n',
    '<?xml version="1.0"?>\n<!-- document generated by ksr-client.pl revision 75 -->\n',
    "<!-- a comment with <tags> and a > b inside -->\n\n",
    '<?xml version="1.0" encoding="UTF-8"?>\n<!-- <ksr> lower case is not the element -->\n  ',
    "\n\n   \t",
]


def render_el(e: El, lay: Layout) -> str:
    r = lay.r
    attrs = list(e.attrs)
    if lay.permute_attrs and len(attrs) > 1:
        r.shuffle(attrs)
    tag = "<" + e.name
    for k, v in attrs:
        tag += lay.tws() + f'{k}="{v}"'
    if attrs and r.random() < 0.2 and lay.in_tag != [" "]:
        tag += lay.tws()  # whitespace before the closing bracket of a tag that has attributes
    if not attrs and lay.space_in_attrless_start_tag and r.random() < lay.space_in_attrless_start_tag:
        tag += lay.tws()
    end = "</" + e.name + (lay.tws() if lay.space_in_end_tag and r.random() < lay.space_in_end_tag else "") + ">"
    if not e.children and e.text == "":
        form = r.choice(lay.empty_forms) if attrs else "pair"
        # (an attribute-less empty element in self-closing form, `<X/>`, does not occur in the schema)
        if form == "pair":
            return tag + ">" + end
        return tag + form
    if e.children:
        body = lay.ws() + "".join(render_el(c, lay) + lay.ws() for c in e.children)
        return tag + ">" + body + end
    text = e.text
    if e.collapsible and r.random() < lay.pad_text:
        text = r.choice([" ", "\n", "\t", "\n    "]) + text + r.choice([" ", "\n", "\t", "\n  "])
    return tag + ">" + text + end


# --- the prolog as a grammar (XML 1.0 production 22:  prolog ::= XMLDecl? Misc* (doctypedecl Misc*)?,  Misc ::= Comment | PI | S),
# and its LAYOUT relative to the root element: what separates the items from each other and the last item from `<KSR`.
# None of the item texts contains the four characters `<KSR` (a prolog that does is outside the property: the reader starts at
# the first `<KSR`; KskmProofs/C12.lean `ksr_in_comment_counterexample`).

PROLOG_DECLS = ['<?xml version="1.0" encoding="UTF-8"?>', '<?xml version="1.0"?>', "<?xml version='1.0' encoding='utf-8' standalone='yes'?>", '<?xml version="1.0" encoding="UTF-8" ?>']
PROLOG_COMMENTS = [
    "<!-- document generated by ksr-client.pl revision 75 -->",
    "<!---->",
    "<!-- a comment with <tags>, a > b, KSR and <ksr> inside -->",
    "<!-- two\nlines -->",
    "<!--\n   < KSR id=\"not-the-element\" >\n-->",
]
PROLOG_PIS = ['<?xml-stylesheet type="text/xsl" href="ksr.xsl"?>', "<?ksr-client?>", "<?pi with > and < inside ?>"]
PROLOG_DOCTYPES = ["<!DOCTYPE KSR>", '<!DOCTYPE KSR SYSTEM "ksr.dtd">', "<!DOCTYPE KSR [ <!-- internal subset --> ]>"]
# white space as XML defines it (production 3: S ::= (#x20 | #x9 | #xD | #xA)+), of every kind, and none at all
PROLOG_SEPS = ["", " ", "  ", "\t", " \t ", "\n", "\r\n", "\r", "\n\n", "\n  ", "\n\t", " \n", "\r\n\r\n    ", " " * 40, "\n" * 12]


def sep_name(sep: str) -> str:
    """a stable description of a separator: none / same-line (blanks, tabs only) / next-line / crlf / cr / blank-line"""
    if sep == "":
        return "none"
    if "\n" not in sep and "\r" not in sep:
        return "same-line-blanks"
    if sep.count("\n") + sep.count("\r") - sep.count("\r\n") >= 2:
        return "blank-line"
    if "\r\n" in sep:
        return "crlf"
    if "\r" in sep:
        return "cr"
    return "next-line" if sep.endswith("\n") else "next-line-indented"


# the shapes of a prolog: which items, in the order XML allows them ("D" declaration, "c" comment, "p" processing instruction, "T" doctype)
PROLOG_SHAPES = ["", "D", "c", "p", "T", "Dc", "Dp", "DT", "cc", "cp", "cT", "Tc", "DcT", "DTc", "DcpTcp", "Dccc"]


def prolog_items(shape: str, r: Any) -> list[tuple[str, str]]:
    kinds = {"D": ("declaration", PROLOG_DECLS), "c": ("comment", PROLOG_COMMENTS), "p": ("pi", PROLOG_PIS), "T": ("doctype", PROLOG_DOCTYPES)}
    return [(kinds[ch][0], r.choice(kinds[ch][1])) for ch in shape]


def build_prolog(items: list[tuple[str, str]], seps: list[str], lead: str = "") -> str:
    """lead + item0 + seps[0] + item1 + seps[1] + … + item(n-1) + seps[n-1]   (then the root follows).  `lead` is white space before
    the first item — XML allows it only when the first item is not the XML declaration."""
    assert len(seps) == len(items)
    if items and items[0][0] == "declaration":
        assert lead == ""
    return lead + "".join(t + s for (_k, t), s in zip(items, seps))


def gen_prolog(r: Any) -> tuple[str, str]:
    """a random prolog of the grammar in a random layout; returns (text, description)"""
    shape = r.choice(PROLOG_SHAPES)
    items = prolog_items(shape, r)
    seps = [r.choice(PROLOG_SEPS) for _ in items]
    lead = "" if (items and items[0][0] == "declaration") else r.choice(["", "", "\n", " ", "\t", "\r\n", "\n\n   \t", "\r"])
    desc = f"prolog:{shape or 'none'}:lead={sep_name(lead)}:root-after={sep_name(seps[-1]) if seps else sep_name(lead)}"
    return build_prolog(items, seps, lead), desc


def prolog_lattice(r: Any) -> Iterator[tuple[str, str]]:
    """The layout of the prolog relative to the root, systematically: every shape of prolog x every separator between the LAST item
    and `<KSR` (the separators between the other items drawn at random, then all equal to it), every kind of leading white space with
    no item at all, and `<KSR` as the very first characters.  Yields (text, description)."""
    for shape in PROLOG_SHAPES:
        if not shape:
            for lead in PROLOG_SEPS:
                yield lead, f"prolog:none:lead={sep_name(lead)}:root-after={sep_name(lead)}"
            continue
        for last in PROLOG_SEPS:
            items = prolog_items(shape, r)
            for mode in ("random", "uniform"):
                if mode == "uniform" and len(items) == 1:
                    continue
                seps = [last if mode == "uniform" else r.choice(PROLOG_SEPS) for _ in items[:-1]] + [last]
                leads = [""] if items[0][0] == "declaration" else ["", r.choice(PROLOG_SEPS[1:])]
                for lead in leads:
                    yield build_prolog(items, seps, lead), f"prolog:{shape}:lead={sep_name(lead)}:root-after={sep_name(last)}"


def one_line_layout(r: Any, gap: str = "") -> Layout:
    """the whole element tree on ONE line (what a minifier / many serialisers write): nothing, or `gap` (blanks / tabs), between elements"""
    return Layout(r, between=[gap], in_tag=[" ", "\t", "  "], pad_text=0.0, prolog=False)


def render(tree: El, lay: Layout, prolog: str | None = None, trail: str | None = None) -> str:
    """`prolog` / `trail` given: exactly these around the element tree.  Otherwise (lay.prolog) one of the six classic prologs or a
    random prolog of the grammar in a random layout, and a random white-space trailer."""
    if prolog is not None:
        pro = prolog
    elif lay.prolog:
        pro = lay.r.choice(PROLOGS) if lay.r.random() < 0.5 else gen_prolog(lay.r)[0]
    else:
        pro = ""
    return pro + render_el(tree, lay) + (lay.r.choice(["", "\n", "\n\n", "  "]) if trail is None else trail)


# --------------------------------------------------------------------------------------
# sibling permutations
# --------------------------------------------------------------------------------------


def nodes(t: El) -> Iterator[El]:
    yield t
    for c in t.children:
        yield from nodes(c)


def shuffle_all(t: El, r: Any) -> El:
    """a copy with the children of EVERY node in random order"""
    t = t.copy()
    for n in nodes(t):
        r.shuffle(n.children)
    return t


def all_sibling_permutations(t: El, max_children: int = 4, limit: int = 400) -> Iterator[tuple[str, El]]:
    """every permutation of the children of one node at a time (nodes with 2..max_children children)"""
    count = 0
    base = t.copy()
    paths: list[list[int]] = []

    def walk(n: El, path: list[int]) -> None:
        if 2 <= len(n.children) <= max_children:
            paths.append(path)
        for i, c in enumerate(n.children):
            walk(c, path + [i])

    walk(base, [])
    for path in paths:
        node = base
        for i in path:
            node = node.children[i]
        k = len(node.children)
        for perm in itertools.permutations(range(k)):
            if perm == tuple(range(k)):
                continue
            cp = base.copy()
            n2 = cp
            for i in path:
                n2 = n2.children[i]
            n2.children = [n2.children[i] for i in perm]
            yield (n2.name + ":" + "".join(map(str, perm)), cp)
            count += 1
            if count >= limit:
                return


# --------------------------------------------------------------------------------------
# what went in, as canonical JSON (shape of lib.request_j / response_j, set-valued fields sorted)
# --------------------------------------------------------------------------------------


def _sorted(xs: list[Any]) -> list[Any]:
    import json

    return sorted(xs, key=lambda x: json.dumps(x, sort_keys=True))


def policy_j(p: dict[str, Any]) -> dict[str, Any]:
    return {
        "publishSafety": p["PublishSafety"],
        "retireSafety": p["RetireSafety"],
        "maxSignatureValidity": p["MaxSignatureValidity"],
        "minSignatureValidity": p["MinSignatureValidity"],
        "maxValidityOverlap": p["MaxValidityOverlap"],
        "minValidityOverlap": p["MinValidityOverlap"],
        "algorithms": _sorted([{"kind": a["kind"].lower(), "bits": a["size"], "algorithm": a["algorithm"], "exponent": a.get("exponent")} for a in p["algorithms"]]),
    }


def expected_j(doc: dict[str, Any]) -> dict[str, Any]:
    bundles = []
    for b in doc["bundles"]:
        bundles.append(
            {
                "id": b["id"],
                "inception": b["inception"],
                "expiration": b["expiration"],
                "keys": _sorted([{"keyIdentifier": k["keyIdentifier"], "keyTag": k["keyTag"], "ttl": k["TTL"], "flags": k["Flags"], "protocol": k["Protocol"], "algorithm": k["Algorithm"], "publicKey": k["PublicKey"]} for k in b["keys"]]),
                "signatures": _sorted(
                    [
                        {
                            "keyIdentifier": s["keyIdentifier"],
                            "ttl": s["TTL"],
                            "typeCovered": 48,
                            "algorithm": s["Algorithm"],
                            "labels": s["Labels"],
                            "originalTtl": s["OriginalTTL"],
                            "expiration": s["SignatureExpiration"],
                            "inception": s["SignatureInception"],
                            "keyTag": s["KeyTag"],
                            "signersName": s["SignersName"],
                            "signatureData": s["SignatureData"],
                        }
                        for s in b["signatures"]
                    ]
                ),
                "signers": (sorted(b["signers"]) or None) if b["signers"] is not None else None,
            }
        )
    out = {
        "id": doc["id"],
        "serial": doc["serial"],
        "domain": doc["domain"],
        "timestamp": doc["timestamp"],
        "zskPolicy": policy_j(doc["ZSK"]),
        "bundles": bundles,
    }
    if doc["kind"] == "response":
        out["kskPolicy"] = policy_j(doc["KSK"])
    return out


# --------------------------------------------------------------------------------------
# any well-formed document -> tree (so that archived, genuinely signed files can be re-laid-out, permuted
# and given duplicate siblings like generated ones)
# --------------------------------------------------------------------------------------

STRING_LEAVES = ("TypeCovered", "SignersName")  # xsd:string: whitespace is data


def tree_from_xml(text: str) -> El:
    """the element tree of a document as a standards-conforming parser sees it (leaf texts of the
    whitespace-collapsing schema types are stripped: that is their value)"""
    import xml.etree.ElementTree as ET

    def conv(e: Any) -> El:
        kids = [conv(c) for c in e]
        collapsible = e.tag not in STRING_LEAVES
        txt = "" if kids else (e.text or "")
        if collapsible:
            txt = txt.strip(" \t\r\n")
        return El(e.tag, list(e.attrib.items()), kids, txt, collapsible)

    return conv(ET.fromstring(text.encode("utf-8")))


def node_at(t: El, path: list[int]) -> El:
    for i in path:
        t = t.children[i]
    return t


def paths_of(t: El, name: str) -> list[list[int]]:
    """paths of all elements called `name`"""
    out: list[list[int]] = []

    def walk(n: El, path: list[int]) -> None:
        if n.name == name:
            out.append(path)
        for i, c in enumerate(n.children):
            walk(c, path + [i])

    walk(t, [])
    return out


# --------------------------------------------------------------------------------------
# duplicates among siblings: two or three sibling elements that agree in their identifying attribute /
# some fields and differ in others, or are repeated verbatim.  The schema (ksr.rnc) has no uniqueness
# constraint on keyIdentifier, bundle ids or algorithm numbers: all of this is schema-conformant.
# --------------------------------------------------------------------------------------


def rfc4034_key_tag(flags: int, protocol: int, algorithm: int, public_key: bytes) -> int:
    """RFC 4034 appendix B (transcribed; algorithm 1 is not generated)"""
    rdata = bytes([(flags >> 8) & 0xFF, flags & 0xFF, protocol & 0xFF, algorithm & 0xFF]) + public_key
    ac = 0
    for i, b in enumerate(rdata):
        ac += b if i & 1 else b << 8
    ac += (ac >> 16) & 0xFFFF
    return ac & 0xFFFF


def _leaf(e: El, name: str) -> El | None:
    for c in e.children:
        if c.name == name:
            return c
    return None


def _set_leaf(e: El, name: str, f: Any) -> None:
    c = _leaf(e, name)
    if c is not None:
        c.text = f(c.text)


def _set_attr(e: El, name: str, f: Any) -> None:
    e.attrs = [(k, f(v) if k == name else v) for k, v in e.attrs]


def _int(s: str) -> int:
    return int(s.strip(" \t\r\n"))


def _bump(n: int, mod: int = 65536) -> Any:
    return lambda s: str((_int(s) + n) % mod)


def _other_material(n: int) -> Any:
    """the same length and header, other octets near the end (another modulus / another point)"""

    def f(s: str) -> str:
        raw = bytearray(base64.b64decode(s.strip(" \t\r\n")))
        if not raw:
            return base64.b64encode(bytes([n])).decode()
        raw[-1 - (n % max(1, min(8, len(raw))))] ^= 0x10 << (n % 3)
        return base64.b64encode(bytes(raw)).decode()

    return f


FLAG_VALUES = [256, 257, 385]  # ZONE, ZONE|SEP, ZONE|SEP|REVOKE: the flag words the data classes represent


def _other_flags(n: int) -> Any:
    def f(s: str) -> str:
        v = _int(s)
        return str(FLAG_VALUES[(FLAG_VALUES.index(v) + n) % 3] if v in FLAG_VALUES else FLAG_VALUES[n % 3])

    return f


def _respell(s: str) -> str:
    """another lexical form of the same xsd:nonNegativeInteger (a leading zero)"""
    return "0" + s.strip(" \t\r\n").lstrip("+")


def _fix_tag(k: El) -> None:
    """make keyTag the RFC 4034 tag of the key as it now stands"""
    try:
        tag = rfc4034_key_tag(_int(_leaf(k, "Flags").text), _int(_leaf(k, "Protocol").text), _int(_leaf(k, "Algorithm").text), base64.b64decode(_leaf(k, "PublicKey").text.strip(" \t\r\n")))  # type: ignore[union-attr]
    except Exception:  # noqa: BLE001
        return
    _set_attr(k, "keyTag", lambda _v: str(tag))


def _shift_time(days: int) -> Any:
    def f(s: str) -> str:
        from datetime import datetime, timedelta, timezone

        t = s.strip(" \t\r\n")
        while t.endswith("Z"):
            t = t[:-1]
        dt = datetime.fromisoformat(t)
        if dt.tzinfo is None:
            dt = dt.replace(tzinfo=timezone.utc)
        us = (dt - datetime(1970, 1, 1, tzinfo=timezone.utc)) // timedelta(microseconds=1)

        class _R:  # fmt_dt wants a PRNG only to choose the spelling
            @staticmethod
            def randrange(_n: int) -> int:
                return 1

        return fmt_dt(us + days * DAY, _R(), 1)

    return f


# kind -> (element that is duplicated, modifier applied to the n-th copy (n = 1, 2); None = verbatim, where it applies)
DUP_KINDS: dict[str, tuple[str, Any, str]] = {
    # <Key> with equal keyIdentifier
    "key-same-id-other-material": ("Key", lambda c, n: _set_leaf(c, "PublicKey", _other_material(n)), "any"),
    "key-same-id-other-material-right-tag": ("Key", lambda c, n: (_set_leaf(c, "PublicKey", _other_material(n)), _fix_tag(c)), "any"),
    "key-same-material-other-tag": ("Key", lambda c, n: _set_attr(c, "keyTag", _bump(n)), "any"),
    "key-same-material-other-flags": ("Key", lambda c, n: _set_leaf(c, "Flags", _other_flags(n)), "any"),
    "key-same-material-other-flags-right-tag": ("Key", lambda c, n: (_set_leaf(c, "Flags", _other_flags(n)), _fix_tag(c)), "any"),
    "key-same-id-other-ttl": ("Key", lambda c, n: _set_leaf(c, "TTL", _bump(n, 2**31)), "any"),
    "key-verbatim": ("Key", None, "any"),
    "key-verbatim-respelled": ("Key", lambda c, n: (_set_attr(c, "keyTag", _respell), _set_leaf(c, "Flags", _respell)) if n == 1 else (_set_leaf(c, "TTL", _respell),), "any"),
    # <Signature> with equal keyIdentifier
    "signature-same-id-other-data": ("Signature", lambda c, n: _set_leaf(c, "SignatureData", _other_material(n)), "any"),
    "signature-same-id-other-keytag": ("Signature", lambda c, n: _set_leaf(c, "KeyTag", _bump(n)), "any"),
    "signature-same-id-other-expiration": ("Signature", lambda c, n: _set_leaf(c, "SignatureExpiration", _shift_time(n)), "any"),
    "signature-verbatim": ("Signature", None, "any"),
    # <Signer> repeated
    "signer-verbatim": ("Signer", None, "request"),
    # <SignatureAlgorithm> with equal algorithm number
    "algorithm-same-number-other-size": ("SignatureAlgorithm", lambda c, n: _set_attr(c.children[0], "size", lambda s: str(_int(s) + 1024 * n)), "any"),
    "algorithm-same-number-other-exponent": ("SignatureAlgorithm", lambda c, n: _set_attr(c.children[0], "exponent", lambda s: str(_int(s) + 2 * n)), "rsa"),
    "algorithm-verbatim": ("SignatureAlgorithm", None, "any"),
    "algorithm-verbatim-respelled": ("SignatureAlgorithm", lambda c, n: _set_attr(c, "algorithm", _respell) if n == 1 else _set_attr(c.children[0], "size", _respell), "any"),
    # bundles with equal id
    "bundle-equal-id-other-times": ("Bundle", None, "any"),
    "bundle-verbatim": ("Bundle", None, "any"),
}


def add_duplicates(tree: El, r: Any, kind: str, copies: int = 2) -> tuple[El, list[int], list[int]] | None:
    """A copy of `tree` in which one element has `copies` (2 or 3) sibling versions as `kind` says, next to
    each other.  Returns (tree, path of the parent, indices of the group among the parent's children), or
    None where the kind does not apply to this document."""
    name, mod, applies = DUP_KINDS[kind]
    t = tree.copy()
    req = t.children[0].name == "Request"
    if applies == "request" and not req:
        return None
    if name == "Bundle":
        paths = paths_of(t, "RequestBundle" if req else "ResponseBundle")
    else:
        paths = paths_of(t, name)
    if name == "Signer" and not paths:
        # no signer named: name one, then repeat it (naming signers does not touch what is signed)
        bp = r.choice(paths_of(t, "RequestBundle"))
        b = node_at(t, bp)
        at = max((i for i, c in enumerate(b.children) if c.name in ("Inception", "Expiration")), default=-1) + 1
        b.children.insert(at, El("Signer", [("keyIdentifier", "KC%05d" % r.randrange(100000))]))
        paths = [bp + [at]]
    if applies == "rsa":
        paths = [p for p in paths if node_at(t, p).children and node_at(t, p).children[0].name == "RSA"]
    if not paths:
        return None
    path = r.choice(paths)
    parent = node_at(t, path[:-1])
    i = path[-1]
    orig = parent.children[i]
    new: list[El] = []
    for n in range(1, copies):
        c = orig.copy()
        if kind == "bundle-equal-id-other-times":
            # the same id on a bundle of another period: every time in it moves by whole days
            for leafname in ("Inception", "Expiration"):
                _set_leaf(c, leafname, _shift_time(100 * n))
            for s in c.children:
                if s.name == "Signature":
                    _set_leaf(s, "SignatureInception", _shift_time(100 * n))
                    _set_leaf(s, "SignatureExpiration", _shift_time(100 * n))
        elif mod is not None:
            mod(c, n)
        new.append(c)
    parent.children[i + 1 : i + 1] = new
    if name == "Signer" and r.random() < 0.5:
        # sometimes with a different signer among them
        parent.children.insert(i, El("Signer", [("keyIdentifier", "KC%05d" % r.randrange(100000))]))
        i += 1
    return t, path[:-1], list(range(i, i + copies))


def group_orders(t: El, parent_path: list[int], idxs: list[int]) -> Iterator[tuple[str, El]]:
    """every other order of the group members among their own places"""
    for perm in itertools.permutations(range(len(idxs))):
        if perm == tuple(range(len(idxs))):
            continue
        cp = t.copy()
        p = node_at(cp, parent_path)
        members = [p.children[i] for i in idxs]
        for slot, k in zip(idxs, perm):
            p.children[slot] = members[k]
        yield ("group:" + "".join(map(str, perm)), cp)


def shuffle_children(t: El, parent_path: list[int], r: Any) -> El:
    """a copy with the children of ONE node in random order"""
    cp = t.copy()
    r.shuffle(node_at(cp, parent_path).children)
    return cp
