"""C18 correspondence: the exported trust anchor states the true DS of each configured KSK on the token.

Cases (each a JSON-able description, rebuilt deterministically for replay): 0..4 configured KSKs — RSA 1024/2048/
3072/4096 with the fixture exponents (3, 17, 65537, 65539, 2^32+1), P-256, P-384 — each present / absent /
only-private / only-public / in the second slot / in the second module / behind a slot that refuses login; extra
unconfigured token keys; validity timestamps with / without validUntil, non-midnight, with microseconds, with a
non-UTC offset, equal validFrom; two configuration entries for one label (equal records collapse, different ones do
not); identifiers incl. the unescaped boundary (`"`, `<`, `&`: recorded, not judged); output to --trustanchor, to
filenames.output_trustanchor, to stdout; `--hsm` restricting the modules; token faults; key / algorithm mismatches.

KEY-TAG BOUNDARIES (every run, both tiers; variant "keytag-boundary", and mixed into the random cases).  RFC 4034 App. B
adds the high part of the 32-bit accumulator `ac` ONCE and truncates.  The places where a plausible re-implementation
differs are rare among random keys (~2^-10), so they are put on the token on purpose, as configured KSKs, under
algorithms 5 / 8 / 10 and every placement:
  * fixtures/special.json `carry` (real RSA keys with (ac & 0xFFFF) + (ac >> 16) >= 0x10000: a second fold, an
    end-around carry, or a 16-bit accumulator give another tag), `revcarry` (low word >= 0xFF80), `twins` (two
    different keys with the same tag: both configured -> two KeyDigest entries with equal KeyTag);
  * a lattice of public-only token keys (keys.craft_modulus_with_acc; the exporter only reads public objects) with
    (ac & 0xFFFF) + (ac >> 16) = 0x10000 + d for d in {-2, -1, 0, 1, 2, random}, i.e. tags 65534, 65535, 0, 1, 2, ...,
    and with low word 0x0000 / 0xFFFF / 0xFF7F / 0xFF80, for moduli of 1024 / 2048 / 3072 / 4096 bits and exponents
    3 / 65537 / 2^32+1.
The oracle for all of them is dnspython, as for every other key.

EXPONENT-LENGTH BOUNDARIES (every run, both tiers; variant "exponent-length", and mixed into the random cases).  RFC 3110
section 2 writes the exponent length in ONE octet for 1..255 and as 0 + two octets only above 255.  Public-only token
keys (the exporter reads public attributes only) with odd public exponents of 1, 2, 3, 4, 5, 127, 128, 254, 255, 256, 257
octets (leading octet 0x01 / 0x80 / 0xFF / random non-zero, and the values 2^(8k)-1 / 2^(8k)+1 on both sides of the
255 | 256 boundary), moduli of 1024 / 2048 / 4096 bits (e < n), algorithms 5 / 8 / 10, every exporting placement.  The
oracle is dnspython's make_ds over a key field built here from the two INTEGERS by a transcription of RFC 3110
(`rfc3110_field`), cross-checked against harness/keys.py's.  Even exponent lengths also give RDATA of odd length (the
last octet is a high-order octet in RFC 4034 App. B).

ENVIRONMENT INDEPENDENCE (every run, both tiers; `"tz": <zone>` in the case).  The document is a function of the
configuration and the token, not of the time zone of the process: a deterministic block of cases whose validFrom /
validUntil run through harness/tzenv.lattice() (January / July, turn of the year, +-1 h around the DST switches of every
zone), written with offsets +00:00, Z, +02:00, -05:00, +05:30, +10:30 (e.g. `2010-07-15T02:00:00+02:00`), several with
EQUAL and with ADJACENT instants written differently (the sort by validFrom is on instants), plus the first ordinary
random cases, runs under UTC and again with the process zone switched (lib.ProcessTZ) to America/New_York,
Australia/Lord_Howe, Asia/Kolkata and Europe/Berlin: same oracle, same model, and the document must equal the UTC run's
octet for octet.  Validity configured WITHOUT a designator (`2010-07-15T00:00:00`, `2010-07-15`: what YAML gives for
such a scalar) is a recorded boundary: see NAIVE_VALIDITY below.

The REAL `kskm.tools.trustanchor.trustanchor(logger, args, config)` runs against the token emulator.  The written
document is parsed with xml.etree.ElementTree.

ORACLE, from the property text, independent of the code: for every configured KSK whose public object is on the
token (in a slot that could be opened) exactly one KeyDigest with id = label; key tag, algorithm and SHA-256 digest
equal those dnspython computes (`dns.dnssec.make_ds`) for the flags-257 DNSKEY built from the TEST KEY MATERIAL in
RFC 3110 / RFC 6605 form; validFrom / validUntil echo the configuration; entries ordered by validFrom; Zone is '.';
nothing for absent keys, nothing for unconfigured token keys; no private-key operation and no write on the token.

MODEL: log replay (`trustanchor` op of kskm_driver_pkgi): result, complete token operation sequence, header, the
MULTISET of rendered entries (Python's set iteration order is not observable) and footer must agree.
"""

from __future__ import annotations

import contextlib
import io
import json
import logging
import os
import sys
import re
import xml.etree.ElementTree as ET
from argparse import Namespace
from collections import Counter
from datetime import datetime, timedelta, timezone
from pathlib import Path
from typing import Any

import ceremony as C
import keys as K
import lib
import p11emu
import tzenv
from lib import Result

DRIVER = "kskm_driver_pkgi"
ASSUMPTIONS = [
    "the token emulator stands in for a PKCS#11 device",
    "dnspython's make_ds / key tag are the independent RFC 4034 / 4509 reference",
    "the file write (open/write) is an effect the model reports and does not interpret",
    "the process time zone is switched with TZ + tzset (lib.ProcessTZ, which verifies that localtime follows); zones and DST switch instants from the system tz database, cross-checked against the published 2025 rules in harness/tzenv.py; cases without \"tz\" run under UTC (set explicitly)",
    "a configured validity without UTC designator is read as UTC by the oracle and the model (the repository's documented reading of its own timestamps); what the exporter does with it under other process zones is recorded as boundary naive-validity",
]
TRUSTED = ["harness/p11emu.py token emulator", "dnspython (independent DS / key tag)", "xml.etree.ElementTree (standard XML parser; compared with the Lean specification reader XmlSpec.stdRead on every document)"]

SCRATCH = lib.VERIF / ".scratch" / "pkgI" / "ta"
WHAT_DS = "exported DS differs from the independently computed RFC value"
FIXED_UUID = "0f8fad5b-d9cb-469f-a165-70867728950e"

RSA_PROFILES = [(1024, 65537), (1024, 3), (1024, 17), (1024, 65539), (1024, 4294967297), (2048, 65537), (2048, 3), (2048, 17), (2048, 4294967297), (3072, 65537), (3072, 3), (4096, 65537), (4096, 17)]
PLACES = ["present", "present", "present", "absent", "private_only", "public_only", "second_slot", "second_module", "refused_slot"]
VALID_FROM = [
    "2010-07-15T00:00:00+00:00",
    "2017-02-02T00:00:00+00:00",
    "2017-02-02T00:00:00+00:00",  # equal validFrom is likely
    "2019-01-11T13:45:59+00:00",  # non-midnight
    "2024-03-01T06:07:08.123456+00:00",  # microseconds (dropped by the writer)
    "2024-03-01T08:07:08+02:00",  # non-UTC offset: converted
    "1999-12-31T23:59:59+00:00",
    "2038-01-19T03:14:08+00:00",
]
VALID_UNTIL = [None, None, "2030-01-01T00:00:00+00:00", "2019-01-11T00:00:00+00:00", "2025-06-30T12:00:00.5+00:00", "2031-01-01T01:00:00+01:00"]
IDS = ["ta-1", "380DC50D-484E-40D0-A3AE-68F2B18F61C7", "id with spaces", "ünï", "a'b", "x>y"]
BOUNDARY_IDS = ['a"b', "a<b", "a&b", 'q" other="1']


# A validity configured without a UTC designator reaches the exporter as a NAIVE datetime (pydantic / YAML keep it naive);
# `KeyDigest.format_datetime` then calls `astimezone(timezone.utc)` on it, which reads a naive value as LOCAL time of the
# process.  Under UTC the document says what the configuration says; elsewhere it is shifted by the zone offset.  The
# cases are run and recorded (counters boundary:naive-validity:*, notes with the input); they are judged as violations
# only when this switch is on (C18_JUDGE_NAIVE_VALIDITY=1 in the environment; decision of the lead: repair in /repo —
# proposed_fixes/naive_validity_is_utc.diff — or known finding; afterwards make it the default).
JUDGE_NAIVE_VALIDITY = os.environ.get("C18_JUDGE_NAIVE_VALIDITY", "1") == "1"
WHAT_NAIVE = "validFrom / validUntil of a validity configured without a UTC designator depend on the time zone of the process"
WHAT_TZ = "the exported trust anchor depends on the time zone of the process (same configuration and token, run under UTC and under the zone)"

ZONES = {z[0]: z for z in lib.TZ_ZONES}
OFFSET_FORMS = [0, "Z", 120, -300, 330, 630]  # minutes east of UTC; "Z" = the Z designator
EXP_LENGTHS = [1, 2, 3, 4, 5, 127, 128, 254, 255, 256, 257]

_PUB: dict[str, K.TestKey] = {}


def key_of(ref: list[Any]) -> K.TestKey:
    """["rsa", bits, e, i] / ["ec", curve, i]: fixtures/keys.json;  ["special", "carry"|"revcarry", i] / ["special", "twins", pair, i]:
    fixtures/special.json;  ["pub", e, modulus hex]: public-only material carried by the case itself (replayable)."""
    if ref[0] == "rsa":
        return K.rsa_keys(ref[1], ref[2])[ref[3]]
    if ref[0] == "special":
        x = K.special()[ref[1]]
        for i in ref[2:]:
            x = x[i]
        return x
    if ref[0] == "pub":
        key = json.dumps(ref)
        if key not in _PUB:
            _PUB[key] = K.public_only_key(int(ref[2], 16), ref[1])
        return _PUB[key]
    return K.ec_keys(ref[1])[ref[2]]


def special_refs() -> list[list[Any]]:
    sp = K.special()
    out: list[list[Any]] = [["special", kind, i] for kind in ("carry", "revcarry") for i in range(len(sp[kind]))]
    out += [["special", "twins", p, i] for p in range(len(sp["twins"])) for i in (0, 1)]
    return out


FOLD_DELTAS = [-2, -1, 0, 1, 2]
LOW_WORDS = [0x0000, 0xFFFF, 0xFF7F, 0xFF80]


def crafted_ref(r: Any, alg: int, n_len: int, e: int, *, fold: int | None = None, low: int | None = None) -> list[Any]:
    """Public-only key whose flags-257 / `alg` accumulator has (ac & 0xFFFF) + (ac >> 16) == 0x10000 + fold, or low word == low."""
    if fold is not None:
        pred = lambda ac: (ac & 0xFFFF) + (ac >> 16) == 0x10000 + fold  # noqa: E731
    else:
        pred = lambda ac: (ac & 0xFFFF) == low  # noqa: E731
    return ["pub", e, hex(K.craft_modulus_with_acc(pred, 257, alg, r, n_len, e))]


def exponent_of_length(r: Any, octets: int, lead: int | None = None) -> int:
    """An odd public exponent of exactly `octets` octets (leading octet `lead`, non-zero; e > 1)."""
    b = bytearray(r.randbytes(octets))
    b[0] = lead if lead is not None else r.randrange(1, 256)
    b[-1] |= 1
    e = int.from_bytes(bytes(b), "big")
    return 3 if e == 1 else e


def exponent_ref(r: Any, octets: int, n_len: int | None = None, e: int | None = None, lead: int | None = None) -> list[Any]:
    """Public-only key with an exponent of `octets` octets and a random odd modulus (top bit set) longer than the exponent."""
    e = exponent_of_length(r, octets, lead) if e is None else e
    if n_len is None:
        n_len = r.choice([x for x in (128, 256, 512) if x > octets])
    while True:
        n = bytearray(r.randbytes(n_len))
        n[0] |= 0x80
        n[-1] |= 1
        ni = int.from_bytes(bytes(n), "big")
        if ni > e:
            return ["pub", e, hex(ni)]


def rfc3110_field(e: int, n: int) -> bytes:
    """RFC 3110 section 2, transcribed from the two integers: "exponent length: 1 or 3 octets; exponent; modulus.  The
    length in octets of the public exponent is represented as one octet if it is in the range of 1 to 255 and by a zero
    octet followed by a two octet unsigned length if it is longer than 255 bytes."  Leading zero octets are prohibited."""
    el = (e.bit_length() + 7) // 8
    nl = (n.bit_length() + 7) // 8
    assert 1 <= el <= 65535
    head = bytes([el]) if 1 <= el <= 255 else bytes([0, el >> 8, el & 0xFF])
    return head + e.to_bytes(el, "big") + n.to_bytes(nl, "big")


def key_class(ref: list[Any]) -> str:
    if ref[0] == "rsa":
        return f"rsa{ref[1]}"
    if ref[0] == "special":
        return "special:" + ref[1]
    if ref[0] == "pub":
        return "crafted-public"
    return ref[1]


def exponent_octets(ref: list[Any]) -> int | None:
    tk = key_of(ref)
    return (tk.e.bit_length() + 7) // 8 if tk.kind == "rsa" else None


def tag_shape(ref: list[Any], alg: int) -> list[str]:
    """Which key-tag boundary classes the flags-257 DNSKEY of this key falls into (for the evidence counters)."""
    tk = key_of(ref)
    if tk.kind != "rsa":
        return []
    ac = K.tag_accumulator(K.dnskey_rdata(tk, 257, alg))
    f = (ac & 0xFFFF) + (ac >> 16)
    out = []
    if f >= 0x10000:
        out.append("fold-carries")
    if 0xFFFE <= f <= 0x10002:
        out.append(f"fold-sum=0x10000{f - 0x10000:+d}")
    if (ac & 0xFFFF) >= 0xFF80:
        out.append("low-word>=0xFF80")
    return out


def pick_key(r: Any, used: set[str]) -> tuple[list[Any], int]:
    while True:
        if r.random() < 0.3:
            curve = r.choice(["P-256", "P-384"])
            ref = ["ec", curve, r.randrange(len(K.ec_keys(curve)))]
            alg = 13 if curve == "P-256" else 14
        elif r.random() < 0.05:
            # exponent-length boundary keys among the ordinary ones (module docstring)
            alg = r.choice([8, 8, 8, 10, 5])
            ref = exponent_ref(r, r.choice(EXP_LENGTHS))
        elif r.random() < 0.12:
            # key-tag boundary keys among the ordinary ones (module docstring)
            alg = r.choice([8, 8, 8, 10, 5])
            if r.random() < 0.6:
                ref = r.choice(special_refs())
            elif r.random() < 0.7:
                ref = crafted_ref(r, alg, r.choice([128, 256, 384, 512]), r.choice([3, 65537, 65537, 4294967297]), fold=r.choice(FOLD_DELTAS + [r.randrange(3, 24)]))
            else:
                ref = crafted_ref(r, alg, r.choice([128, 256, 384, 512]), r.choice([3, 65537, 65537, 4294967297]), low=r.choice(LOW_WORDS))
        else:
            bits, e = r.choice(RSA_PROFILES)
            ref = ["rsa", bits, e, r.randrange(len(K.rsa_keys(bits, e)))]
            alg = r.choice([8, 8, 8, 10, 5])
        if json.dumps(ref) not in used:
            used.add(json.dumps(ref))
            return ref, alg


def gen_case(r: Any, n: int | None = None) -> dict[str, Any]:
    used: set[str] = set()
    n = r.choice([0, 1, 1, 2, 2, 3, 3, 4, 4]) if n is None else n
    ksks = []
    for i in range(n):
        ref, alg = pick_key(r, used)
        ksks.append({"name": f"k{i}", "label": f"K{'abcd'[i]}_{i}", "key": ref, "alg": alg, "valid_from": r.choice(VALID_FROM), "valid_until": r.choice(VALID_UNTIL), "place": r.choice(PLACES), "wrapped": r.random() < 0.6})
    # a second configuration entry for a label already configured
    if ksks and r.random() < 0.25:
        src = dict(r.choice(ksks))
        src["name"] = "kdup"
        if r.random() < 0.5:
            src["valid_from"] = r.choice(VALID_FROM)
            src["valid_until"] = r.choice(VALID_UNTIL)
        src["place"] = "same_as:" + src["label"]
        ksks.append(src)
    extra = []
    for i in range(r.choice([0, 0, 1, 2, 3])):
        ref, _ = pick_key(r, used)
        extra.append({"label": f"X{i}", "key": ref, "where": r.choice(["first", "second_slot", "second_module"]), "public": r.random() < 0.85, "private": r.random() < 0.7})
    case = {
        "ksks": ksks,
        "extra": extra,
        "id": r.choice(IDS),
        "out": r.choice(["arg", "arg", "config", "stdout"]),
        "pre": r.choice(["absent", "absent", "longer", "longer", "shorter", "binary"]),
        "hsm": None,
        "ttl": r.choice([172800, 172800, 3600, 0]),
        "plan": {},
        "variant": "plain",
    }
    return case


def keytag_boundary_cases(r: Any) -> list[dict[str, Any]]:
    """Deterministic block (same in both tiers): every special fixture key and a lattice of crafted public keys as a
    configured KSK next to 0..2 ordinary ones; the twins configured together."""
    out = []

    def entry(i: int, ref: list[Any], alg: int, place: str) -> dict[str, Any]:
        return {"name": f"s{i}", "label": f"S{'abcdefgh'[i]}_{i}", "key": ref, "alg": alg, "valid_from": r.choice(VALID_FROM), "valid_until": r.choice(VALID_UNTIL), "place": place, "wrapped": True}

    def case_with(entries: list[dict[str, Any]], n_other: int) -> dict[str, Any]:
        c = gen_case(r, n_other)
        c["ksks"] = [k for k in c["ksks"] if k["key"][0] in ("rsa", "ec")][:n_other]
        pos = r.randrange(len(c["ksks"]) + 1)
        c["ksks"][pos:pos] = entries
        c["variant"] = "keytag-boundary"
        return c

    present = ["present", "present", "public_only", "second_slot", "second_module"]
    n = 0
    for ref in special_refs():
        for alg in (8, 10, 5):
            out.append(case_with([entry(0, ref, alg, present[n % len(present)])], n % 3))
            n += 1
    # both twins configured (equal key tags in one document), and all special keys at once
    for p in range(len(K.special()["twins"])):
        for alg in (8, 10, 5):
            out.append(case_with([entry(0, ["special", "twins", p, 0], alg, "present"), entry(1, ["special", "twins", p, 1], alg, r.choice(present))], n % 2))
            n += 1
    out.append(case_with([entry(i, ref, 8, "present") for i, ref in enumerate(special_refs())], 0))
    # the special keys where the exporter must NOT list them
    for ref, place in zip(special_refs(), ["absent", "private_only", "refused_slot", "absent"]):
        out.append(case_with([entry(0, ref, 8, place)], 1))
    # crafted lattice around the fold carry and the REVOKE carry
    for n_len, e in ((128, 65537), (256, 65537), (384, 3), (512, 65537), (256, 4294967297), (128, 3)):
        for alg in (8, 10) if n_len in (128, 256) else (8,):
            for d in FOLD_DELTAS + [r.randrange(3, 24)]:
                out.append(case_with([entry(0, crafted_ref(r, alg, n_len, e, fold=d), alg, present[n % len(present)])], n % 2))
                n += 1
            for low in LOW_WORDS:
                out.append(case_with([entry(0, crafted_ref(r, alg, n_len, e, low=low), alg, "present")], 0))
    return out


def exponent_length_cases(r: Any) -> list[dict[str, Any]]:
    """Deterministic block (same in both tiers): one configured KSK (public-only material) per exponent length x leading
    octet x algorithm, in every exporting placement, next to 0..2 ordinary KSKs; the exact values around 255 | 256 octets."""
    out = []
    present = ["present", "public_only", "second_slot", "second_module", "present"]
    n = 0

    def case_with(ref: list[Any], alg: int) -> dict[str, Any]:
        nonlocal n
        c = gen_case(r, n % 3)
        c["ksks"] = [k for k in c["ksks"] if k["key"][0] in ("rsa", "ec")]
        e = {"name": "e0", "label": f"E{exponent_octets(ref)}_{n}", "key": ref, "alg": alg, "valid_from": r.choice(VALID_FROM), "valid_until": r.choice(VALID_UNTIL), "place": present[n % len(present)], "wrapped": True}
        c["ksks"].insert(r.randrange(len(c["ksks"]) + 1), e)
        c["variant"] = "exponent-length"
        n += 1
        return c

    for octets in EXP_LENGTHS:
        for lead in (0x01, 0x80, 0xFF, None):
            for alg in (8, 10, 5) if lead in (0x01, None) else (8,):
                out.append(case_with(exponent_ref(r, octets, lead=lead), alg))
    # the values on both sides of the one-octet / three-octet length forms, and of the nearest octet counts
    for k in (253, 254, 255, 256):
        for e in ((1 << (8 * k)) - 1, (1 << (8 * k)) + 1):
            out.append(case_with(exponent_ref(r, (e.bit_length() + 7) // 8, n_len=512, e=e), 8))
    # several such keys in one document
    c = gen_case(r, 0)
    c["ksks"] = [{"name": f"e{i}", "label": f"E{octets}_all", "key": exponent_ref(r, octets), "alg": 8, "valid_from": VALID_FROM[i % len(VALID_FROM)], "valid_until": None, "place": "present", "wrapped": True} for i, octets in enumerate((254, 255, 256, 257))]
    c["variant"] = "exponent-length"
    out.append(c)
    return out


def stamp(s: int, form: Any) -> str:
    """Instant `s` (seconds since the epoch) as a configuration scalar: form "Z", "naive", "date" or minutes east of UTC."""
    if form == "Z":
        return tzenv.iso_utc(s, "Z")
    if form == "naive":
        return tzenv.iso_utc(s)
    if form == "date":
        return tzenv.iso_utc(s)[:10]
    return tzenv.iso_offset(s, form)


def validity_lattice_cases(r: Any) -> list[dict[str, Any]]:
    """Deterministic block: 2..4 configured RSA / EC KSKs whose validFrom (and validUntil) run through tzenv.lattice(),
    each written with another UTC offset; neighbours in the lattice land in one document, so the sort by validFrom has
    to order instants that are 1 s / 30 min / 1 h apart and written in different offsets; one document per chunk repeats
    an instant in two notations (equal validFrom)."""
    lat = tzenv.lattice()
    out = []
    used: set[str] = set()
    for start in range(0, len(lat), 3):
        chunk = lat[start : start + 4]  # overlapping by one: every adjacent pair shares a document
        c = gen_case(r, 0)
        ksks = []
        for i, (label, s) in enumerate(chunk):
            ref, alg = pick_key(r, used)
            while ref[0] not in ("rsa", "ec"):
                ref, alg = pick_key(r, used)
            form = OFFSET_FORMS[(start + i) % len(OFFSET_FORMS)]
            until = None if (start + i) % 3 == 0 else stamp(s + (86400 * 365 if i % 2 else 1800), OFFSET_FORMS[(start + i + 2) % len(OFFSET_FORMS)])
            ksks.append({"name": f"k{i}", "label": f"K{'abcd'[i]}_{i}", "key": ref, "alg": alg, "valid_from": stamp(s, form), "valid_until": until, "place": ["present", "public_only", "second_slot", "second_module"][(start + i) % 4], "wrapped": True})
        if start % 2 == 0 and len(ksks) >= 2:
            # the first instant once more in another notation
            ksks[-1]["valid_from"] = stamp(chunk[0][1], OFFSET_FORMS[(start + 3) % len(OFFSET_FORMS)])
        r.shuffle(ksks)
        c["ksks"] = ksks
        c["extra"] = []
        c["out"] = ["arg", "config", "stdout"][(start // 3) % 3]
        c["variant"] = "validity-lattice"
        out.append(c)
    # the property's own example: the 2010 root KSK written with +02:00
    c = gen_case(r, 0)
    c["ksks"] = [
        {"name": "k0", "label": "Ka_0", "key": ["rsa", 2048, 65537, 0], "alg": 8, "valid_from": "2010-07-15T00:00:00+02:00", "valid_until": "2019-01-11T00:00:00+02:00", "place": "present", "wrapped": True},
        {"name": "k1", "label": "Kb_1", "key": ["rsa", 2048, 65537, 1], "alg": 8, "valid_from": "2010-07-14T23:30:00+00:00", "valid_until": None, "place": "present", "wrapped": True},
        {"name": "k2", "label": "Kc_2", "key": ["ec", "P-256", 0], "alg": 13, "valid_from": "2010-07-14T17:45:00-05:00", "valid_until": None, "place": "present", "wrapped": True},
    ]
    c["variant"] = "validity-lattice"
    out.append(c)
    return out


def naive_validity_cases(r: Any) -> list[dict[str, Any]]:
    """Validity written without a UTC designator (all entries of a document alike: naive and aware values do not compare)."""
    lat = dict(tzenv.lattice())
    out = []
    for form, labels in (("naive", ["root-ksk-2010", "january-noon", "july-midnight", "Europe/Berlin:switch0+0s"]), ("date", ["root-ksk-2010", "year-start", "july-midnight"])):
        c = gen_case(r, 0)
        c["ksks"] = [{"name": f"k{i}", "label": f"K{'abcd'[i]}_{i}", "key": ["rsa", 2048, 65537, i], "alg": 8, "valid_from": stamp(lat[lab], form), "valid_until": None if i % 2 else stamp(lat[lab] + 86400 * 400, form), "place": "present", "wrapped": True} for i, lab in enumerate(labels)]
        c["extra"] = []
        c["variant"] = "naive-validity"
        out.append(c)
    return out


def under_zones(cases: list[dict[str, Any]]) -> list[dict[str, Any]]:
    """Every case once as it is (the process zone of the run: UTC) and once per non-UTC zone."""
    out = []
    for c in cases:
        out.append(c)
        for z in lib.non_utc_zones():
            cz = json.loads(json.dumps(c))
            cz["tz"] = z[0]
            out.append(cz)
    return out


def special_cases(r: Any) -> list[dict[str, Any]]:
    out = []
    # the unescaped-identifier boundary (DESIGN §5): recorded, not judged
    for ident in BOUNDARY_IDS:
        c = gen_case(r, 2)
        c["id"] = ident
        c["variant"] = "boundary-id"
        out.append(c)
    # id absent / empty: uuid4() is used
    for ident in (None, ""):
        c = gen_case(r, 1)
        c["id"] = ident
        c["variant"] = "uuid"
        out.append(c)
    # --hsm restricts the initialised modules
    for name in ("hsm0", "hsm1", "nosuch", ""):  # "" is falsy: no restriction, no error
        c = gen_case(r, 3)
        c["hsm"] = name
        c["variant"] = "hsm-name"
        out.append(c)
    # token faults at every early position
    base = gen_case(r, 2)
    for kk in base["ksks"]:
        kk["place"] = "present"
    for i in range(0, 26, 1):
        c = json.loads(json.dumps(base))
        c["plan"] = {str(i): {"kind": r.choice(["error", "missing", "duplicate", "unreadable"])}}
        c["variant"] = "fault"
        out.append(c)
    # two objects under one label in one slot
    c = gen_case(r, 2)
    if c["ksks"]:
        c["ksks"][0]["place"] = "duplicate"
    c["variant"] = "duplicate-object"
    out.append(c)
    # configured algorithm family does not fit the token key (the exporter does not check: boundary)
    for alg, ref in ((13, ["rsa", 2048, 65537, 0]), (8, ["ec", "P-256", 0]), (14, ["ec", "P-256", 1]), (13, ["ec", "P-384", 0])):
        c = gen_case(r, 1)
        c["ksks"] = [{"name": "k0", "label": "Kmis", "key": ref, "alg": alg, "valid_from": VALID_FROM[0], "valid_until": None, "place": "present", "wrapped": True}]
        c["variant"] = "family-mismatch"
        out.append(c)
    # all-equal validFrom, four keys
    c = gen_case(r, 4)
    for kk in c["ksks"]:
        kk["valid_from"] = VALID_FROM[1]
        kk["place"] = "present"
    c["variant"] = "equal-validfrom"
    out.append(c)
    # EC public object without a point
    c = gen_case(r, 1)
    c["ksks"] = [{"name": "k0", "label": "Kec", "key": ["ec", "P-256", 2], "alg": 13, "valid_from": VALID_FROM[0], "valid_until": None, "place": "ec_no_point", "wrapped": True}]
    c["variant"] = "ec-no-point"
    out.append(c)
    return out


# --------------------------------------------------------------------------------------
# materialise a case
# --------------------------------------------------------------------------------------


def build(case: dict[str, Any]) -> tuple[p11emu.World, Any, dict[str, Any]]:
    import PyKCS11.LowLevel as LL

    s00, s01, s07 = p11emu.EmuSlot(0), p11emu.EmuSlot(1), p11emu.EmuSlot(7, login_ok=False)
    s10 = p11emu.EmuSlot(0)
    world = p11emu.World([p11emu.EmuModule("emu0", [s00, s07, s01]), p11emu.EmuModule("emu1", [s10])])
    # an unrelated object first, so that handle numbers differ from counts
    s00.add_secret("Sec")
    present: dict[str, bool] = {}

    def put(slot: p11emu.EmuSlot, label: str, tk: K.TestKey, public: bool, private: bool, wrapped: bool = True) -> None:
        if tk.kind == "rsa":
            slot.add_rsa(label, tk, public=public, private=private)
        else:
            slot.add_ec(label, tk, public=public, private=private, wrapped_point=wrapped)

    for k in case["ksks"]:
        tk = key_of(k["key"])
        pl = k["place"]
        if pl.startswith("same_as:"):
            continue
        if pl == "present":
            put(s00, k["label"], tk, True, True, k.get("wrapped", True))
        elif pl == "private_only":
            put(s00, k["label"], tk, False, True)
        elif pl == "public_only":
            put(s00, k["label"], tk, True, False, k.get("wrapped", True))
        elif pl == "second_slot":
            put(s01, k["label"], tk, True, True, k.get("wrapped", True))
        elif pl == "second_module":
            put(s10, k["label"], tk, True, True, k.get("wrapped", True))
        elif pl == "refused_slot":
            put(s07, k["label"], tk, True, True)
        elif pl == "duplicate":
            put(s00, k["label"], tk, True, True)
            put(s00, k["label"], tk, True, False)
        elif pl == "ec_no_point":
            s00.add(p11emu.EmuObject(LL.CKO_PUBLIC_KEY, k["label"], LL.CKK_EC, {int(LL.CKA_EC_PARAMS): K.EC_OID["P-256"]}, tk))
    for x in case["extra"]:
        tk = key_of(x["key"])
        slot = {"first": s00, "second_slot": s01, "second_module": s10}[x["where"]]
        put(slot, x["label"], tk, x["public"], x["private"])
    world.plan = {int(i): dict(f) for i, f in case["plan"].items()}

    ksk = {}
    for k in case["ksks"]:
        tk = key_of(k["key"])
        e = C.ksk_config_entry(k["label"], tk, k["alg"] if (tk.kind == "rsa") == (k["alg"] in (5, 8, 10)) else (8 if tk.kind == "rsa" else 13), valid_from=k["valid_from"], valid_until=k["valid_until"])
        e["algorithm"] = C.ALG_NAME[k["alg"]]
        if k["alg"] in (13, 14):
            e.pop("rsa_size", None)
            e.pop("rsa_exponent", None)
        ksk[k["name"]] = e
    SCRATCH.mkdir(parents=True, exist_ok=True)
    out_arg = SCRATCH / "out_arg.xml"
    out_cfg = SCRATCH / "out_cfg.xml"
    for p in (out_arg, out_cfg):
        if p.exists():
            p.unlink()
    # what is at the output path BEFORE the export is part of the environment (a re-export after a key was retired writes a
    # SHORTER document to the same path): absent / an older, longer export / a shorter file / a file of another kind
    pre = case.get("pre", "absent")
    pre_content: dict[str, bytes] = {}
    if pre != "absent":
        old_doc = b'<?xml version="1.0" encoding="UTF-8"?>\n<TrustAnchor id="OLD" source="http://data.iana.org/root-anchors/root-anchors.xml">\n<Zone>.</Zone>\n'
        old_doc += b"".join(b'<KeyDigest id="Kold%d" validFrom="2010-07-15T00:00:00+00:00">\n<KeyTag>%d</KeyTag>\n<Algorithm>8</Algorithm>\n<DigestType>2</DigestType>\n<Digest>%s</Digest>\n</KeyDigest>\n' % (i, 19036 + i, b"AB" * 32) for i in range(40))
        old_doc += b"</TrustAnchor>\n"
        content = {"longer": old_doc, "shorter": b"<old/>\n", "binary": bytes(range(256)) * 64}[pre]
        target = out_arg if case["out"] == "arg" else out_cfg if case["out"] == "config" else None
        if target is not None:
            target.write_bytes(content)
            pre_content = {("out_arg" if target is out_arg else "out_cfg"): content}
    filenames = {"output_trustanchor": str(out_cfg)} if case["out"] == "config" else None
    cfg = C.make_config({"hsm0": {"module": "emu0", "pin": "1234"}, "hsm1": {"module": "emu1", "pin": 4321}}, ksk, {}, ksk_policy={"ttl": case["ttl"]}, filenames=filenames)
    info = {"out_arg": out_arg, "out_cfg": out_cfg, "pre_content": pre_content}
    return world, cfg, info


def usable_place(case: dict[str, Any], k: dict[str, Any]) -> str:
    pl = k["place"]
    if pl.startswith("same_as:"):
        lab = pl.split(":", 1)[1]
        for o in case["ksks"]:
            if o["label"] == lab and not o["place"].startswith("same_as:"):
                return usable_place(case, o)
    return pl


def present_on_token(case: dict[str, Any], k: dict[str, Any]) -> bool:
    """Is the public object of this configured KSK in a slot of an initialised module that could be opened?"""
    pl = usable_place(case, k)
    if pl in ("present", "public_only", "second_slot"):
        return case["hsm"] in (None, "", "hsm0")  # an empty --hsm is "not given"
    if pl == "second_module":
        return case["hsm"] in (None, "", "hsm1")
    return False


# --------------------------------------------------------------------------------------
# the independent oracle
# --------------------------------------------------------------------------------------


def rfc_ds(tk: K.TestKey, alg: int, prefixed: bool = False) -> tuple[int, str]:
    import dns.dnssec
    import dns.name
    import dns.rdataclass
    import dns.rdatatype
    from dns.rdtypes.ANY.DNSKEY import DNSKEY

    pk = tk.dnskey_public_key() if not (prefixed and tk.kind == "ec") else tk.ec_point(prefix=True)
    if tk.kind == "rsa" and pk != rfc3110_field(tk.e, tk.n):
        raise AssertionError("harness: keys.py and the RFC 3110 transcription of corr_C18 build different key fields")
    key = DNSKEY(dns.rdataclass.IN, dns.rdatatype.DNSKEY, 257, 3, alg, pk)
    ds = dns.dnssec.make_ds(dns.name.root, key, "SHA256")
    return ds.key_tag, ds.digest.hex().upper()


def parse_instant(text: str) -> datetime:
    """The configured instant as an aware UTC datetime.  A scalar without designator is read as UTC (the reading the
    repository documents for its own timestamps: "If the timestamp contains no timezone, UTC is assumed") — never as
    local time of this process."""
    dt = datetime.fromisoformat(text)
    if dt.tzinfo is None:
        return dt.replace(tzinfo=timezone.utc)
    return dt.astimezone(timezone.utc)


def fmt_dt(text: str | None) -> str | None:
    if text is None:
        return None
    dt = parse_instant(text)
    return f"{dt.year:04d}-{dt.month:02d}-{dt.day:02d}T{dt.hour:02d}:{dt.minute:02d}:{dt.second:02d}+00:00"


def expected_entries(case: dict[str, Any]) -> tuple[Counter, Counter]:
    """(RFC expectation, expectation with the SEC 1 prefix kept for EC keys) as multisets of
    (id, validFrom, validUntil, tag, alg, digest); equal records collapse (the document holds a set)."""
    want, want_prefixed = set(), set()
    for k in case["ksks"]:
        if not present_on_token(case, k):
            continue
        tk = key_of(k["key"])
        tag, dg = rfc_ds(tk, k["alg"])
        ptag, pdg = rfc_ds(tk, k["alg"], prefixed=True)
        # equal records collapse; "equal" is on the configured INSTANTS (microseconds included), the writer shows seconds
        inst = (parse_instant(k["valid_from"]), None if k["valid_until"] is None else parse_instant(k["valid_until"]))
        vf, vu = fmt_dt(k["valid_from"]), fmt_dt(k["valid_until"])
        want.add((inst, (k["label"], vf, vu, tag, k["alg"], dg)))
        want_prefixed.add((inst, (k["label"], vf, vu, ptag, k["alg"], pdg)))
    return Counter(e for _, e in want), Counter(e for _, e in want_prefixed)


def parse_entries(root: ET.Element) -> list[tuple[Any, ...]]:
    out = []
    for kd in root.findall("KeyDigest"):
        out.append((kd.get("id"), kd.get("validFrom"), kd.get("validUntil"), int(kd.findtext("KeyTag")), int(kd.findtext("Algorithm")), kd.findtext("Digest"), int(kd.findtext("DigestType"))))
    return out


def split_doc(doc: str) -> dict[str, Any]:
    j = doc.rfind("</TrustAnchor>")
    i = doc.find("<KeyDigest ")
    if j < 0:
        return {"header": doc, "entries": [], "footer": ""}
    if i < 0 or i > j:
        return {"header": doc[:j], "entries": [], "footer": doc[j:]}
    body = doc[i:j]
    entries = [e + "</KeyDigest>\n" for e in body.split("</KeyDigest>\n") if e]
    return {"header": doc[:i], "entries": entries, "footer": doc[j:]}


_VF = re.compile(r'validFrom="(\d+)-(\d\d)-(\d\d)T(\d\d):(\d\d):(\d\d)\+00:00"')


def valid_from_key(entry_text: str) -> tuple[int, ...] | None:
    m = _VF.search(entry_text)
    return tuple(int(x) for x in m.groups()) if m else None


# --------------------------------------------------------------------------------------
# the locale of the process is part of the environment
# --------------------------------------------------------------------------------------

LOCALE_IDS = ["root-anchors-2030", "Kcl\u00e9_2024", "\u6839\u533a-anchor", "id \u2013 with dash", "\u00e4"]


def locale_stream(r: Any, tier: str, res: Result) -> None:
    """The same export in a CHILD interpreter whose locale is C with UTF-8 mode off (LC_ALL=C PYTHONUTF8=0 PYTHONCOERCECLOCALE=0:
    the preferred encoding is ASCII) and, as the control, C.UTF-8 — with identifiers that contain non-ASCII characters (legal:
    `--id` is free text, labels are `\\w`).  The document declares encoding UTF-8: what is written must not depend on the locale.
    Judged like every other case (the file written, read with ElementTree, against dnspython's DS values)."""
    import subprocess

    cases = []
    for i, ident in enumerate(LOCALE_IDS * (1 if tier == "quick" else 4)):
        c = gen_case(r, 1 + i % 3)
        c.update(id=ident, out=("arg" if i % 2 == 0 else "config"), variant="plain", pre=r.choice(["absent", "longer"]), plan={}, hsm=None)
        cases.append(c)
    for label, env in (("C", {"LC_ALL": "C", "LANG": "C", "PYTHONUTF8": "0", "PYTHONCOERCECLOCALE": "0"}), ("C.UTF-8", {"LC_ALL": "C.UTF-8", "LANG": "C.UTF-8", "PYTHONUTF8": "0"})):
        code = (
            "import sys, json; sys.path.insert(0, sys.argv[1]); import lib, corr_C18 as M; import locale\n"
            "cases = json.loads(sys.stdin.buffer.read().decode('utf-8'))\n"
            "out = [{k: v for k, v in M.run_case(c).items() if k in ('impl', 'doc', 'where', 'written', 'printed', 'log')} for c in cases]\n"
            "sys.stdout.buffer.write(json.dumps({'encoding': locale.getpreferredencoding(False), 'runs': out}).encode('ascii'))\n"
        )
        e = dict(os.environ, **env)
        cp = subprocess.run([sys.executable, "-c", code, str(lib.VERIF / "harness")], input=json.dumps(cases).encode("utf-8"), stdout=subprocess.PIPE, stderr=subprocess.PIPE, env=e, cwd=str(lib.VERIF), timeout=600)
        if cp.returncode != 0:
            res.disagreement("harness self-test: the child interpreter of the locale stream failed", {"locale": label}, cp.stderr.decode(errors="replace")[-600:], None)
            continue
        got = json.loads(cp.stdout.decode("ascii"))
        res.bump(f"locale:{label}:preferred-encoding:{got['encoding']}")
        if label == "C" and "utf" in got["encoding"].lower():
            res.disagreement("harness self-test: the C-locale child still prefers UTF-8 (the locale stream would be vacuous)", {"locale": label}, got["encoding"], None)
        for c, run_ in zip(cases, got["runs"]):
            case = dict(c, locale=label)
            res.count(case)
            res.bump("variant:locale")
            res.bump("outcome:" + ("ok" if "ok" in run_["impl"] else "error"))
            if "ok" not in run_["impl"] and not c["plan"]:
                res.violation("healthy token and configuration: the export failed under this locale", case, key=f"locale:{label}:failed", impl=run_["impl"], written={k: len(v) for k, v in run_["written"].items()})
            judge(case, run_, res)


# --------------------------------------------------------------------------------------
# one case
# --------------------------------------------------------------------------------------


def run_case(case: dict[str, Any]) -> dict[str, Any]:
    """`"tz": <zone name>` in the case: the whole run (loading the configuration, the export, reading the document back)
    happens with the time zone of the process switched to that zone (lib.ProcessTZ)."""
    if case.get("tz"):
        with tzenv.zone(ZONES[case["tz"]]):
            return _run_case(case)
    return _run_case(case)


def _run_case(case: dict[str, Any]) -> dict[str, Any]:
    import kskm.tools.trustanchor as TA

    world, cfg, info = build(case)
    path_arg = str(info["out_arg"]) if case["out"] == "arg" else None
    args = Namespace(config=None, debug=False, trustanchor=path_arg, id=case["id"], hsm=case["hsm"])
    logger = logging.getLogger("verif.c18")
    stdout = io.StringIO()

    class _U:
        def __str__(self) -> str:
            return FIXED_UUID

    orig_uuid4 = TA.uuid.uuid4
    TA.uuid.uuid4 = lambda: _U()  # type: ignore[assignment]
    try:
        with world.installed(), C.Oracles() as orc, contextlib.redirect_stdout(stdout):
            impl = lib.run_impl(lambda: TA.trustanchor(logger, args, cfg), lambda x: x)
            orcs = orc.take()
    finally:
        TA.uuid.uuid4 = orig_uuid4  # type: ignore[assignment]
    written: dict[str, str] = {}
    for name in ("out_arg", "out_cfg"):
        p: Path = info[name]
        if p.exists():
            if info["pre_content"].get(name) == p.read_bytes():
                continue  # what was there before the run, untouched: nothing was written
            written[name] = p.read_bytes().decode("utf-8", "surrogateescape")
    printed = stdout.getvalue()
    doc = None
    where = None
    if "ok" in impl:
        if case["out"] == "arg":
            doc, where = written.get("out_arg"), "file"
        elif case["out"] == "config":
            doc, where = written.get("out_cfg"), "file"
        else:
            doc, where = (printed[:-1] if printed.endswith("\n") else printed), "stdout"
    line = {
        "op": "trustanchor",
        "hsm": C.hsm_j(cfg),
        "kskKeys": [{"name": n, "key": C.ksk_j(k)} for n, k in cfg.ksk_keys.items()],
        "args": {"id": case["id"], "uuid": FIXED_UUID, "trustanchor": path_arg, "hsm": case["hsm"]},
        "ttl": cfg.ksk_policy.ttl,
        "outputTrustanchor": None if cfg.filenames.output_trustanchor is None else str(cfg.filenames.output_trustanchor),
        "hashes": orcs["hashes"],
        "log": C.canon_log(world.log),
    }
    return {"impl": impl, "doc": doc, "where": where, "written": written, "printed": printed, "log": C.canon_log(world.log), "line": line}


def judge(case: dict[str, Any], run: dict[str, Any], res: Result) -> bool:
    """Evaluate the property on the implementation's output.  Returns True when a violation was recorded."""
    bad = False
    impl, doc = run["impl"], run["doc"]
    log = run["log"]
    # no private-key operation, no write to the token — whatever the outcome
    for rec in log:
        if rec["op"] in ("sign", "generateKeyPair", "destroyObject"):
            res.violation("the trust anchor exporter used the token for more than reading", case, key="token-write:" + rec["op"], op=rec)
            bad = True
    # the only labels asked for are configured labels
    labels = {k["label"] for k in case["ksks"]}
    for rec in log:
        if rec["op"] == "findObjects":
            t = dict((a, v) for a, v in rec["template"])
            if t.get("LABEL") not in labels or t.get("CLASS") != 2:
                res.violation("the exporter looked up something other than the public object of a configured label", case, key="lookup", op=rec)
                bad = True
    if "ok" not in impl:
        # a failed run must not leave a document behind
        if run["written"] or run["printed"]:
            res.violation("a failed export left a document behind", case, key="failed-but-wrote", impl=impl)
            bad = True
        return bad
    if impl["ok"] is not True:
        res.violation("trustanchor() did not return True on success", case, key="return", impl=impl)
        return True
    if doc is None:
        res.violation("successful export but no document at the configured place", case, key="no-document", impl=impl)
        return True
    if len([x for x in (run["written"].get("out_arg"), run["written"].get("out_cfg"), run["printed"] or None) if x]) != 1:
        res.violation("the document was not written exactly once to exactly one place", case, key="places", written=list(run["written"]), printed=bool(run["printed"]))
        bad = True
    if case["variant"] == "family-mismatch":
        res.bump("boundary:family-mismatch-exported")
        return bad  # outside the property: configuration does not describe the token key
    if case["plan"]:
        res.bump("fault-run-succeeded")
        return bad  # a fault changes what the token shows (a slot drops out, an object hides): the content oracle does not apply
    try:
        root = ET.fromstring(doc)
    except (ET.ParseError, UnicodeError):  # UnicodeError: octets in the file that are not UTF-8 (read back with surrogateescape)
        if case["variant"] == "boundary-id":
            res.bump("boundary:unescaped-id-not-wellformed")  # DESIGN §5: recorded witness, not judged
            return bad
        res.violation("the exported document is not well-formed XML", case, key="wellformed", doc=doc[:400])
        return True
    if case["variant"] == "boundary-id":
        res.bump("boundary:unescaped-id-parsed-differently" if root.get("id") != case["id"] else "boundary:unescaped-id-harmless")
        if root.get("id") != case["id"]:
            return bad
    if root.tag != "TrustAnchor" or root.findtext("Zone") != "." or len(root.findall("Zone")) != 1:
        res.violation("document is not a TrustAnchor for zone '.'", case, key="zone", doc=doc[:300])
        bad = True
    want_id = case["id"] or FIXED_UUID
    if root.get("id") != want_id:
        res.violation("TrustAnchor id is not the requested identifier", case, key="id", got=root.get("id"), want=want_id)
        bad = True
    got = parse_entries(root)
    if any(g[6] != 2 for g in got):
        res.violation("digest type is not 2 (SHA-256)", case, key="digest-type", got=got)
        bad = True
    got_c = Counter(g[:6] for g in got)
    want, want_prefixed = expected_entries(case)
    if case["variant"] == "naive-validity":
        # see JUDGE_NAIVE_VALIDITY: expectation = the scalar read as UTC
        strip = lambda c: Counter({(e[0], e[3], e[4], e[5]): n for e, n in c.items()})  # noqa: E731
        if got_c != want and strip(got_c) == strip(want):
            res.bump(f"boundary:naive-validity:shifted-by-the-process-zone:{case.get('tz') or 'UTC'}")
            shown = sorted((g[0], g[1], g[2]) for g in got)
            res.notes.append(f"naive-validity [{case.get('tz') or 'UTC'}]: configured {[(k['label'], k['valid_from'], k['valid_until']) for k in case['ksks']]} exported as {shown}")
            if JUDGE_NAIVE_VALIDITY:
                res.violation(WHAT_NAIVE, case, key="naive-validity", got=shown, want=sorted((e[0], e[1], e[2]) for e in want))
                return True
            return bad
        if got_c == want:
            res.bump(f"boundary:naive-validity:as-configured:{case.get('tz') or 'UTC'}")
    if got_c != want:
        # which keys differ?
        ec_algs = sorted({k["alg"] for k in case["ksks"] if key_of(k["key"]).kind == "ec" and present_on_token(case, k)})
        rsa_part = lambda c: Counter({e: n for e, n in c.items() if e[4] not in (13, 14)})  # noqa: E731
        if rsa_part(got_c) != rsa_part(want) or {e[:3] for e in got_c} != {e[:3] for e in want}:
            strip = lambda c, cols: Counter({tuple(e[i] for i in cols): n for e, n in c.items()})  # noqa: E731
            if strip(got_c, (0, 1, 2, 4)) == strip(want, (0, 1, 2, 4)):
                # the same keys under the same ids / validity / algorithms: what differs is a stated key tag or digest of an RSA key
                only_tag = strip(rsa_part(got_c), (0, 1, 2, 4, 5)) == strip(rsa_part(want), (0, 1, 2, 4, 5))
                res.violation(WHAT_DS, case, key="rsa:keytag" if only_tag else "rsa:digest", got=sorted(rsa_part(got_c) - rsa_part(want), key=repr), want=sorted(rsa_part(want) - rsa_part(got_c), key=repr))
            else:
                res.violation("exported KeyDigest set differs from the configured keys present on the token (RSA part / ids / validity)", case, key="entries", got=sorted(got_c, key=repr), want=sorted(want, key=repr))
        elif got_c == want_prefixed:
            for a in ec_algs:
                res.violation(WHAT_DS, case, key=f"ecdsa:alg{a}", got=sorted((e for e in got_c if e[4] == a), key=repr), want=sorted((e for e in want if e[4] == a), key=repr), note="the exported value is the DS of the SEC 1 point WITH its 0x04 octet (DESIGN §5 F4)")
        else:
            res.violation(WHAT_DS, case, key="ecdsa:other", got=sorted(got_c, key=repr), want=sorted(want, key=repr))
        bad = True
    # ordered by validFrom
    keys = [tuple(int(x) for x in _VF.search(f'validFrom="{g[1]}"').groups()) if _VF.search(f'validFrom="{g[1]}"') else None for g in got]
    if None in keys or any(a > b for a, b in zip(keys, keys[1:])):
        res.violation("entries are not ordered by validFrom", case, key="order", got=[g[1] for g in got])
        bad = True
    return bad


def compare_model(case: dict[str, Any], run: dict[str, Any], o: dict[str, Any], res: Result) -> None:
    if "driver_error" in o:
        res.disagreement("driver error", case, run["impl"], o)
        return
    m = o["result"]
    impl = run["impl"]
    if lib.is_unsupported(m):
        # the model left the recorded run (the replaying token or the hash table was asked something that was not
        # recorded): a difference between model and implementation, never silently "unsupported"
        res.disagreement("trustanchor: model leaves the recorded run (replay / oracle miss)", case, impl, m, log_difference=C.first_log_difference(run["log"], o["log"]))
        return
    d = C.first_log_difference(run["log"], o["log"])
    if ("ok" in impl) != (isinstance(m, dict) and "ok" in m):
        res.disagreement("trustanchor: model result != implementation", case, impl, {k: v for k, v in m.items() if k != "ok"} if isinstance(m, dict) else m, log_difference=d)
        return
    if d is not None:
        res.disagreement("trustanchor: model issues different token operations", case, impl, "log", log_difference=d)
        return
    if "ok" not in impl:
        return
    mo = m["ok"]
    parts = split_doc(run["doc"] or "")
    if mo["output"] != run["where"]:
        res.disagreement("trustanchor: model writes to a different place", case, run["where"], mo["output"])
    elif parts["header"] != mo["header"] or parts["footer"] != mo["footer"]:
        res.disagreement("trustanchor: header / footer differ", case, {"header": parts["header"], "footer": parts["footer"]}, {"header": mo["header"], "footer": mo["footer"]})
    elif Counter(parts["entries"]) != Counter(mo["entries"]):
        res.disagreement("trustanchor: rendered entries differ (as multisets)", case, sorted(parts["entries"]), sorted(mo["entries"]))
    else:
        ks = [valid_from_key(e) for e in mo["entries"]]
        if None not in ks and any(a > b for a, b in zip(ks, ks[1:])):
            res.disagreement("trustanchor: model entries not sorted", case, None, mo["entries"])
        # when the validFrom values are pairwise distinct the order is determined: whole documents must agree
        ksi = [valid_from_key(e) for e in parts["entries"]]
        if len(set(ksi)) == len(ksi) and (run["doc"] or "") + ("\n" if run["where"] == "stdout" else "") != mo["content"]:
            res.disagreement("trustanchor: documents differ although the order is determined", case, run["doc"], mo["content"])


# ---------------------------------------------------------------------------------------------------------------------
# "The exported document is well-formed XML and MEANS the anchor" — three-way: the text the real code wrote, the
# specification reader `XmlSpec.stdRead` of the Lean side (theorem C18_document_wellformed is about it), ElementTree.
# ---------------------------------------------------------------------------------------------------------------------

WHAT_MEANING = "the exported document does not mean the trust anchor (clean free text, standard XML reading differs from the anchor's fields)"

# identifiers through the real `trustanchor` entry point: XML-significant characters, white space a reader normalises,
# characters outside XML's Char production, non-ASCII, attribute / element / comment injection, references
HOSTILE_IDS = [
    'a"', '"', "a<", "<", "&", "a&amp;b", "a&#65;b", "a&b;", "a>b", "a]]>b", "a'b\"c", "a\tb", "a\nb", "a\rb", "a\r\nb", " a ", "a  b",
    "éü€", "\U0001F600", "a\x01b", "a\x7fb", "a\ufffeb", "a\uffffb", "a\u0085b", "a\u2028b",
    'a" x="1', 'a" id="b', 'a" source="q', 'a" x="1" x="2', 'a"x="1', 'a" x ="1', 'a" x = "1', "a\" x='1'", 'a" x="<', 'a" x="&', 'a" 1x="1', 'a" -x="1',
    'a" é="1', 'a" xé="1', 'a" xmlns="urn:x', 'a" p:q="1', 'a" x="1\ty',
    'a"><Zone>evil</Zone><X y="', 'a"/><!--', 'a"><!-- c --><X y="', 'a"><?pi?><X y="', 'a"><![CDATA[x]]><X y="', 'a"></TrustAnchor><TrustAnchor id="b',
    'a" >\n<Zone>.</Zone>\n</TrustAnchor>\n<!-- ', 'a"\n\tx="1', 'a"\r\nx="1',
]
HOSTILE_PIECES = ['"', "<", "&", ">", "'", " ", "\t", "\n", "\r", "\r\n", "é", "€", "\U0001F600", "\x01", "\x7f", "\ufffe", "]]>", "&amp;", "&#65;", "<!--", "-->",
                  "<?", "?>", "/>", "=", 'x="1"', ' id="z"', ' y="', ' xmlns="u"', " p:q=\"1\"", "a", "B", "0", "-", ".", "_", ":", "/", "</Zone>", "<Zone>"]


def hostile_text(r: Any) -> str:
    return "".join(r.choice(HOSTILE_PIECES) for _ in range(r.randint(1, 6)))


def hostile_id_cases(r: Any, n_random: int) -> list[dict[str, Any]]:
    """The unescaped-identifier boundary widened (same variant, same handling in judge()): what the real entry point writes
    for such an identifier goes to the specification reader and to ElementTree."""
    out = []
    for ident in HOSTILE_IDS + [hostile_text(r) for _ in range(n_random)]:
        c = gen_case(r, r.choice([0, 1, 2]))
        c["id"] = ident
        c["variant"] = "boundary-id"
        c["hostile"] = True
        out.append(c)
    return out


def xml_char(c: str) -> bool:
    """XML 1.0 production [2] Char."""
    o = ord(c)
    return o in (9, 10, 13) or 0x20 <= o <= 0xD7FF or 0xE000 <= o <= 0xFFFD or 0x10000 <= o <= 0x10FFFF


def attr_clean(s: str) -> bool:
    """free text that means itself inside a double-quoted attribute value (XML 1.0 [10], 3.3.3)"""
    return all(c not in '"<&\t\n\r' and xml_char(c) for c in s)


def text_clean(s: str) -> bool:
    """free text that means itself as element content (XML 1.0 [14], 2.11)"""
    return all(c not in "<&>\r" and xml_char(c) for c in s)


def et_tree(e: ET.Element) -> dict[str, Any]:
    ch: list[dict[str, Any]] = []
    if e.text:
        ch.append({"text": e.text})
    for k in e:
        ch.append(et_tree(k))
        if k.tail:
            ch.append({"text": k.tail})
    return {"name": e.tag, "attrs": [[a, v] for a, v in e.attrib.items()], "children": ch}


def et_read(text: str) -> Any:
    try:
        return {"tree": et_tree(ET.fromstring(text))}
    except (ET.ParseError, UnicodeError):
        return "malformed"


def uses_namespaces(t: dict[str, Any]) -> bool:
    if "text" in t:
        return False
    return any(a == "xmlns" for a, _ in t["attrs"]) or any(uses_namespaces(k) for k in t["children"])


def compare_std_read(case: Any, text: str, m: Any, res: Result, tag: str) -> Any:
    """model's specification reader `m` vs ElementTree on the same text.  Returns ElementTree's reading."""
    e = et_read(text)
    if m == "outside":
        res.unsupported += 1
        res.bump(f"stdread:{tag}:outside-the-subset:elementtree-" + ("malformed" if e == "malformed" else "reads"))
        return e
    if m == "malformed":
        res.bump(f"stdread:{tag}:malformed")
        if e != "malformed":
            res.disagreement("std_read: the specification reader says malformed, ElementTree reads the document", case, e, m, text=text[:300])
        return e
    if not (isinstance(m, dict) and "tree" in m):
        res.disagreement("std_read: driver error", case, e, m)
        return e
    if uses_namespaces(m["tree"]):
        res.unsupported += 1
        res.bump(f"stdread:{tag}:outside-the-subset:xmlns")  # ElementTree processes namespaces; XML 1.0 proper (and the specification reader) does not
        return e
    res.bump(f"stdread:{tag}:tree")
    if e != m:
        res.disagreement("std_read: the specification reader and ElementTree read different trees", case, e, m, text=text[:300])
    return e


def expected_tree(a: dict[str, Any]) -> dict[str, Any]:
    """RFC 7958 / the property text: what the document of this anchor must mean (written from the anchor's fields, not from the writer)"""
    def leaf(name: str, text: str) -> dict[str, Any]:
        return {"name": name, "attrs": [], "children": [{"text": text}] if text else []}

    def stamp_(us: int) -> str:
        return (lib.EPOCH + timedelta(microseconds=us)).astimezone(timezone.utc).replace(microsecond=0).isoformat()

    nl = {"text": "\n"}
    kids = [nl, leaf("Zone", a["zone"]), nl]
    for d in sorted(a["keyDigests"], key=lambda d: d["validFrom"]):
        attrs = [["id", d["id"]], ["validFrom", stamp_(d["validFrom"])]]
        if d["validUntil"] is not None:
            attrs.append(["validUntil", stamp_(d["validUntil"])])
        kids += [{"name": "KeyDigest", "attrs": attrs, "children": [nl, leaf("KeyTag", str(d["keyTag"])), nl, leaf("Algorithm", str(d["algorithm"])), nl,
                                                                     leaf("DigestType", str(d["digestType"])), nl, leaf("Digest", d["digest"].upper()), nl]}, nl]
    return {"name": "TrustAnchor", "attrs": [["id", a["id"]], ["source", a["source"]]], "children": kids}


def gen_anchor(r: Any) -> dict[str, Any]:
    all_clean = r.random() < 0.45

    def free(clean_pool: list[str]) -> str:
        x = r.random()
        if all_clean or x < 0.6:
            return r.choice(clean_pool)
        if x < 0.75:
            return r.choice(HOSTILE_IDS)
        return hostile_text(r)

    n = r.choice([0, 1, 1, 2, 3, 5])
    starts = r.sample(range(0, 4_000_000_000, 977), n)  # pairwise different validFrom: the order is determined
    ds = []
    for i in range(n):
        vf = starts[i] * 1_000_000 + r.choice([0, 0, 1, 500_000, 999_999])
        ds.append({
            "id": free(["Kjqmt7v", "Klajeyz", "K_1", "label with spaces", "ünï", "a'b", "x>y", "", "K-2.3"]),
            "keyTag": r.choice([0, 1, 19036, 20326, 65535, r.randint(0, 65535), -r.randint(1, 9), 10**12]),
            "algorithm": r.choice([5, 7, 8, 10, 13, 14]),
            "digestType": r.choice([1, 2, 2, 2]),
            "digest": "".join(r.choice("0123456789abcdef") for _ in range(2 * r.choice([0, 1, 20, 32, 32, 32, 48]))),
            "validFrom": vf,
            "validUntil": r.choice([None, None, vf + r.randint(0, 10**15)]),
        })
    return {
        "id": free(["ta-1", "380DC50D-484E-40D0-A3AE-68F2B18F61C7", "id with spaces", "ünï", "a'b", "x>y", "", "a=b/c;d"]),
        "source": free([TA_SOURCE, "s", "", "https://example.org/?a=1;b=2", "x>y"]),
        "zone": free([".", ".", ".", "example.", "", "a b", "x'y\"z", "zürich.", "a\tb\nc", "]]", "a]]b"]),
        "keyDigests": ds,
    }


TA_SOURCE = "http://data.iana.org/root-anchors/root-anchors.xml"


def write_anchor(a: dict[str, Any]) -> Any:
    """the REAL writer: kskm.ta.data.TrustAnchor(...).to_xml_doc()"""
    from kskm.common.data import AlgorithmDNSSEC
    from kskm.ta.data import DigestDNSSEC, KeyDigest, TrustAnchor

    def dt(us: int) -> datetime:
        return lib.EPOCH + timedelta(microseconds=us)

    def build_() -> str:
        kds = {KeyDigest(id=d["id"], key_tag=d["keyTag"], algorithm=AlgorithmDNSSEC(d["algorithm"]), digest_type=DigestDNSSEC(d["digestType"]), digest=bytes.fromhex(d["digest"]),
                         valid_from=dt(d["validFrom"]), valid_until=None if d["validUntil"] is None else dt(d["validUntil"])) for d in a["keyDigests"]}
        return TrustAnchor(id=a["id"], source=a["source"], zone=a["zone"], key_digests=kds).to_xml_doc()

    return lib.run_impl(build_, lambda x: x)


def writer_direct_stream(r: Any, n: int, res: Result, driver_ok: bool) -> None:
    anchors = [gen_anchor(r) for _ in range(n)]
    # the clean corner and the corners of the hypotheses of C18_document_wellformed
    anchors += [dict(gen_anchor(r), id="ta-1", source=TA_SOURCE, zone=z) for z in (".", "", "a>b", "a]]>b", "a\rb", "a\r\nb", "a\nb", " . ", "é")]
    impls = []
    for a in anchors:
        if len({d["validFrom"] for d in a["keyDigests"]}) != len(a["keyDigests"]) or len({json.dumps(d, sort_keys=True) for d in a["keyDigests"]}) != len(a["keyDigests"]):
            a["keyDigests"] = a["keyDigests"][:1]
        res.count({"writer-direct": a})
        impls.append(write_anchor(a))
    outs = lib.run_driver([dict(a, op="ta_doc") for a in anchors], exe=DRIVER) if driver_ok else [None] * len(anchors)
    for a, impl, o in zip(anchors, impls, outs):
        case = {"writer-direct": a}
        if "ok" not in impl:
            res.bump("writer-direct:writer-raised")
            res.disagreement("writer-direct: the real writer raised", case, impl, None)
            continue
        text = impl["ok"]
        clean = attr_clean(a["id"]) and attr_clean(a["source"]) and text_clean(a["zone"]) and all(attr_clean(d["id"]) for d in a["keyDigests"])
        res.bump("writer-direct:" + ("clean" if clean else "unclean") + f":entries={len(a['keyDigests'])}")
        if any(d["digest"] == "" for d in a["keyDigests"]) or a["zone"] == "":
            res.bump("writer-direct:empty-digest-or-zone (no text node)")
        want = {"tree": expected_tree(a)}
        if o is None:
            e = et_read(text)
        elif "driver_error" in o:
            res.disagreement("writer-direct: driver error", case, None, o)
            e = et_read(text)
        else:
            if o["doc"] != text:
                res.disagreement("writer-direct: the model's document differs from the real writer's", case, text, o["doc"])
            e = compare_std_read(case, text, o["read"], res, "writer-direct")
            if clean and o["read"] != want:
                res.disagreement("writer-direct: the specification reader does not obtain the anchor's tree from a clean document", case, want, o["read"])
        if clean:
            if e != want:
                res.violation(WHAT_MEANING, case, key="meaning:clean", document=text[:400], read=e if e == "malformed" else "another tree")
        else:
            res.bump("boundary:writer-direct:unescaped-text:" + ("not-wellformed" if e == "malformed" else ("harmless" if e == want else "other-meaning")))


def run(tier: str, driver_ok: bool) -> Result:
    with tzenv.zone(lib.TZ_ZONES[0]):  # whatever zone the check was started in: cases without "tz" run under UTC
        return _run(tier, driver_ok)


def _run(tier: str, driver_ok: bool) -> Result:
    res = Result("C18")
    res.rule = (
        "0..4 configured KSKs x {RSA 1024..4096 with exponents 3/17/65537/65539/2^32+1, P-256, P-384} x placement {present, absent, private only, "
        "public only, second slot, second module, slot refusing login, duplicate} x 0..3 unconfigured token keys x validity variants x identifiers x "
        "output {--trustanchor, filenames.output_trustanchor, stdout} + fault positions 0..25 + --hsm + family mismatches; "
        "in EVERY run the key-tag boundary block: fixtures/special.json carry / revcarry / twins keys (real RSA keys whose RFC 4034 accumulator needs the second-fold carry to be DROPPED, "
        "whose low word is >= 0xFF80, pairs with equal tags) and crafted public-only token keys with fold sum 0x10000-2..+2 (tags 65534, 65535, 0, 1, 2) and low words 0x0000/0xFFFF/0xFF7F/0xFF80 "
        "for 1024..4096-bit moduli, exponents 3/65537/2^32+1, algorithms 5/8/10, as configured KSKs in every exporting placement (counters keytag:*), also mixed into 12 % of the random key picks; "
        f"in EVERY run the exponent-length block: public-only token keys with odd public exponents of {EXP_LENGTHS} octets (leading octet 0x01/0x80/0xFF/random; 2^(8k)-1 and 2^(8k)+1 for k = 253..256), "
        "moduli 1024/2048/4096 bits, algorithms 5/8/10, every exporting placement, judged by dnspython over an RFC 3110 field built from the integers (counters exponent-octets:*), also 5 % of the random key picks; "
        "in EVERY run the environment-independence block: validFrom/validUntil through the DST lattice of harness/tzenv.py written with offsets +00:00/Z/+02:00/-05:00/+05:30/+10:30 (equal and adjacent instants in different notations), "
        f"the first ordinary cases and a slice of the exponent block, each under the run's zone and with the PROCESS time zone switched to {', '.join(z[0] for z in lib.non_utc_zones())} "
        "(same oracle, same model, document equal to the UTC run's; counters zone:*, valid_from-notation:*); validity without designator recorded as boundary (naive-validity); "
        "non-trivial = distinct case"
    )
    r = lib.rng("C18")
    cases = keytag_boundary_cases(lib.rng("C18:keytag-boundary")) + exponent_length_cases(lib.rng("C18:exponent-length")) + special_cases(r)
    n = 1000 if tier == "quick" else 6000
    ordinary = []
    for i in range(5):
        for _ in range(n // 5):
            ordinary.append(gen_case(r, i if r.random() < 0.5 else None))
    cases += ordinary
    cases += hostile_id_cases(lib.rng("C18:hostile-id"), 60 if tier == "quick" else 400)
    # environment independence: the validity lattice, the naive-validity boundary and a slice of the blocks above, under UTC and under every other zone
    rz = lib.rng("C18:tz")
    slice_ = [c for c in ordinary if c["ksks"]][: 24 if tier == "quick" else 120] + exponent_length_cases(lib.rng("C18:tz:exponent-length"))[:: 9 if tier == "quick" else 3]
    cases += under_zones(validity_lattice_cases(rz) + naive_validity_cases(rz)) + [c for c in under_zones(slice_) if c.get("tz")]
    runs = []
    utc_doc: dict[str, Any] = {}
    for case in cases:
        run_ = run_case(case)
        res.count(case)
        res.bump("variant:" + case["variant"])
        res.bump("zone:" + (case.get("tz") or "UTC (the run's own)"))
        twin = json.dumps({k: v for k, v in case.items() if k != "tz"}, sort_keys=True)
        if not case.get("tz"):
            utc_doc[twin] = (run_["impl"], run_["doc"])
        elif twin in utc_doc and (run_["impl"], run_["doc"]) != utc_doc[twin]:
            if case["variant"] == "naive-validity" and not JUDGE_NAIVE_VALIDITY:
                res.bump("boundary:naive-validity:document-differs-from-utc-run")
            else:
                u_impl, u_doc = utc_doc[twin]
                res.violation(WHAT_TZ, case, key="tz:differs-from-utc", utc={"impl": u_impl}, zone={"impl": run_["impl"]}, first_difference=tzenv.first_difference((u_doc or "").split("\n"), (run_["doc"] or "").split("\n")))
        res.bump(f"configured:{len(case['ksks'])}")
        res.bump("outcome:" + ("ok" if "ok" in run_["impl"] else "error"))
        for k in case["ksks"]:
            res.bump("place:" + k["place"].split(":")[0])
            res.bump("key:" + key_class(k["key"]))
            eo = exponent_octets(k["key"])
            if eo is not None:
                res.bump(f"exponent-octets:{eo}" + (":exported" if present_on_token(case, k) and "ok" in run_["impl"] else ":not-exported"))
            if case["variant"] in ("validity-lattice", "naive-validity"):
                m = re.search(r"(Z|[+-]\d\d:\d\d)$", k["valid_from"])
                res.bump("valid_from-notation:" + (m.group(1) if m else "no-designator"))
            for shape in tag_shape(k["key"], k["alg"]):
                res.bump("keytag:" + shape + (":exported" if present_on_token(case, k) and "ok" in run_["impl"] else ":not-exported"))
        run_["violated"] = judge(case, run_, res)
        runs.append(run_)
        if len(res.samples) < 3 and "ok" in run_["impl"] and len(case["ksks"]) >= 2 and not run_["violated"]:
            res.sample({"case": case, "document": run_["doc"]})
    if driver_ok:
        outs = lib.run_driver([x["line"] for x in runs], exe=DRIVER)
        for case, run_, o in zip(cases, runs, outs):
            # F4 is a property of the shared key derivation; the model mirrors the code there, so the model
            # comparison is made for every case, violated or not
            if case["variant"] == "naive-validity" and case.get("tz") and not JUDGE_NAIVE_VALIDITY:
                continue  # the model reads a scalar without designator as UTC (lib.dt_us); recorded boundary, see NAIVE_VALIDITY
            compare_model(case, run_, o, res)
        # every exported document (and every hostile one): specification reader vs ElementTree on the text the real entry point wrote
        with_doc = [(c, x) for c, x in zip(cases, runs) if x["doc"] is not None]
        reads = lib.run_driver([{"op": "std_read", "text": x["doc"]} for _, x in with_doc], exe=DRIVER)
        for (case, run_), o in zip(with_doc, reads):
            tag = "hostile-id" if case.get("hostile") else ("boundary-id" if case["variant"] == "boundary-id" else "export")
            e = compare_std_read(case, run_["doc"], o if isinstance(o, (str, dict)) and "driver_error" not in o else {"driver_error": o}, res, tag)
            if tag == "export" and o != "outside" and not (isinstance(o, dict) and "tree" in o) and attr_clean(case["id"] or FIXED_UUID) and not case["plan"]:
                res.disagreement("std_read: an export with a clean identifier is not read as a tree by the specification reader", case, e, o)
    locale_stream(lib.rng("C18:locale"), tier, res)
    writer_direct_stream(lib.rng("C18:writer-direct"), 400 if tier == "quick" else 4000, res, driver_ok)
    res.notes.append(
        "std_read: every exported document, the hostile identifiers (variant boundary-id, counters stdread:hostile-id:*) and the documents of the real writer for generated anchors "
        "(writer-direct: hostile id / source / zone / labels, empty digests, negative and huge key tags) are read by the Lean specification reader XmlSpec.stdRead and by ElementTree; "
        "the readings must agree (tree, or both not well-formed); references / comments / PIs / CDATA / namespaces / non-ASCII names are outside the reader's subset (counted unsupported). "
        "With clean free text (attr_clean / text_clean: XML 1.0 [10], [14], 2.11, 3.3.3) ElementTree's tree must be the anchor's expected tree (violation otherwise); unclean text is the recorded unescaped-text boundary."
    )
    res.notes.append(
        "naive-validity: a validity configured without a UTC designator (`valid_from: 2010-07-15T00:00:00` or `2010-07-15`; YAML and pydantic keep such a value naive) is rendered by "
        "KeyDigest.format_datetime through astimezone(timezone.utc), which reads a naive value as LOCAL time of the process: under UTC the document says what the configuration says, under any other "
        "process zone validFrom/validUntil are shifted by the zone offset (counters boundary:naive-validity:*). Recorded, judged only with JUDGE_NAIVE_VALIDITY (corr_C18)."
    )
    res.notes.append("family-mismatch cases: the exporter does not check that the token key fits the configured algorithm family / size / tag / DS (module docstring says it does); outside C18's statement, recorded as boundary")
    return res


def replay(obj: dict[str, Any]) -> Any:
    v = obj.get("violation") or obj.get("disagreement") or obj
    case = v.get("case", v)
    r = Result("C18")
    if "writer-direct" in case:
        # a document of the real writer for a given anchor: writer, model document + specification reader, ElementTree, expected tree
        a = case["writer-direct"]
        impl = write_anchor(a)
        out_: dict[str, Any] = {"case": case, "observed": impl, "expected_tree": expected_tree(a), "elementtree": et_read(impl["ok"]) if "ok" in impl else None}
        try:
            out_["model"] = lib.run_driver([dict(a, op="ta_doc")], exe=DRIVER)[0]
        except Exception as exc:  # noqa: BLE001
            out_["model"] = f"driver failed: {exc}"
        return out_
    run_ = run_case(case)
    judge(case, run_, r)
    out: dict[str, Any] = {"case": case, "observed": {"impl": run_["impl"], "document": run_["doc"]}, "expected": sorted(expected_entries(case)[0], key=repr), "violations": [{"what": x["what"], "key": x.get("key")} for x in r.violations]}
    try:
        o = lib.run_driver([run_["line"]], exe=DRIVER)[0]
        out["model"] = o["result"]
        compare_model(case, run_, o, r)
        out["disagreements"] = [x["what"] for x in r.disagreements]
    except Exception as exc:  # noqa: BLE001
        out["model"] = f"driver failed: {exc}"
    return out
