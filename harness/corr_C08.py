"""C08 correspondence: chain KSR(n) <-> SKR(n-1) — implementation vs. Lean model vs. the documented region.

(previous SKR, KSR) pairs are built directly as kskm.skr.data.Response / kskm.ksr.data.Request objects.
Three verdicts are compared for every pair, every subset of the three chain flags and every token state:
  * check_skr_and_ksr() of /repo (plus each of its five rules on its own, so that the whole set of violated
    rules is observable, not only the first in code order).  The token is the name `get_p11_key` inside
    kskm.signer.verify_chain replaced by a table-driven stub; the same table goes to the model;
  * the model driver (`check_skr_and_ksr` / `chain_check` ops, key sets in the Python set's iteration order);
  * `region()` below: the C08 statement transliterated clause by clause from the property text.
impl != region -> failing input of the property (VIOLATION);  impl != model -> broken tie (disagreement).

A second stream exercises the self-consistency of the previous SKR (`validate_response`, and `load_skr` on the
XML written by skr_to_xml) with real RSA keys: honest, bundle count +-1, every kind of signature tampering; the
real verifier's answers are recorded (lib.VerifyRecorder) and passed to the model; dnspython's validate_rrsig
is the independent oracle for "the signatures verify".

IDENTIFIER RELATIONS (`ID_RELATED`): request ids, bundle ids, key identifiers and token labels are compared for EQUALITY by the
documented rules.  Every stream that holds two of them also holds pairs that are distinct but related as strings — one a proper
prefix / suffix / inner substring of the other, differing only in case, in the last character, in a blank or newline at an end,
anagrams, numbered labels, the empty string, NFC vs NFD, a piece of a ", "-joined listing of the others — in both directions,
next to the same pair made equal: request id vs previous id, KSR bundle id vs previous bundle id (first / last position), first
keys vs previous last keys (same material under a related identifier, related identifier with its own key, both published), two
signers of the previous last bundle under related labels with the token holding one, the other, or one's key under the other's label.

CONFIGURATION SECTIONS (`run_sections_stream`): the option names that occur in two or more sections of the configuration are
read off the pydantic models of the tree (ceremony_run.shared_section_options(): num_bundles and validate_signatures, in
request_policy and response_policy).  The real ksrsigner() runs on a real configuration object and real files — honestly signed
previous SKR / honest successor KSR with real keys, bit-flipped and foreign-signer signatures in the first and last bundle of
either, (n_prev, n_ksr) = (3,2), (2,3), (2,2) — with the REAL load_skr and load_ksr, under every pair of values of those options
in the two sections (equal, and DIFFERENT: validation on in one section and off in the other, each num_bundles at the own /
the other document's count / +-1).  Expected, from the property text: the previous SKR is refused iff its bundle count differs
from response_policy.num_bundles or (response_policy.validate_signatures and a signature does not verify under dnspython);
the KSR is judged by request_policy's values; an SKR is signed and written iff both pass.  The model's load_skr gate under the
response policy is compared as well.
"""

from __future__ import annotations

import base64
import itertools
import tempfile
from pathlib import Path
from types import SimpleNamespace
from typing import Any

import lib
from lib import DAY_US, Result, request_j, request_policy_j, response_j, response_policy_j, run_driver, run_impl, same_outcome, us_dt, us_td

DRIVER = "kskm_driver_pkgb"
ASSUMPTIONS = [
    "entry-point stream: ksrsigner() is run with load_skr / load_ksr / init_pkcs11_modules / create_skr / output_skr_xml replaced by recording stubs (their behaviour is other properties' subject); only the position and effect of the check_skr_and_ksr call is observed",
    "the token enters check_last_skr_key_present only through get_p11_key(label, modules, public=True); it is replaced by a table-driven stub (found / public key text / raises), and the same table is given to the model",
    "key texts are canonical base64 (what the tools and reference clients emit); other spellings make the model answer 'unsupported'",
    "when two keys of the previous last bundle share an identifier but not a key text, 'the key published under the identifier' is ambiguous: the region is not evaluated there (side condition IdsDeterminePk of C08_iff), model and implementation are still compared",
    "'signatures do not verify' is judged independently by dnspython's validate_rrsig with the named key only",
    "sections stream: ksrsigner() runs with the real load_skr / load_ksr and a real KSKMConfig; token initialisation (no token attached), create_skr and the SKR writer are recording stubs; 'refused' for the previous SKR means load_skr did not return",
    "sections stream: with response_policy.validate_signatures false the operator has switched the signature check of the previous SKR off; only the bundle count is then demanded (as in the validate_response stream)",
]
TRUSTED = ["dnspython validate_rrsig as the independent RRSIG verifier in corr_C08", "the get_p11_key stub as stand-in for the PKCS#11 lookup"]

SEC = 10**6
OFFSETS = [-DAY_US, -SEC, 0, SEC, DAY_US]
CHAIN_FLAGS = ["check_chain_keys", "check_chain_overlap", "check_chain_keys_in_hsm"]
# pairs of DISTINCT identifiers that are related as strings (request ids, bundle ids, key identifiers / token labels are all
# compared for equality by the documented rules): proper prefix, proper suffix, inner substring, case, last character, a blank
# at either end, anagram, numbered labels, the empty string, canonically equivalent spellings
ID_RELATED: dict[str, tuple[str, str]] = {
    "prefix": ("KC2016", "KC2016b"),
    "suffix": ("C2016", "KC2016"),
    "inner": ("C201", "KC2016"),
    "case": ("kc2016", "KC2016"),
    "trailing": ("KC2016a", "KC2016b"),
    "blank-end": ("KC2016", "KC2016 "),
    "blank-start": ("KC2016", " KC2016"),
    "anagram": ("KC2016", "KC2061"),
    "digits": ("ksk1", "ksk10"),
    "empty": ("", "KC2016"),
    "newline-end": ("KC2016", "KC2016\n"),
    "nfc-nfd": ("K\u00e9", "Ke\u0301"),
}
RULE_FUNCS = ["check_unique_request", "check_unique_bundle_ids", "check_chain_keys", "check_chain_overlap", "check_last_skr_key_present"]
START = 1_500_000_000 * SEC


# --------------------------------------------------------------------------------------
# building repo objects (and rebuilding them from the JSON shapes, for replay)
# --------------------------------------------------------------------------------------


def pk_text(seed: str, n: int = 64) -> bytes:
    """A deterministic RSA-shaped (RFC 3110, e=65537) public key text."""
    import hashlib

    body = b""
    i = 0
    while len(body) < n:
        body += hashlib.sha256(f"{seed}:{i}".encode()).digest()
        i += 1
    return base64.b64encode(b"\x03\x01\x00\x01" + body[:n])


def mk_key(ident: str, flags: int = 256, pk: bytes | None = None, ttl: int = 172800, alg: int = 8, tag: int | None = None, protocol: int = 3) -> Any:
    from kskm.common.data import AlgorithmDNSSEC, Key

    pk = pk_text(ident) if pk is None else pk
    kw = dict(key_identifier=ident, key_tag=0 if tag is None else tag, ttl=ttl, flags=flags, protocol=protocol, algorithm=AlgorithmDNSSEC(alg), public_key=pk)
    try:
        k = Key(**kw)
    except Exception:  # noqa: BLE001 - malformed on purpose (replace() does not validate either)
        return Key.model_construct(**kw)
    if tag is None:
        from kskm.common.dnssec import calculate_key_tag

        try:
            k = k.replace(key_tag=calculate_key_tag(k))
        except Exception:  # noqa: BLE001
            pass
    return k


def mk_sig(ident: str, inc: int, exp: int, alg: int = 8, ttl: int = 172800, tag: int = 1, data: bytes = b"c2ln") -> Any:
    from kskm.common.data import AlgorithmDNSSEC, Signature, TypeDNSSEC

    return Signature(
        key_identifier=ident,
        ttl=ttl,
        type_covered=TypeDNSSEC.DNSKEY,
        algorithm=AlgorithmDNSSEC(alg),
        labels=0,
        original_ttl=ttl,
        signature_expiration=us_dt(exp),
        signature_inception=us_dt(inc),
        key_tag=tag,
        signers_name=".",
        signature_data=data,
    )


def key_from_j(j: dict[str, Any]) -> Any:
    return mk_key(j["keyIdentifier"], j["flags"], j["publicKey"].encode(), j["ttl"], j["algorithm"], j["keyTag"], j["protocol"])


def sig_from_j(j: dict[str, Any]) -> Any:
    from kskm.common.data import AlgorithmDNSSEC, Signature, TypeDNSSEC

    return Signature(
        key_identifier=j["keyIdentifier"],
        ttl=j["ttl"],
        type_covered=TypeDNSSEC(j["typeCovered"]),
        algorithm=AlgorithmDNSSEC(j["algorithm"]),
        labels=j["labels"],
        original_ttl=j["originalTtl"],
        signature_expiration=us_dt(j["expiration"]),
        signature_inception=us_dt(j["inception"]),
        key_tag=j["keyTag"],
        signers_name=j["signersName"],
        signature_data=j["signatureData"].encode(),
    )


def sigpolicy_from_j(j: dict[str, Any]) -> Any:
    from kskm.common.data import AlgorithmDNSSEC, AlgorithmPolicyRSA, SignaturePolicy

    algs = set()
    for a in j.get("algorithms", []):
        if a["kind"] == "rsa":
            algs.add(AlgorithmPolicyRSA(bits=a["bits"], algorithm=AlgorithmDNSSEC(a["algorithm"]), exponent=a["exponent"]))
    return SignaturePolicy(
        publish_safety=us_td(j["publishSafety"]),
        retire_safety=us_td(j["retireSafety"]),
        max_signature_validity=us_td(j["maxSignatureValidity"]),
        min_signature_validity=us_td(j["minSignatureValidity"]),
        max_validity_overlap=us_td(j["maxValidityOverlap"]),
        min_validity_overlap=us_td(j["minValidityOverlap"]),
        algorithms=algs,
    )


def request_from_j(j: dict[str, Any]) -> Any:
    from kskm.ksr.data import Request, RequestBundle

    bundles = [
        RequestBundle(id=b["id"], inception=us_dt(b["inception"]), expiration=us_dt(b["expiration"]), keys={key_from_j(k) for k in b["keys"]}, signatures={sig_from_j(s) for s in b["signatures"]}, signers=None)
        for b in j["bundles"]
    ]
    return Request(id=j["id"], serial=j["serial"], domain=j["domain"], timestamp=None, zsk_policy=sigpolicy_from_j(j["zskPolicy"]), bundles=bundles)


def response_from_j(j: dict[str, Any]) -> Any:
    from kskm.skr.data import Response, ResponseBundle

    bundles = [
        ResponseBundle(id=b["id"], inception=us_dt(b["inception"]), expiration=us_dt(b["expiration"]), keys={key_from_j(k) for k in b["keys"]}, signatures={sig_from_j(s) for s in b["signatures"]})
        for b in j["bundles"]
    ]
    return Response(id=j["id"], serial=j["serial"], domain=j["domain"], timestamp=None, zsk_policy=sigpolicy_from_j(j["zskPolicy"]), ksk_policy=sigpolicy_from_j(j["kskPolicy"]), bundles=bundles)


def zsk_policy(min_ov: int, max_ov: int) -> Any:
    from kskm.common.data import SignaturePolicy

    return SignaturePolicy(
        min_signature_validity=us_td(21 * DAY_US),
        max_signature_validity=us_td(21 * DAY_US),
        min_validity_overlap=us_td(min_ov),
        max_validity_overlap=us_td(max_ov),
    )


# --------------------------------------------------------------------------------------
# the token stub
# --------------------------------------------------------------------------------------


class TokenStub:
    """Replace `get_p11_key` as seen by kskm.signer.verify_chain by a lookup in `table`
    (list of {label, found, publicKey, error}).  Records what was asked."""

    def __init__(self, table: list[dict[str, Any]] | None) -> None:
        self.table = {e["label"]: e for e in (table or [])}
        self.calls: list[tuple[str, Any]] = []
        self.unknown = False

    def lookup(self, label: str, p11modules: Any, public: bool, hash_using_hsm: Any = None) -> Any:
        self.calls.append((label, public))
        e = self.table.get(label)
        if e is None:
            self.unknown = True
            return None
        if e.get("error"):
            if e["error"] == "p11":
                import PyKCS11

                raise PyKCS11.PyKCS11Error(5)
            raise RuntimeError("token lookup failed")
        if not e["found"]:
            return None
        pk = e["publicKey"]
        return SimpleNamespace(public_key=None if pk is None else pk.encode(), label=label)

    def __enter__(self) -> "TokenStub":
        import kskm.signer.verify_chain as vc

        self.vc = vc
        self.orig = vc.get_p11_key
        vc.get_p11_key = self.lookup
        return self

    def __exit__(self, *a: Any) -> None:
        self.vc.get_p11_key = self.orig


def modules_of(attached: str) -> Any:
    return {"none": None, "empty": [], "attached": [object()]}[attached]


# --------------------------------------------------------------------------------------
# the documented region (from the property text)
# --------------------------------------------------------------------------------------


def key_record(k: Any) -> tuple[Any, ...]:
    return (k.key_identifier, k.key_tag, k.ttl, k.flags, k.protocol, k.algorithm, k.public_key)


def derivable(pk: bytes, alg: int) -> bool:
    """Can a DNSKEY of algorithm `alg` be made from this key text at all (RFC 6605 point sizes)?"""
    try:
        raw = base64.b64decode(pk, validate=True)
    except Exception:  # noqa: BLE001
        return False
    if alg in (13, 14):
        want = 256 if alg == 13 else 384
        if len(raw) * 8 // 2 == want:
            return True
        return len(raw) > 0 and raw[0] == 4 and (len(raw) - 1) * 8 // 2 == want
    return 0 <= alg < 256


def ids_ambiguous(bundle: Any) -> bool:
    seen: dict[str, bytes] = {}
    for k in bundle.keys:
        if k.key_identifier in seen and seen[k.key_identifier] != k.public_key:
            return True
        seen[k.key_identifier] = k.public_key
    return False


def region(ksr: Any, last: Any, table: list[dict[str, Any]] | None, attached: str) -> dict[str, bool] | None:
    """Clause by clause (True = satisfied); None when either side has no bundle (the statement speaks of the
    KSR's first and the previous SKR's last bundle)."""
    if not ksr.bundles or not last.bundles:
        return None
    first, prev = ksr.bundles[0], last.bundles[-1]
    out: dict[str, bool] = {}
    out["id"] = ksr.id != last.id
    out["bundle_ids"] = not ({b.id for b in ksr.bundles} & {b.id for b in last.bundles})
    prev_records = {key_record(k) for k in prev.keys}
    out["check_chain_keys"] = all(key_record(k) in prev_records for k in first.keys)
    ov = lib.td_us(prev.expiration - first.inception)
    # (no gap — the explicit test /repo applies since the F10 repair — and the declared window)
    out["check_chain_overlap"] = ov >= 0 and lib.td_us(ksr.zsk_policy.min_validity_overlap) <= ov <= lib.td_us(ksr.zsk_policy.max_validity_overlap)
    if attached != "attached":
        out["check_chain_keys_in_hsm"] = True  # no token attached: clause does not apply
    else:
        tab = {e["label"]: e for e in (table or [])}
        ok = len(prev.signatures) >= 1
        for sig in prev.signatures:
            e = tab.get(sig.key_identifier)
            if e is None or e.get("error") or not e["found"] or not e["publicKey"]:
                ok = False
                continue
            pk = e["publicKey"].encode()
            if not derivable(pk, sig.algorithm.value):
                ok = False
                continue
            if not any(k.key_identifier == sig.key_identifier and k.public_key == pk for k in prev.keys):
                ok = False
        out["check_chain_keys_in_hsm"] = ok
    return out


def region_accepts(reg: dict[str, bool], flags: dict[str, bool]) -> bool:
    return reg["id"] and reg["bundle_ids"] and all(reg[f] for f in CHAIN_FLAGS if flags[f])


# --------------------------------------------------------------------------------------
# scenarios
# --------------------------------------------------------------------------------------


class Pair:
    """One (previous SKR, KSR, token) scenario before flags are chosen."""

    def __init__(self, tag: str, ksr: Any, last: Any, table: list[dict[str, Any]] | None, attached: str = "attached") -> None:
        self.tag, self.ksr, self.last, self.table, self.attached = tag, ksr, last, table, attached


def base_last(n: int = 2, *, last_keys: list[Any] | None = None, last_sigs: list[Any] | None = None, rid: str = "skr-q1", prefix: str = "a") -> Any:
    """A previous SKR of n bundles; bundle i: inception START+10d*i, 21 days valid."""
    from kskm.common.data import SignaturePolicy
    from kskm.skr.data import Response, ResponseBundle

    z1, z2, k1 = mk_key("Z1"), mk_key("Z2"), mk_key("K1", 257)
    bundles = []
    for i in range(n):
        inc = START + i * 10 * DAY_US
        exp = inc + 21 * DAY_US
        keys = [z1, k1] if i < n - 1 else [z1, z2, k1]
        sigs = [mk_sig("K1", inc, exp, tag=k1.key_tag)]
        if i == n - 1:
            if last_keys is not None:
                keys = last_keys
            if last_sigs is not None:
                sigs = last_sigs
        bundles.append(ResponseBundle(id=f"{prefix}{i}", inception=us_dt(inc), expiration=us_dt(exp), keys=set(keys), signatures=set(sigs)))
    # the previous SKR's own policies deliberately differ from what the KSR declares
    return Response(
        id=rid,
        serial=1,
        domain=".",
        timestamp=None,
        zsk_policy=zsk_policy(5 * DAY_US, 6 * DAY_US),
        ksk_policy=SignaturePolicy(publish_safety=us_td(10 * DAY_US), retire_safety=us_td(28 * DAY_US), min_validity_overlap=us_td(1 * DAY_US), max_validity_overlap=us_td(2 * DAY_US)),
        bundles=bundles,
    )


def prev_exp(last: Any) -> int:
    return lib.dt_us(last.bundles[-1].expiration)


def base_ksr(last: Any, n: int = 2, *, overlap: int = 11 * DAY_US, min_ov: int = 9 * DAY_US, max_ov: int = 12 * DAY_US, first_keys: list[Any] | None = None, rid: str = "ksr-q2", ids: list[str] | None = None) -> Any:
    from kskm.ksr.data import Request, RequestBundle

    z1, z2, z3 = mk_key("Z1"), mk_key("Z2"), mk_key("Z3")
    first_inc = (prev_exp(last) if last.bundles else START + 100 * DAY_US) - overlap
    bundles = []
    for i in range(n):
        inc = first_inc + i * 10 * DAY_US
        keys = ([z1, z2] if first_keys is None else first_keys) if i == 0 else [z2, z3]
        bid = ids[i] if ids else f"b{i}"
        bundles.append(RequestBundle(id=bid, inception=us_dt(inc), expiration=us_dt(inc + 21 * DAY_US), keys=set(keys), signatures=set(), signers=None))
    return Request(id=rid, serial=2, domain=".", timestamp=None, zsk_policy=zsk_policy(min_ov, max_ov), bundles=bundles)


def good_table(last: Any) -> list[dict[str, Any]]:
    """A token that holds every signer of the previous last bundle with the published key."""
    tab = []
    if not last.bundles:
        return tab
    prev = last.bundles[-1]
    for sig in prev.signatures:
        m = [k for k in prev.keys if k.key_identifier == sig.key_identifier]
        tab.append({"label": sig.key_identifier, "found": bool(m), "publicKey": m[0].public_key.decode() if m else None, "error": None})
    return tab


def scenarios(r: Any, tier: str) -> list[Pair]:
    from kskm.ksr.data import Request
    from kskm.skr.data import Response

    out: list[Pair] = []

    def add(tag: str, ksr: Any, last: Any, table: Any = "good", attached: str = "attached") -> None:
        out.append(Pair(tag, ksr, last, good_table(last) if table == "good" else table, attached))

    # ---- honest successors -------------------------------------------------------------------
    for nl, nk in [(1, 1), (2, 2), (3, 2), (2, 3), (9, 9)]:
        last = base_last(nl)
        add(f"honest:{nl}:{nk}", base_ksr(last, nk), last)

    # ---- request id --------------------------------------------------------------------------
    last = base_last(2)
    for rid in ["skr-q1", "skr-q1 ", "SKR-Q1", "skr-q", "", "skr-q2"]:
        add(f"id:{rid!r}", base_ksr(last, 2, rid=rid), last)
    add("id:both-empty", base_ksr(base_last(2, rid=""), 2, rid=""), base_last(2, rid=""))
    # identifier RELATIONS (ids are compared for equality: distinct but related strings are different requests), both directions
    for rel, (a, b) in ID_RELATED.items():
        for prev_id, new_id in ((a, b), (b, a), (a, a), (b, b)):
            lst = base_last(2, rid=prev_id)
            add(f"idrel:request:{rel}:{prev_id == new_id}", base_ksr(lst, 2, rid=new_id), lst)

    # ---- bundle id re-use at every position pair -----------------------------------------------
    sizes = [(2, 2), (3, 2), (2, 3)] + ([(9, 9)] if tier == "thorough" else [(4, 4)])
    for nl, nk in sizes:
        last = base_last(nl)
        for i in range(nk):
            for j in range(nl):
                ids = [f"b{x}" for x in range(nk)]
                ids[i] = f"a{j}"
                add(f"bundleid:{nl}:{nk}:{i}:{j}", base_ksr(last, nk, ids=ids), last)
    last = base_last(3)
    add("bundleid:near-miss", base_ksr(last, 2, ids=["a0 ", "A1"]), last)
    # bundle ids that are distinct from, but related as strings to, the previous SKR's (and the same pairs made equal), at both ends
    for rel, (a, b) in ID_RELATED.items():
        for prev_id, new_id in ((a, b), (b, a), (a, a)):
            for pos_prev, pos_new in ((0, 0), (2, 0), (0, 1), (2, 1)):
                lst = base_last(3)
                bl = list(lst.bundles)
                bl[pos_prev] = bl[pos_prev].replace(id=prev_id)
                lst = lst.replace(bundles=bl)
                ids = ["b0", "b1"]
                ids[pos_new] = new_id
                if len(set(ids)) == 2 and len({x.id for x in bl}) == 3:
                    add(f"idrel:bundle:{rel}:{prev_id == new_id}:{pos_prev}:{pos_new}", base_ksr(lst, 2, ids=ids), lst)
    # … and a KSR bundle id that is a piece of a listing of the previous SKR's bundle ids
    lst = base_last(3)
    for piece in ("a0, a1", "0, a", "a0,a1", "a0 a1", "', '", "a0a1", "a"):
        add(f"idrel:bundle:listing:{piece!r}", base_ksr(lst, 2, ids=[piece, "b1"]), lst)

    # ---- first-bundle key set vs. previous last key set ----------------------------------------------
    z1, z2, z3, z4, k1 = mk_key("Z1"), mk_key("Z2"), mk_key("Z3"), mk_key("Z4"), mk_key("K1", 257)
    last = base_last(2)
    rel = {
        "equal": [z1, z2, k1],
        "subset2": [z1, z2],
        "subset1": [z2],
        "empty": [],
        "superset": [z1, z2, k1, z3],
        "superset-of-zsks": [z1, z2, z3],
        "disjoint": [z3, z4],
        "same-id-different-key": [mk_key("Z1", pk=pk_text("other")), z2],
        "same-key-different-ttl": [z1.replace(ttl=3600), z2],
        "same-key-different-tag": [z1.replace(key_tag=(z1.key_tag + 1) % 65536), z2],
        "same-key-different-flags": [mk_key("Z1", 257), z2],
        "same-key-different-algorithm": [mk_key("Z1", alg=10), z2],
        "same-key-different-protocol": [z1.replace(protocol=2), z2],
        "same-key-different-id": [mk_key("Zx", pk=z1.public_key), z2],
        "ksk-only": [k1],
    }
    for name, fk in rel.items():
        add(f"keys:{name}", base_ksr(last, 2, first_keys=fk), last)
    # key identifiers related as strings: the same key material under a related identifier, a related identifier with its own
    # key (both absent from the previous last bundle), and previous last bundles that publish BOTH related identifiers
    for relname, (a, b) in ID_RELATED.items():
        ka, kb = mk_key(a), mk_key(b)
        lst_a = base_last(2, last_keys=[ka, z2, k1])
        lst_ab = base_last(2, last_keys=[ka, kb, z2, k1])
        add(f"idrel:keys:{relname}:same-material-related-id", base_ksr(lst_a, 2, first_keys=[mk_key(b, pk=ka.public_key), z2]), lst_a)
        add(f"idrel:keys:{relname}:related-id-own-key", base_ksr(lst_a, 2, first_keys=[kb, z2]), lst_a)
        add(f"idrel:keys:{relname}:related-id-own-key-reverse", base_ksr(base_last(2, last_keys=[kb, z2, k1]), 2, first_keys=[ka, z2]), base_last(2, last_keys=[kb, z2, k1]))
        add(f"idrel:keys:{relname}:both-published-both-asked", base_ksr(lst_ab, 2, first_keys=[ka, kb]), lst_ab)
        add(f"idrel:keys:{relname}:both-published-swapped-material", base_ksr(lst_ab, 2, first_keys=[mk_key(a, pk=kb.public_key), mk_key(b, pk=ka.public_key)]), lst_ab)
        add(f"idrel:keys:{relname}:one-published", base_ksr(lst_a, 2, first_keys=[ka, z2]), lst_a)
    # keys matched against the LAST bundle of the previous SKR, not an earlier one / against the FIRST bundle of the KSR only
    last_wo = base_last(3, last_keys=[z2, k1])  # Z1 is in earlier bundles only
    add("keys:only-in-earlier-prev-bundle", base_ksr(last_wo, 2, first_keys=[z1, z2]), last_wo)
    add("keys:prev-last-empty", base_ksr(base_last(2, last_keys=[]), 2), base_last(2, last_keys=[]))

    # ---- overlap lattice ----------------------------------------------------------------------------
    profiles = {
        "min<max": (9 * DAY_US, 12 * DAY_US),
        "min==max": (11 * DAY_US, 11 * DAY_US),
        "negative-min": (-DAY_US, 12 * DAY_US),
        "zero": (0, 0),
        "empty-window": (12 * DAY_US, 9 * DAY_US),
        "negative-window": (-2 * DAY_US, -DAY_US),
        "as-prev-skr-declares": (5 * DAY_US, 6 * DAY_US),
    }
    for pname, (mn, mx) in profiles.items():
        for bname, bound in (("min", mn), ("max", mx)):
            for d in OFFSETS:
                add(f"overlap:{pname}:{bname}:{d}", base_ksr(last, 2, overlap=bound + d, min_ov=mn, max_ov=mx), last)
        for d in OFFSETS:  # the gap edge: previous expiration vs. first inception
            add(f"gap:{pname}:{d}", base_ksr(last, 2, overlap=d, min_ov=mn, max_ov=mx), last)
    add("gap:negative-min:-12h", base_ksr(last, 2, overlap=-DAY_US // 2, min_ov=-DAY_US, max_ov=12 * DAY_US), last)

    # ---- the token ---------------------------------------------------------------------------------------
    inc, exp = START + 10 * DAY_US, START + 31 * DAY_US
    k2 = mk_key("K2", 257)
    s1, s2 = mk_sig("K1", inc, exp, tag=k1.key_tag), mk_sig("K2", inc, exp, tag=k2.key_tag)
    ent = lambda label, found=True, pk=None, error=None: {"label": label, "found": found, "publicKey": pk, "error": error}  # noqa: E731
    pk1, pk2 = k1.public_key.decode(), k2.public_key.decode()
    other = pk_text("foreign").decode()
    one = base_last(2)
    two = base_last(2, last_keys=[z1, z2, k1, k2], last_sigs=[s1, s2])
    token_cases: list[tuple[str, Any, Any]] = [
        ("signer-present", one, [ent("K1", pk=pk1)]),
        ("unsigned", base_last(2, last_sigs=[]), []),
        ("signer-absent", one, [ent("K1", found=False)]),
        ("object-without-public-key", one, [ent("K1", pk=None)]),
        ("object-with-empty-public-key", one, [ent("K1", pk="")]),
        ("foreign-key-under-same-label", one, [ent("K1", pk=other)]),
        ("lookup-raises-runtime", one, [ent("K1", error="runtime")]),
        ("lookup-raises-p11", one, [ent("K1", error="p11")]),
        ("two-signers-both-present", two, [ent("K1", pk=pk1), ent("K2", pk=pk2)]),
        ("two-signers-K1-absent", two, [ent("K1", found=False), ent("K2", pk=pk2)]),
        ("two-signers-K2-absent", two, [ent("K1", pk=pk1), ent("K2", found=False)]),
        ("two-signers-K1-foreign", two, [ent("K1", pk=other), ent("K2", pk=pk2)]),
        ("two-signers-K2-foreign", two, [ent("K1", pk=pk1), ent("K2", pk=other)]),
        ("two-signers-swapped-keys", two, [ent("K1", pk=pk2), ent("K2", pk=pk1)]),
        ("two-signers-K2-raises", two, [ent("K1", pk=pk1), ent("K2", error="runtime")]),
        ("signer-not-among-published-keys", base_last(2, last_keys=[z1, z2, k2], last_sigs=[s1]), [ent("K1", pk=pk1)]),
        ("signer-published-revoked", base_last(2, last_keys=[z1, z2, mk_key("K1", 385)], last_sigs=[s1]), [ent("K1", pk=pk1)]),
        ("signature-ttl-differs", base_last(2, last_sigs=[mk_sig("K1", inc, exp, ttl=1, tag=k1.key_tag)]), [ent("K1", pk=pk1)]),
        ("token-key-not-an-EC-point", base_last(2, last_sigs=[mk_sig("K1", inc, exp, alg=13, tag=k1.key_tag)]), [ent("K1", pk=pk1)]),
        ("homonymous-keys", base_last(2, last_keys=[z1, z2, k1, mk_key("K1", 257, pk=pk_text("foreign"))], last_sigs=[s1]), [ent("K1", pk=pk1)]),
        ("homonymous-keys-foreign-on-token", base_last(2, last_keys=[z1, z2, k1, mk_key("K1", 257, pk=pk_text("foreign"))], last_sigs=[s1]), [ent("K1", pk=other)]),
        ("signer-only-in-earlier-bundle-absent", base_last(3, last_keys=[z1, z2, k2], last_sigs=[s2]), [ent("K2", pk=pk2), ent("K1", found=False)]),
    ]
    # two signers whose labels are distinct but related as strings: each present / absent / foreign in turn, and a token that holds
    # only the OTHER label (a lookup by prefix / substring / case-folded label would find it)
    for relname, (a, b) in ID_RELATED.items():
        ra, rb = mk_key(a, 257), mk_key(b, 257)
        sa, sb = mk_sig(a, inc, exp, tag=ra.key_tag), mk_sig(b, inc, exp, tag=rb.key_tag)
        pa, pb = ra.public_key.decode(), rb.public_key.decode()
        both = base_last(2, last_keys=[z1, z2, ra, rb], last_sigs=[sa, sb])
        only_a = base_last(2, last_keys=[z1, z2, ra, rb], last_sigs=[sa])
        only_b = base_last(2, last_keys=[z1, z2, ra, rb], last_sigs=[sb])
        token_cases += [
            (f"idrel:{relname}:both-present", both, [ent(a, pk=pa), ent(b, pk=pb)]),
            (f"idrel:{relname}:first-absent", both, [ent(a, found=False), ent(b, pk=pb)]),
            (f"idrel:{relname}:second-absent", both, [ent(a, pk=pa), ent(b, found=False)]),
            (f"idrel:{relname}:material-swapped", both, [ent(a, pk=pb), ent(b, pk=pa)]),
            (f"idrel:{relname}:signer-first-token-holds-only-second", only_a, [ent(a, found=False), ent(b, pk=pb)]),
            (f"idrel:{relname}:signer-second-token-holds-only-first", only_b, [ent(a, pk=pa), ent(b, found=False)]),
            (f"idrel:{relname}:signer-first-token-holds-it-under-second-label", only_a, [ent(a, found=False), ent(b, pk=pa)]),
        ]
    # a real P-256 point under algorithm 13, with and without the SEC1 prefix on the token
    import keys as K

    ec = K.ec_keys("P-256")[0]
    bare, pref = base64.b64encode(ec.ec_point(prefix=False)).decode(), base64.b64encode(ec.ec_point(prefix=True)).decode()
    for name, published, tokpk in [("ec-bare/bare", bare, bare), ("ec-prefixed/prefixed", pref, pref), ("ec-bare/prefixed", bare, pref), ("ec-prefixed/bare", pref, bare)]:
        ke = mk_key("E1", 257, pk=published.encode(), alg=13)
        token_cases.append((f"{name}", base_last(2, last_keys=[z1, z2, ke], last_sigs=[mk_sig("E1", inc, exp, alg=13, tag=ke.key_tag)]), [ent("E1", pk=tokpk)]))
    for name, lst, table in token_cases:
        for attached in ("attached", "none", "empty"):
            add(f"token:{name}", base_ksr(lst, 2), lst, table, attached)

    # every non-token scenario also without a token and with an empty module list
    for p in list(out):
        if not p.tag.startswith("token:") and (p.tag.split(":")[0] in ("honest", "id", "keys") or r.random() < 0.15):
            out.append(Pair(p.tag, p.ksr, p.last, p.table, r.choice(["none", "empty"])))

    # ---- no bundles on either side (outside the statement: model vs. implementation only) ------------------------
    full = base_last(2)
    empty_last = full.replace(bundles=[]) if hasattr(full, "replace") else Response(**{**full.model_dump(), "bundles": []})
    k = base_ksr(full, 2)
    add("empty:last", k, empty_last, [])
    add("empty:ksr", k.replace(bundles=[]), full)
    add("empty:both", k.replace(bundles=[]), empty_last, [])

    # ---- random combinations ---------------------------------------------------------------------------------------
    n_random = 800 if tier == "quick" else 8000
    key_choices = list(rel.values())
    for i in range(n_random):
        nl, nk = r.choice([1, 2, 3]), r.choice([1, 2, 3])
        name, lst, table = r.choice(token_cases)
        if nl != 2 and r.random() < 0.5:
            lst = base_last(nl)
            table = good_table(lst)
            name = "signer-present"
        mn, mx = r.choice(list(profiles.values()))
        ov = r.choice([mn, mx, 11 * DAY_US]) + r.choice(OFFSETS + [0, 0])
        ids = [f"b{x}" for x in range(nk)]
        if r.random() < 0.2:
            ids[r.randrange(nk)] = f"a{r.randrange(len(lst.bundles))}"
        rid = "skr-q1" if r.random() < 0.15 else "ksr-q2"
        fk = r.choice(key_choices) if r.random() < 0.6 else None
        add(f"random:{i}:{name}", base_ksr(lst, nk, overlap=ov, min_ov=mn, max_ov=mx, first_keys=fk, rid=rid, ids=ids), lst, table, r.choice(["attached", "attached", "none", "empty"]))
    return out


def flag_sets() -> list[dict[str, bool]]:
    return [dict(zip(CHAIN_FLAGS, bits)) for bits in itertools.product([True, False], repeat=3)]


def policy_of(flags: dict[str, bool]) -> Any:
    from kskm.common.config_misc import RequestPolicy

    return RequestPolicy(**flags)


def call_rule(name: str, ksr: Any, last: Any, policy: Any, modules: Any) -> Any:
    import kskm.signer.policy as sp
    import kskm.signer.verify_chain as vc

    if name == "check_unique_request":
        return sp.check_unique_request(ksr, last, policy)
    if name == "check_unique_bundle_ids":
        return sp.check_unique_bundle_ids(ksr, last, policy)
    if name == "check_chain_keys":
        return vc.check_chain_keys(ksr, last, policy)
    if name == "check_chain_overlap":
        return vc.check_chain_overlap(ksr, last, policy)
    if name == "check_last_skr_key_present":
        return vc.check_last_skr_key_present(last, policy, modules)
    raise KeyError(name)


# --------------------------------------------------------------------------------------
# the previous SKR's own consistency: validate_response / load_skr
# --------------------------------------------------------------------------------------


def dns_verifies(bundle: Any) -> bool:
    """Independent judgement: the bundle has keys and signatures, key identifiers are unambiguous, and every
    signature is a valid RRSIG by the named key over precisely the bundle's DNSKEYs (dnspython)."""
    import dns.dnssec
    import dns.name
    import dns.rdataclass
    import dns.rdatatype
    import dns.rrset
    from dns.rdtypes.ANY.DNSKEY import DNSKEY
    from dns.rdtypes.ANY.RRSIG import RRSIG

    if not bundle.keys or not bundle.signatures:
        return False
    ids = [k.key_identifier for k in bundle.keys]
    if len(set(ids)) != len(ids):
        return False
    root = dns.name.root
    for sig in bundle.signatures:
        named = [k for k in bundle.keys if k.key_identifier == sig.key_identifier]
        if len(named) != 1:
            return False
        rrset = dns.rrset.RRset(root, dns.rdataclass.IN, dns.rdatatype.DNSKEY)
        for k in bundle.keys:
            rrset.add(DNSKEY(dns.rdataclass.IN, dns.rdatatype.DNSKEY, k.flags, k.protocol, k.algorithm.value, base64.b64decode(k.public_key)), ttl=sig.original_ttl)
        only = dns.rrset.RRset(root, dns.rdataclass.IN, dns.rdatatype.DNSKEY)
        nk = named[0]
        only.add(DNSKEY(dns.rdataclass.IN, dns.rdatatype.DNSKEY, nk.flags, nk.protocol, nk.algorithm.value, base64.b64decode(nk.public_key)), ttl=sig.original_ttl)
        rrsig = RRSIG(
            dns.rdataclass.IN,
            dns.rdatatype.RRSIG,
            dns.rdatatype.DNSKEY,
            sig.algorithm.value,
            sig.labels,
            sig.original_ttl,
            int(sig.signature_expiration.timestamp()),
            int(sig.signature_inception.timestamp()),
            sig.key_tag,
            dns.name.from_text(sig.signers_name),
            base64.b64decode(sig.signature_data),
        )
        try:
            dns.dnssec.validate_rrsig(rrset, rrsig, {root: only}, now=int(sig.signature_inception.timestamp()) + 1)
        except Exception:  # noqa: BLE001
            return False
    return True


def flip_bit(b64: bytes, bit: int) -> bytes:
    raw = bytearray(base64.b64decode(b64))
    bit %= len(raw) * 8
    raw[bit // 8] ^= 1 << (bit % 8)
    return base64.b64encode(bytes(raw))


def signed_skr(n: int, r: Any, two_signers: bool = False) -> tuple[Any, list[Any]]:
    """An honestly signed previous SKR of n bundles with real keys; returns (response, [ (Key, TestKey) KSKs ])."""
    import keys as K
    from kskm.common.data import SignaturePolicy
    from kskm.skr.data import Response, ResponseBundle

    pool1024 = K.rsa_keys(1024, 65537)
    zsk_t = [pool1024[0], pool1024[1]]
    ksk_t = [K.rsa_keys(2048, 65537)[0], pool1024[2]]
    zsks = [K.make_zsk(t, 8, f"Z{i}") for i, t in enumerate(zsk_t)]
    ksks = [(K.make_zsk(t, 8, f"K{i}", flags=257), t) for i, t in enumerate(ksk_t)]
    signers = ksks if two_signers else ksks[:1]
    bundles = []
    for i in range(n):
        inc, exp = us_dt(START + i * 10 * DAY_US), us_dt(START + i * 10 * DAY_US + 21 * DAY_US)
        ks = [zsks[i % 2]] + [k for k, _ in signers]
        sigs = K.sign_bundle_keys(ks, signers, inc, exp)
        bundles.append(ResponseBundle(id=f"s{i}", inception=inc, expiration=exp, keys=set(ks), signatures=sigs))
    from kskm.common.data import AlgorithmDNSSEC, AlgorithmPolicyRSA

    pol = SignaturePolicy(
        publish_safety=us_td(10 * DAY_US),
        retire_safety=us_td(28 * DAY_US),
        min_signature_validity=us_td(21 * DAY_US),
        max_signature_validity=us_td(21 * DAY_US),
        min_validity_overlap=us_td(9 * DAY_US),
        max_validity_overlap=us_td(12 * DAY_US),
        algorithms={AlgorithmPolicyRSA(bits=2048, algorithm=AlgorithmDNSSEC.RSASHA256, exponent=65537)},
    )
    return Response(id="skr-real", serial=1, domain=".", timestamp=None, zsk_policy=pol, ksk_policy=pol, bundles=bundles), ksks


def skr_cases(r: Any, tier: str) -> list[tuple[str, Any, bool]]:
    """(tag, response, tampered?)"""
    import keys as K

    out: list[tuple[str, Any, bool]] = []
    for n, two in [(1, False), (2, False), (3, False), (2, True)]:
        resp, ksks = signed_skr(n, r, two)
        out.append((f"honest:{n}:{two}", resp, False))
        foreign = K.rsa_keys(2048, 65537)[1]
        for i, b in enumerate(resp.bundles):

            def with_bundle(nb: Any, i: int = i) -> Any:
                bl = list(resp.bundles)
                bl[i] = nb
                return resp.replace(bundles=bl)

            sigs = sorted(b.signatures, key=lambda s: s.key_identifier)
            for si, s in enumerate(sigs):
                rest = [x for x in sigs if x is not s]
                nbits = len(base64.b64decode(s.signature_data)) * 8
                for bit in [0, 7, nbits // 2, nbits - 1] + ([r.randrange(nbits) for _ in range(2 if tier == "quick" else 20)]):
                    out.append((f"bitflip:{n}:{i}:{si}:{bit}", with_bundle(b.replace(signatures=set(rest + [s.replace(signature_data=flip_bit(s.signature_data, bit))]))), True))
                # re-signed by a foreign key under the same identifier / tag
                from kskm.common.signature import make_raw_rrsig

                raw = make_raw_rrsig(s, b.keys)
                forged = s.replace(signature_data=base64.b64encode(foreign.sign_dnssec(8, raw)))
                out.append((f"foreign-signer:{n}:{i}:{si}", with_bundle(b.replace(signatures=set(rest + [forged]))), True))
                out.append((f"expiration-altered:{n}:{i}:{si}", with_bundle(b.replace(signatures=set(rest + [s.replace(signature_expiration=s.signature_expiration + us_td(SEC))]))), True))
                out.append((f"ttl-altered:{n}:{i}:{si}", with_bundle(b.replace(signatures=set(rest + [s.replace(original_ttl=s.original_ttl + 1)]))), True))
                out.append((f"misattributed:{n}:{i}:{si}", with_bundle(b.replace(signatures=set(rest + [s.replace(key_identifier="Z0" if any(k.key_identifier == "Z0" for k in b.keys) else "Z1")]))), True))
                out.append((f"names-absent-key:{n}:{i}:{si}", with_bundle(b.replace(signatures=set(rest + [s.replace(key_identifier="nobody")]))), True))
            out.append((f"unsigned:{n}:{i}", with_bundle(b.replace(signatures=set())), True))
            out.append((f"key-added-after-signing:{n}:{i}", with_bundle(b.replace(keys=set(b.keys) | {mk_key("Zextra")})), True))
            zs = [k for k in b.keys if k.flags == 256]
            out.append((f"key-removed-after-signing:{n}:{i}", with_bundle(b.replace(keys=set(b.keys) - {zs[0]})), True))
            out.append((f"key-ttl-changed:{n}:{i}", with_bundle(b.replace(keys=(set(b.keys) - {zs[0]}) | {zs[0].replace(ttl=zs[0].ttl + 1)})), False))  # TTL is not covered (original_ttl is)
            out.append((f"no-keys:{n}:{i}", with_bundle(b.replace(keys=set())), True))
            out.append((f"duplicate-identifier:{n}:{i}", with_bundle(b.replace(keys=set(b.keys) | {mk_key(zs[0].key_identifier, pk=pk_text("dup"))})), True))
    return out


def run_skr_stream(res: Result, r: Any, tier: str, driver_ok: bool) -> None:
    import kskm.common.signature as ksig
    from kskm.common.config_misc import ResponsePolicy
    from kskm.skr.load import load_skr
    from kskm.skr.output import skr_to_xml
    from kskm.skr.validate import validate_response

    rec = lib.VerifyRecorder().install(ksig)
    cases: list[dict[str, Any]] = []
    lines: list[dict[str, Any]] = []
    try:
        with tempfile.TemporaryDirectory(prefix="c08_") as tmp:
            for tag, resp, tampered in skr_cases(r, tier):
                n = len(resp.bundles)
                verifies = all(dns_verifies(b) for b in resp.bundles)
                for dn in (0, -1, 1):
                    for vflag in (True, False):
                        if dn != 0 and tampered and not tag.startswith(("bitflip", "foreign")):
                            continue
                        if n + dn < 1:  # the configuration loader refuses num_bundles < 1
                            continue
                        pol = ResponsePolicy(num_bundles=n + dn, validate_signatures=vflag)
                        rec.take()
                        impl = run_impl(lambda: validate_response(resp, pol), lambda x: None)
                        table = rec.take()
                        want = (dn == 0) and (not vflag or verifies)
                        case = {"stream": "validate_response", "tag": tag, "num_bundles": n + dn, "validate_signatures": vflag, "response": response_j(resp)}
                        cases.append({"case": case, "impl": impl, "want": want, "tampered": tampered, "verifies": verifies})
                        lines.append({"op": "validate_response", "response": case["response"], "policy": response_policy_j(pol), "verify": table})
                # load_skr on the file the tools' own writer produces (2+ bundles: a one-bundle file does not read back, F12)
                if n >= 2 and (tag.startswith(("honest", "foreign", "unsigned")) or tag.split(":")[-1] in ("0", "7")):
                    try:
                        xml = skr_to_xml(resp)
                    except Exception:  # noqa: BLE001
                        res.bump("skr:load_skr:writer-failed(skipped)")
                        continue
                    fn = Path(tmp) / "prev.xml"
                    fn.write_text(xml)
                    for dn in (0, 1):
                        pol = ResponsePolicy(num_bundles=n + dn, validate_signatures=True)
                        rec.take()
                        impl = run_impl(lambda: load_skr(fn, pol), lambda x: None)
                        table = rec.take()
                        try:
                            from kskm.skr.load import response_from_xml

                            parsed = response_from_xml(xml)
                        except Exception:  # noqa: BLE001
                            res.bump("skr:load_skr:not-parseable(" + ("refused" if "ok" not in impl else "ACCEPTED") + ")")
                            if "ok" in impl:
                                res.violation("load_skr returned a response for a file its own parser refuses", {"stream": "load_skr", "tag": tag}, key="load-unparseable")
                            continue
                        verifies2 = all(dns_verifies(b) for b in parsed.bundles)
                        want = dn == 0 and verifies2
                        case = {"stream": "load_skr", "tag": tag, "num_bundles": n + dn, "validate_signatures": True, "response": response_j(parsed)}
                        cases.append({"case": case, "impl": impl, "want": want, "tampered": tampered, "verifies": verifies2})
                        lines.append({"op": "load_skr_gate", "response": case["response"], "policy": response_policy_j(pol), "verify": table})
    finally:
        rec.uninstall()

    model = run_driver(lines, exe=DRIVER) if driver_ok else [None] * len(lines)
    for c, m in zip(cases, model):
        case, impl = c["case"], c["impl"]
        res.count({k: v for k, v in case.items()})
        kind = case["tag"].split(":")[0]
        res.bump(f"skr:{case['stream']}:{kind}")
        res.bump("skr-impl:" + ("accept" if "ok" in impl else "{}:{}".format(*next(iter(impl.items())))))
        if c["tampered"] and c["verifies"]:
            res.notes.append(f"generator: case {case['tag']} was meant to be tampered but dnspython accepts it")
        accept = "ok" in impl
        if accept != c["want"]:
            res.violation(
                "previous SKR self-consistency: implementation verdict differs from 'right bundle count and every signature verifies'",
                case,
                key=f"skr:{kind}",
                impl=impl,
                expected_accept=c["want"],
                dnspython_verifies=c["verifies"],
            )
        elif not accept and case["stream"] == "validate_response" and case["num_bundles"] == len(case["response"]["bundles"]) and not c["verifies"] and kind in ("bitflip", "foreign-signer", "expiration-altered", "ttl-altered", "misattributed", "key-added-after-signing", "key-removed-after-signing"):
            # the refusal of a signature that does not verify must be the policy violation, not some crash
            if impl != {"violation": "skrInvalidSignature"}:
                res.violation("previous SKR with a signature that does not verify is not refused as InvalidSignatureViolation", case, key=f"skr-class:{kind}", impl=impl)
        if len([s for s in res.samples if s.get("stream") == "skr"]) < 1 and kind == "foreign-signer" and case["stream"] == "validate_response":
            res.sample({"stream": "skr", "tag": case["tag"], "num_bundles": case["num_bundles"], "validate_signatures": case["validate_signatures"], "impl": impl, "model": m, "dnspython_verifies": c["verifies"]}, limit=6)
        if m is None:
            continue
        if lib.is_unsupported(m):
            res.unsupported += 1
        elif not same_outcome(impl, m):
            res.disagreement(f"{case['stream']}: model != implementation", case, impl, m)


# --------------------------------------------------------------------------------------
# the entry point: where ksrsigner() calls the checks (order of effects)
# --------------------------------------------------------------------------------------


def glue_run(ksr: Any, last: Any, new: Any, policy: Any, table: list[dict[str, Any]] | None, attached: str) -> tuple[list[str], Any]:
    """Run the real kskm.tools.ksrsigner.ksrsigner() with the file loaders, token initialisation, create_skr and the
    SKR writer replaced by recording stubs (they are other properties' subject); check_skr_and_ksr and
    check_last_skr_and_new_skr are the real ones.  Returns (ordered effects, outcome)."""
    import contextlib
    import io
    import logging
    from argparse import Namespace

    import kskm.ksr
    import kskm.misc.hsm
    import kskm.skr
    import kskm.tools.ksrsigner as ks

    events: list[str] = []

    def rec(name: str, value: Any) -> Any:
        events.append(name)
        return value

    args = Namespace(previous_skr="prev.xml" if last is not None else None, ksr="ksr.xml", skr="out.xml", force=True, schema="normal", hsm=None, log_ksr_contents=False, log_skr_contents=False, log_previous_skr_contents=False, config=None)
    config = SimpleNamespace(get_schema=lambda name: None, response_policy=None, request_policy=policy, filenames=SimpleNamespace(previous_skr=None, input_ksr=None, output_skr=None))
    saved = (kskm.skr.load_skr, kskm.ksr.load_ksr, kskm.misc.hsm.init_pkcs11_modules, ks.create_skr, ks.output_skr_xml)
    kskm.skr.load_skr = lambda fn, pol, log_contents=False: rec("load_skr", last)
    kskm.ksr.load_ksr = lambda fn, pol, log_contents=False: rec("load_ksr", ksr)
    kskm.misc.hsm.init_pkcs11_modules = lambda config, name=None: rec("init_modules", modules_of(attached))
    ks.create_skr = lambda request, schema, p11modules, config: rec("create_skr", new)
    ks.output_skr_xml = lambda skr, fn, log_contents=False: rec("write", None)
    try:
        with TokenStub(table), contextlib.redirect_stdout(io.StringIO()):
            out = run_impl(lambda: ks.ksrsigner(logging.getLogger("c08-glue"), args, config), lambda x: x)
    finally:
        kskm.skr.load_skr, kskm.ksr.load_ksr, kskm.misc.hsm.init_pkcs11_modules, ks.create_skr, ks.output_skr_xml = saved
    return events, out


def run_glue_stream(res: Result, pairs: list[Pair], r: Any, tier: str) -> None:
    """Processing continues (create_skr is reached, an SKR is written) only if the chain region accepts; the
    publish/retire flags are off here so that nothing but C08's rules stands between the KSR and the output."""
    from kskm.common.config_misc import RequestPolicy
    from kskm.signer.policy import check_skr_and_ksr

    seen: set[tuple[str, str]] = set()
    picked: list[Pair] = []
    for p in pairs:
        head = p.tag.split(":")[0]
        kind = p.tag if head in ("honest", "id", "keys", "token", "empty") else f"{head}:{r.randrange(8 if tier == 'quick' else 60)}"
        if (kind, p.attached) not in seen:
            seen.add((kind, p.attached))
            picked.append(p)
    PRE = ["load_skr", "load_ksr", "init_modules"]
    for p in picked:
        for flags in [{f: True for f in CHAIN_FLAGS}, {f: r.random() < 0.5 for f in CHAIN_FLAGS}]:
            policy = RequestPolicy(check_keys_publish_safety=False, check_keys_retire_safety=False, **flags)
            events, out = glue_run(p.ksr, p.last, p.last, policy, p.table, p.attached)
            with TokenStub(p.table):
                direct = run_impl(lambda: check_skr_and_ksr(p.ksr, p.last, policy, modules_of(p.attached)))
            case = {"stream": "ksrsigner-glue", "tag": p.tag, "flags": flags, "attached": p.attached, "request": request_j(p.ksr), "last": response_j(p.last), "token": p.table}
            res.count(case)
            res.bump("glue:" + ("written" if "write" in events else "stopped"))
            reg = region(p.ksr, p.last, p.table, p.attached)
            ambiguous = bool(p.last.bundles) and ids_ambiguous(p.last.bundles[-1]) and p.attached == "attached" and flags["check_chain_keys_in_hsm"]
            if reg is not None and not ambiguous:
                want = region_accepts(reg, flags)
                if ("create_skr" in events) != want or ("write" in events) != want or (out == {"ok": True}) != want:
                    res.violation("ksrsigner(): signing / writing does not coincide with the chain region", case, key="glue:" + p.tag.split(":")[0], effects=events, outcome=out, documented_region_accepts=want, clauses=reg)
            # whatever the region says: the entry point must do exactly what check_skr_and_ksr decides, in this order
            expect = PRE + (["create_skr", "write"] if "ok" in direct else [])
            if events != expect or (("ok" in direct) and out != {"ok": True}) or (("ok" not in direct) and out != direct):
                res.disagreement("ksrsigner(): effects / outcome differ from check_skr_and_ksr's verdict at the documented call site", case, {"effects": events, "outcome": out}, {"effects": expect, "check_skr_and_ksr": direct})
    # without a previous SKR nothing is chained (the statement starts 'when a previous SKR is supplied')
    last = base_last(2)
    events, out = glue_run(base_ksr(last, 2, rid="skr-q1"), None, last, RequestPolicy(), None, "attached")
    res.stats["glue:no-previous-skr"] = {"effects": events, "outcome": out}
    if events != ["load_ksr", "init_modules", "create_skr", "write"] or out != {"ok": True}:
        res.disagreement("ksrsigner() without previous SKR: unexpected effects", {"stream": "ksrsigner-glue", "tag": "no-previous-skr"}, {"effects": events, "outcome": out}, None)


# --------------------------------------------------------------------------------------
# the entry point with its REAL loaders: which configuration section judges the previous SKR
# --------------------------------------------------------------------------------------

KNOWN_SHARED = {"num_bundles", "validate_signatures"}  # the shared options whose documented meaning this stream evaluates


def sections_files(r: Any, n_prev: int, n_ksr: int) -> tuple[Any, Any]:
    """An honestly signed previous SKR of n_prev bundles and its honest successor KSR of n_ksr bundles (real RSA keys, real
    proof-of-possession signatures, chained keys, overlap 11 days inside the declared 10..12)."""
    import ceremony as C
    import keys as K
    from datetime import timedelta

    prev, _ksks = signed_skr(n_prev, r)
    pool = K.rsa_keys(1024, 65537)
    zs = [("Z0", pool[0], 8), ("Z1", pool[1], 8)]
    lz = (n_prev - 1) % 2  # the ZSK of the previous last bundle
    layout = [[lz]] + [[lz, 1 - lz]] * (n_ksr - 1)
    req = C.honest_request(zs, layout, start=prev.bundles[-1].expiration - timedelta(days=11), zsk_ttl=172800, req_id="ksr-next", bundle_prefix="next")
    return prev, req


def tamper_signature(doc: Any, index: int, how: str) -> Any:
    """The document (Response or Request) with one signature of bundle `index` damaged."""
    import keys as K
    from kskm.common.signature import make_raw_rrsig

    b = doc.bundles[index]
    sigs = sorted(b.signatures, key=lambda x: x.key_identifier)
    s0, rest = sigs[0], sigs[1:]
    if how == "bitflip":
        bad = s0.replace(signature_data=flip_bit(s0.signature_data, 9))
    elif how == "foreign-signer":  # re-signed by another key under the same identifier and tag
        foreign = K.rsa_keys(2048, 65537)[1]
        bad = s0.replace(signature_data=base64.b64encode(foreign.sign_dnssec(8, make_raw_rrsig(s0, b.keys))))
    else:
        raise KeyError(how)
    bl = list(doc.bundles)
    bl[index] = b.replace(signatures=set(rest + [bad]))
    return doc.replace(bundles=bl)


def sections_run(tmp: Path, cfgd: dict[str, Any], prev: Any) -> tuple[list[str], Any, list[Any]]:
    """The real ksrsigner() on a real configuration object and real files, with the real load_skr / load_ksr (wrapped to
    record entry and success); token initialisation (no token), create_skr and the SKR writer are recording stubs.
    Returns (ordered effects, outcome, verifier answers recorded during the run)."""
    import contextlib
    import copy
    import io
    import logging
    from argparse import Namespace

    import kskm.common.signature as ksig
    import kskm.ksr
    import kskm.misc.hsm
    import kskm.skr
    import kskm.tools.ksrsigner as ks
    from kskm.common.config import KSKMConfig

    events: list[str] = []
    config = KSKMConfig.from_dict(copy.deepcopy(cfgd))
    real_skr, real_ksr = kskm.skr.load_skr, kskm.ksr.load_ksr

    def load_skr(*a: Any, **kw: Any) -> Any:
        events.append("load_skr")
        out = real_skr(*a, **kw)
        events.append("previous-skr-accepted")
        return out

    def load_ksr(*a: Any, **kw: Any) -> Any:
        events.append("load_ksr")
        out = real_ksr(*a, **kw)
        events.append("ksr-accepted")
        return out

    def rec(name: str, value: Any) -> Any:
        events.append(name)
        return value

    args = Namespace(previous_skr=None, ksr=None, skr=None, force=True, schema="s", hsm=None, log_ksr_contents=False, log_skr_contents=False, log_previous_skr_contents=False, config=None)
    saved = (kskm.skr.load_skr, kskm.ksr.load_ksr, kskm.misc.hsm.init_pkcs11_modules, ks.create_skr, ks.output_skr_xml)
    kskm.skr.load_skr, kskm.ksr.load_ksr = load_skr, load_ksr
    kskm.misc.hsm.init_pkcs11_modules = lambda config, name=None: rec("init_modules", [])
    ks.create_skr = lambda request, schema, p11modules, config: rec("create_skr", prev)
    ks.output_skr_xml = lambda skr, fn, log_contents=False: rec("write", None)
    vrec = lib.VerifyRecorder().install(ksig)
    try:
        with contextlib.redirect_stdout(io.StringIO()):
            out = run_impl(lambda: ks.ksrsigner(logging.getLogger("c08-sections"), args, config), lambda x: x)
    finally:
        vrec.uninstall()
        kskm.skr.load_skr, kskm.ksr.load_ksr, kskm.misc.hsm.init_pkcs11_modules, ks.create_skr, ks.output_skr_xml = saved
    return events, out, vrec.take()


def sections_cfg(tmp: Path, n_prev: int, n_ksr: int, layout_sizes: list[int], req_opts: dict[str, Any], resp_opts: dict[str, Any]) -> dict[str, Any]:
    rp = {
        "num_bundles": n_ksr, "num_keys_per_bundle": layout_sizes, "num_different_keys_in_all_bundles": 2 if n_ksr > 1 else 1, "rsa_approved_key_sizes": [1024],
        "check_cycle_length": False, "signature_check_expire_horizon": False,
        # the stubbed create_skr returns the previous SKR: nothing but the loaders and the chain rules decides here
        "check_keys_publish_safety": False, "check_keys_retire_safety": False,
    }
    rp.update(req_opts)
    return {
        "request_policy": rp,
        "response_policy": dict({"num_bundles": n_prev}, **resp_opts),
        "schemas": {"s": {1: {"publish": "k", "sign": "k"}}},
        "filenames": {"previous_skr": str(tmp / "prev.xml"), "input_ksr": str(tmp / "ksr.xml"), "output_skr": str(tmp / "out.xml")},
    }


def run_sections_stream(res: Result, r: Any, tier: str, driver_ok: bool) -> None:
    """Same-named options in DIFFERENT configuration sections (ceremony_run.shared_section_options(): read off the pydantic
    models) set to different values.  The property says which document each section judges: the previous SKR is refused when ITS
    bundle count is wrong or ITS signatures do not verify — `response_policy` —, the KSR under `request_policy`.  Real files,
    real loaders, real configuration object; (n_prev, n_ksr) bundles with n_prev != n_ksr as well, so that even the honest
    configuration has different num_bundles in the two sections."""
    import xml.etree.ElementTree as ET

    import ceremony as C
    import ceremony_run as R
    from kskm.common.config_misc import ResponsePolicy
    from kskm.ksr.load import request_from_xml
    from kskm.skr.load import response_from_xml
    from kskm.skr.output import skr_to_xml

    shared = R.shared_section_options()
    res.stats["options-named-in-two-sections"] = shared
    for opt, secs in shared.items():
        if opt in KNOWN_SHARED and set(secs) == {"request_policy", "response_policy"}:
            res.bump(f"sections:shared-option:{opt}:varied")
        else:
            res.bump(f"sections:shared-option:{opt}:NOT-varied")
            res.notes.append(f"option {opt!r} occurs in sections {secs}: this stream does not know its documented meaning and does not set the sections apart for it")
    cases: list[dict[str, Any]] = []
    lines: list[dict[str, Any]] = []
    with tempfile.TemporaryDirectory(prefix="c08_sections_") as tmpname:
        tmp = Path(tmpname)
        for n_prev, n_ksr in [(3, 2), (2, 3), (2, 2)] + ([(9, 9), (4, 9)] if tier == "thorough" else []):
            prev, req = sections_files(r, n_prev, n_ksr)
            prev_variants = [("honest", prev)] + [(f"{how}:bundle-{i + 1}-of-{n_prev}", tamper_signature(prev, i, how)) for i in sorted({0, n_prev - 1}) for how in ("bitflip", "foreign-signer")]
            ksr_variants = [("honest", req)] + [(f"bitflip:bundle-{j + 1}-of-{n_ksr}", tamper_signature(req, j, "bitflip")) for j in sorted({0, n_ksr - 1})]
            # every pair of values (request section, response section) for each shared option: the honest value and its neighbours
            honest = {"num_bundles": (n_ksr, n_prev), "validate_signatures": (True, True)}
            settings: list[tuple[dict[str, Any], dict[str, Any]]] = []
            nb_vals = sorted({n_prev, n_ksr, *R.differing_values(n_prev), *R.differing_values(n_ksr)})
            nb_pairs = sorted({honest["num_bundles"], (n_prev, n_ksr), (n_prev, n_prev), (n_ksr, n_ksr)} | {(v, n_prev) for v in nb_vals} | {(n_ksr, v) for v in nb_vals})
            for rv, sv in itertools.product([True, False], repeat=2):
                for rn, sn in nb_pairs:
                    settings.append(({"num_bundles": rn, "validate_signatures": rv}, {"num_bundles": sn, "validate_signatures": sv}))
            sizes = [len(b.keys) for b in req.bundles]
            for (ptag, pdoc), (ktag, kdoc) in itertools.product(prev_variants, ksr_variants):
                pxml, kxml = skr_to_xml(pdoc), C.request_to_xml(kdoc)
                (tmp / "prev.xml").write_text(pxml)
                (tmp / "ksr.xml").write_text(kxml)
                # the judgement of the two FILES, independent of any policy: bundle counts by ElementTree, signatures by dnspython
                n_prev_file = len(ET.fromstring(pxml).find("Response").findall("ResponseBundle"))
                n_ksr_file = len(ET.fromstring(kxml).find("Request").findall("RequestBundle"))
                parsed_prev, parsed_ksr = response_from_xml(pxml), request_from_xml(kxml)
                prev_verifies = all(dns_verifies(b) for b in parsed_prev.bundles)
                ksr_verifies = all(dns_verifies(b) for b in parsed_ksr.bundles)
                for req_opts, resp_opts in settings:
                    cfgd = sections_cfg(tmp, n_prev, n_ksr, sizes, req_opts, resp_opts)
                    events, out, table = sections_run(tmp, cfgd, prev)
                    case = {
                        "stream": "ksrsigner-sections", "previous_skr": ptag, "ksr": ktag, "bundles": {"previous_skr": n_prev_file, "ksr": n_ksr_file},
                        "request_policy": req_opts, "response_policy": resp_opts, "prev_xml": pxml, "ksr_xml": kxml, "config": cfgd,
                    }
                    want_prev = n_prev_file == resp_opts["num_bundles"] and (not resp_opts["validate_signatures"] or prev_verifies)
                    want_ksr = n_ksr_file == req_opts["num_bundles"] and (not req_opts["validate_signatures"] or ksr_verifies)
                    cases.append({"case": case, "events": events, "out": out, "want_prev": want_prev, "want_ksr": want_ksr, "prev_verifies": prev_verifies, "ksr_verifies": ksr_verifies})
                    lines.append({"op": "load_skr_gate", "response": response_j(parsed_prev), "policy": response_policy_j(ResponsePolicy(**resp_opts)), "verify": table})
    model = run_driver(lines, exe=DRIVER) if driver_ok else [None] * len(lines)
    for c, m in zip(cases, model):
        case, events, out = c["case"], c["events"], c["out"]
        brief = {k: v for k, v in case.items() if k not in ("prev_xml", "ksr_xml", "config")}
        res.count(brief)
        differ = [o for o in sorted(KNOWN_SHARED) if case["request_policy"][o] != case["response_policy"][o]]
        res.bump("sections:differ-in:" + ("+".join(differ) or "nothing"))
        res.bump("sections:previous-skr:" + case["previous_skr"].split(":")[0] + (":accepted" if "previous-skr-accepted" in events else ":refused"))
        res.bump("sections:ksr:" + case["ksr"].split(":")[0] + (":accepted" if "ksr-accepted" in events else ":refused" if "load_ksr" in events else ":not-reached"))
        got_prev = "previous-skr-accepted" in events
        got_ksr = "ksr-accepted" in events
        key = f"sections:{'+'.join(differ) or 'same'}:{case['previous_skr'].split(':')[0]}:{case['ksr'].split(':')[0]}"
        extra = dict(effects=events, outcome=out, dnspython_verifies={"previous_skr": c["prev_verifies"], "ksr": c["ksr_verifies"]})
        if got_prev and not c["want_prev"]:
            res.violation("ksrsigner(): a previous SKR whose signatures do not verify or whose bundle count is wrong under response_policy was accepted (processing continued)", case, key=key, **extra)
        elif not got_prev and c["want_prev"]:
            res.violation("ksrsigner(): a previous SKR that is consistent under response_policy (right bundle count, signatures verify or validation switched off there) was refused", case, key=key, **extra)
        elif got_prev:
            if got_ksr != c["want_ksr"]:
                res.violation("ksrsigner(): the KSR is not judged by request_policy's own num_bundles / validate_signatures", case, key=key + ":ksr", expected_ksr_accepted=c["want_ksr"], **extra)
            # an honest successor of a consistent previous SKR is signed and written; nothing is signed or written otherwise
            done = "create_skr" in events and "write" in events and out == {"ok": True}
            if done != (c["want_prev"] and c["want_ksr"]):
                res.violation("ksrsigner(): signing / writing does not coincide with 'previous SKR consistent under response_policy and KSR acceptable under request_policy'", case, key=key + ":written", **extra)
        if not got_prev and any(e in events for e in ("load_ksr", "create_skr", "write")):
            res.violation("ksrsigner(): processing continued after the previous SKR was refused", case, key=key + ":continued", **extra)
        if not any(isinstance(x, dict) and x.get("stream") == "ksrsigner-sections" for x in res.samples) and differ and not c["want_prev"]:
            res.sample({**brief, "effects": events, "outcome": out, "model(load_skr_gate under response_policy)": m}, limit=8)
        if m is None:
            continue
        if lib.is_unsupported(m):
            res.unsupported += 1  # (the recorded verifier answers do not cover what the model asks: the run validated under other options)
        elif ("ok" in m) != got_prev:
            res.disagreement("ksrsigner(): the previous SKR passes / fails the entry point's gate unlike the model's load_skr gate under response_policy", case, {"effects": events, "outcome": out}, m)


# --------------------------------------------------------------------------------------
# run
# --------------------------------------------------------------------------------------


def evaluate(p: Pair, flags: dict[str, bool], with_rules: bool) -> tuple[dict[str, Any], list[dict[str, Any]], dict[str, Any]]:
    """Run the implementation on one (pair, flags); returns (case, driver lines, observations)."""
    from kskm.signer.policy import check_skr_and_ksr

    policy = policy_of(flags)
    modules = modules_of(p.attached)
    with TokenStub(p.table) as stub:
        impl = run_impl(lambda: check_skr_and_ksr(p.ksr, p.last, policy, modules))
        calls = list(stub.calls)
        rules = {}
        if with_rules:
            for name in RULE_FUNCS:
                rules[name] = run_impl(lambda: call_rule(name, p.ksr, p.last, policy, modules))
        unknown = stub.unknown
    kj, lj, pj = request_j(p.ksr), response_j(p.last), request_policy_j(policy)
    token = p.table if p.attached == "attached" else None
    case = {"stream": "chain", "tag": p.tag, "flags": flags, "attached": p.attached, "request": kj, "last": lj, "token": p.table}
    lines = [{"op": "check_skr_and_ksr", "request": kj, "last": lj, "policy": pj, "token": token}]
    for name in rules:
        lines.append({"op": "chain_check", "check": name, "request": kj, "last": lj, "policy": pj, "token": token})
    return case, lines, {"impl": impl, "rules": rules, "calls": calls, "unknown_label": unknown}


def judge(res: Result, p_ksr: Any, p_last: Any, case: dict[str, Any], obs: dict[str, Any], models: list[Any]) -> None:
    flags, attached, table = case["flags"], case["attached"], case["token"]
    impl = obs["impl"]
    kind = case["tag"].split(":")[0]
    res.count(case)
    res.bump("kind:" + kind)
    res.bump("attached:" + attached)
    res.bump("impl:" + ("accept" if "ok" in impl else "{}:{}".format(*next(iter(impl.items())))))
    res.bump("flags:" + "".join("1" if flags[f] else "0" for f in CHAIN_FLAGS))
    reg = region(p_ksr, p_last, table, attached)
    ambiguous = bool(p_last.bundles) and ids_ambiguous(p_last.bundles[-1]) and attached == "attached" and flags["check_chain_keys_in_hsm"]
    if any(not pub for _, pub in obs["calls"]):
        # the model's `lookup` parameter IS get_p11_key(label, modules, public=True): another question breaks the tie
        res.disagreement("check_last_skr_key_present: the token was not asked for the PUBLIC object (model's lookup oracle assumes public=True)", case, obs["calls"], None)
    if reg is None:
        res.bump("region:not-applicable(no bundles)")
    elif ambiguous:
        res.bump("region:ambiguous-identifiers-skipped")
    else:
        want = region_accepts(reg, flags)
        res.bump("region:" + ("accept" if want else "refuse"))
        if ("ok" in impl) != want:
            res.violation("chain rules: implementation verdict differs from the documented region", case, key=kind, impl=impl, documented_region_accepts=want, clauses=reg)
        # each rule on its own against its clause
        own = {"check_unique_request": reg["id"], "check_unique_bundle_ids": reg["bundle_ids"]}
        for f in CHAIN_FLAGS:
            own["check_last_skr_key_present" if f == "check_chain_keys_in_hsm" else f] = reg[f] or not flags[f]
        for name, o in obs["rules"].items():
            if ("ok" in o) != own[name]:
                res.violation(f"chain rules: {name} differs from its clause", case, key=f"{kind}:{name}", impl=o, clause_holds=own[name], clauses=reg)
    if models[0] is None:
        return
    for what, i_out, m in [("check_skr_and_ksr", impl, models[0])] + [(f"rule {n}", o, mm) for (n, o), mm in zip(obs["rules"].items(), models[1:])]:
        if lib.is_unsupported(m):
            res.unsupported += 1
        elif isinstance(m, dict) and "driver_error" in m:
            res.disagreement(f"{what}: driver error", case, i_out, m)
        elif not same_outcome(i_out, m):
            res.disagreement(f"{what}: model != implementation", case, i_out, m)


def run(tier: str, driver_ok: bool) -> Result:
    res = Result("C08")
    res.rule = (
        "(previous SKR, KSR) pairs as data objects: honest successors (1..9 bundles), request-id replay and near misses, bundle-id re-use at every "
        "(KSR position, SKR position) pair, 17 first-bundle/previous-last key-set relations (equal, subsets, supersets, disjoint, same id other key, "
        "same key other TTL/tag/flags/algorithm/protocol/id, key only in an earlier previous bundle), overlap on {bound-1d,-1s,0,+1s,+1d} around the "
        "declared min and max for 7 windows (min<max, min==max, negative min, zero, empty, all-negative, the previous SKR's own), the gap edge, 26 token "
        "states (present, unsigned, absent, no/empty key text, foreign key under the label, lookup raising, two signers with each failing in turn, signer not "
        "published, EC points bare/prefixed, homonymous keys) x {token attached, None, []}, random combinations; every pair under all 8 chain-flag subsets; "
        "every rule also called on its own under all-on flags.  Second stream: validate_response / load_skr on really signed SKRs (count +-1, bit flips, "
        "foreign signer, altered fields, key set changed after signing).  Identifier relations: "
        f"{len(ID_RELATED)} kinds of distinct-but-related strings ({', '.join(ID_RELATED)}) as request ids, bundle ids, key identifiers and token labels, both directions, next to the "
        "equal pair.  Configuration sections: real ksrsigner() with real load_skr / load_ksr on real files under every pair of values of the options named in two "
        "sections (read off the pydantic models: num_bundles, validate_signatures in request_policy / response_policy), previous SKR and KSR honest / bit-flipped / "
        "re-signed by a foreign key in the first and last bundle, bundle counts (3,2) (2,3) (2,2).  non-trivial = distinct (pair, flags, token) input"
    )
    r = lib.rng("C08")
    pairs = scenarios(r, tier)
    all_cases: list[tuple[Any, Any, dict[str, Any], dict[str, Any], int]] = []
    lines: list[dict[str, Any]] = []
    all_on = {f: True for f in CHAIN_FLAGS}
    for p in pairs:
        for flags in flag_sets():
            case, ls, obs = evaluate(p, flags, with_rules=(flags == all_on))
            all_cases.append((p.ksr, p.last, case, obs, len(ls)))
            lines.extend(ls)
    model = run_driver(lines, exe=DRIVER) if driver_ok else [None] * len(lines)
    pos = 0
    for ksr, last, case, obs, nl in all_cases:
        judge(res, ksr, last, case, obs, model[pos : pos + nl])
        pos += nl
        kind = case["tag"].split(":")[0]
        if kind in ("overlap", "token", "keys") and not any(s.get("kind") == kind for s in res.samples) and all(case["flags"].values()) and "ok" not in obs["impl"]:
            res.sample({"kind": kind, "tag": case["tag"], "flags": case["flags"], "attached": case["attached"], "impl": obs["impl"], "model": model[pos - nl], "region": region(ksr, last, case["token"], case["attached"])}, limit=6)

    # F10 (DESIGN §5, repaired in /repo): a gap between SKR(n-1) and KSR(n) must be refused even when the KSR declares a
    # negative minimum overlap.  The former witness is replayed on the real code as a regression case.
    last = base_last(2)
    w = base_ksr(last, 2, overlap=-DAY_US // 2, min_ov=-DAY_US, max_ov=12 * DAY_US)
    from kskm.signer.policy import check_skr_and_ksr

    got = run_impl(lambda: check_skr_and_ksr(w, last, policy_of(all_on), None))
    res.stats["F10_gap_witness_impl"] = got
    if "ok" in got:
        res.violation("chain overlap rule accepts a coverage gap", {"witness": "previous last expiration 12 h before the KSR's first inception; declared MinValidityOverlap -1 day"}, key="negative-min-overlap", impl=got)

    run_skr_stream(res, r, tier, driver_ok)
    run_glue_stream(res, pairs, r, tier)
    run_sections_stream(res, lib.rng("C08:sections"), tier, driver_ok)
    return res


def replay(obj: dict[str, Any]) -> Any:
    v = obj.get("violation") or obj.get("disagreement") or {}
    case = v["case"]
    if case.get("stream") in ("validate_response", "load_skr"):
        import kskm.common.signature as ksig
        from kskm.common.config_misc import ResponsePolicy
        from kskm.skr.validate import validate_response

        resp = response_from_j(case["response"])
        pol = ResponsePolicy(num_bundles=case["num_bundles"], validate_signatures=case["validate_signatures"])
        rec = lib.VerifyRecorder().install(ksig)
        try:
            impl = run_impl(lambda: validate_response(resp, pol), lambda x: None)
            table = rec.take()
        finally:
            rec.uninstall()
        m = run_driver([{"op": "validate_response", "response": response_j(resp), "policy": response_policy_j(pol), "verify": table}], exe=DRIVER)[0]
        return {"case": {k: case[k] for k in ("stream", "tag", "num_bundles", "validate_signatures")}, "implementation(validate_response)": impl, "model": m, "dnspython_verifies": all(dns_verifies(b) for b in resp.bundles)}
    if case.get("stream") == "ksrsigner-sections":
        import copy

        from kskm.skr.load import response_from_xml

        with tempfile.TemporaryDirectory(prefix="c08_sections_") as tmpname:
            tmp = Path(tmpname)
            (tmp / "prev.xml").write_text(case["prev_xml"])
            (tmp / "ksr.xml").write_text(case["ksr_xml"])
            cfgd = copy.deepcopy(case["config"])
            cfgd["schemas"] = {"s": {1: {"publish": "k", "sign": "k"}}}  # (JSON turned the slot number into a string)
            cfgd["filenames"] = {"previous_skr": str(tmp / "prev.xml"), "input_ksr": str(tmp / "ksr.xml"), "output_skr": str(tmp / "out.xml")}
            prev = response_from_xml(case["prev_xml"])
            events, out, _table = sections_run(tmp, cfgd, prev)
        return {
            "case": {k: case[k] for k in ("stream", "previous_skr", "ksr", "bundles", "request_policy", "response_policy")},
            "effects_of_ksrsigner": events, "outcome": out,
            "dnspython: every signature of the previous SKR verifies": all(dns_verifies(b) for b in prev.bundles),
            "expected": "previous-skr-accepted iff bundle count == response_policy.num_bundles and (signatures verify or response_policy.validate_signatures is false)",
        }
    ksr, last = request_from_j(case["request"]), response_from_j(case["last"])
    p = Pair(case["tag"], ksr, last, case["token"], case["attached"])
    c2, lines, obs = evaluate(p, case["flags"], with_rules=True)
    models = run_driver(lines, exe=DRIVER)
    reg = region(ksr, last, case["token"], case["attached"])
    return {
        "case": {k: case[k] for k in ("tag", "flags", "attached", "token")},
        "implementation": obs["impl"],
        "implementation_per_rule": obs["rules"],
        "model": models[0],
        "model_per_rule": dict(zip(obs["rules"], models[1:])),
        "documented_region": reg,
        "documented_region_accepts": None if reg is None else region_accepts(reg, case["flags"]),
    }
