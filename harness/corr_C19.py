"""C19 correspondence: key generation, deletion and inventory never clobber, guess or misreport keys.

EXPLORATION.  From each initial token layout (0..4 pre-existing objects over the labels Kaaa / Kbbb: pairs, public-only,
private-only, objects in a second slot / second module / a slot refusing login, slot lists in both orders, a secret key,
two objects under one label, duplicate label+id, split pairs, ids, an EC pair, a data object) the state graph of the
token under the operations

    keygen --label A|B (RSASHA256, 2048; the emulator hands out keys of `world.keygen_pool`)
    keydelete --label A|B  answered "Yes" / "yes" / --force          (+ "YES", "Yes ", " Yes", "", "Y", "Yes\\n": evaluated, not expanded)
    inventory, inventory --dns

is explored breadth-first to depth 4 (quick) / 5 (thorough): EVERY operation is run in EVERY distinct token state that
some sequence of at most depth-1 operations reaches, i.e. all sequences of <= 4 / <= 5 operations are covered, each
(state, operation) pair once.  keygen and inventory are additionally run under every relevant configuration
(no KSK; a KSK whose tag equals the first / second pool key's tag with / without the REVOKE bit; a KSK describing the
token key truthfully; with a wrong tag; a wrong DS; two entries for one label; an algorithm of the wrong family).

KEY-TAG LATTICE (every run, both tiers).  The two reported tags and the collision verdict are judged against dnspython
on keys where a plausible re-implementation goes wrong (each class has probability ~2^-9 among random keys, so they are
handed out by the emulator on purpose): `generateKeyPair` serves, besides the ordinary fixture keys,
  * 2048 / 3072 / 4096-bit public-only keys (keys.craft_modulus_with_acc; keygen and inventory never use the private
    half) whose flags-257 accumulator `ac` has low word 0xFF7E..0xFF81, 0xFFFE, 0xFFFF, 0x0000, 0x0001 (setting the
    REVOKE bit, +0x0080 in the first RDATA word, carries into the high word from 0xFF80 on: revoked tag = tag + 129,
    not + 128), fold sum (ac & 0xFFFF) + (ac >> 16) = 0x10000 - 2..+2 for the plain and for the revoked form (second
    carry is dropped: tags 65534, 65535, 0, 1, 2), plain tags 65407 / 65408 / 65535 (tag + 128 leaves 16 bits);
  * the real 1024-bit keys of fixtures/special.json (`revcarry`, `carry`, `twins`) for `keygen --size 1024`.
Each of them is generated (label free; on an empty token and next to an existing pair) under the configurations
`next:<rel>`: one configured KSK whose key_tag is, relative to the TRUE (dnspython) tags of the key about to be handed
out, plain / revoked / revoked-1 / revoked+1 / plain+128 / plain+129 / plain-1 / plain+1 (mod 2^16), or the revoked tag
in a second entry.  Oracle: success => both reported tags and the DS are dnspython's and no configured tag equals either;
the model comparison covers the converse (a refusal without a collision is a disagreement).  Two exploration layouts
whose pool starts with such keys put them into operation sequences as well, and the `next:*` configurations are also
evaluated for every keygen of the exploration.

The REAL `kskm.tools.keymaster.keygen / keydel / inventory` run in-process against harness/p11emu.py after
`init_pkcs11_modules(config, rw_session=True)` (as `main()` does); `builtins.input` and `time.sleep` are patched; a
capturing logger object receives the messages.  Observed: the emulator's object table before and after, the return
value / exception class, the messages.

PROPERTY ORACLE (from the property text, on the object tables; independent of the model):
  keygen    label carried by a public or private key object of a usable slot => failure and table unchanged;
            otherwise a success adds exactly one public + one private RSA object with the label, modulus of the requested
            size (2048 unless stated), e = 65537, same key, nothing else changes; the reported tags / DS are dnspython's for the new key (flags 257
            and 385); a success is impossible when a configured KSK's tag equals either tag.
  keydelete without --force and without exactly "Yes": table unchanged; otherwise nothing is added, every removed object
            carries the label (class public/private), and a uniquely present labelled pair is gone afterwards.
  inventory every distinct (class, label, id) of every usable slot appears exactly once: as a pair iff a public and a
            private object share label and id, else under its class heading; a pair whose label is configured shows
            BAD KSK iff a configured tag / DS differs from dnspython's value for the token key.

MODEL (kskm_driver_pkgi): the same program is run by log replay against the recorded token answers (result + complete
operation sequence must agree) and on the object table before the operation (result + object table afterwards must
agree).  The model mirrors the code AS REPAIRED by proposed_fixes/F9a, F9b, F14: on an unrepaired tree the three defects
are reported by the oracle as violations with the failing history (and the model comparison is skipped for exactly those
operations).  corpus/C19_findings.json holds the failing histories of F9a, F9b, F14; they run first on every invocation.
A model answer "unsupported" (the replaying oracle or the hash table was asked something that was not recorded) is a
DISAGREEMENT, never silently "unsupported".
"""

from __future__ import annotations

import builtins
import hashlib
import json
import re
from argparse import Namespace
from collections import Counter
from typing import Any

import ceremony as C
import keys as K
import lib
import p11emu
from lib import Result, hexs

DRIVER = "kskm_driver_pkgi"
ASSUMPTIONS = [
    "the token emulator stands in for a PKCS#11 device; handles are numbered per slot, as on real tokens (F9b depends on it)",
    "C_GenerateKeyPair on the emulator hands out fixture keys of the requested size and exponent",
    "an 'existing key' is a public or private key object; a secret-key or data object under the label does not block generation (recorded boundary)",
    "the inventory is a KEY inventory: objects of other classes (data, certificates) are not listed, and two objects of one class with equal label and id are one entry (recorded boundaries)",
]
TRUSTED = ["harness/p11emu.py token emulator", "dnspython (independent key tag / DS)"]

LA, LB = "Kaaa", "Kbbb"
CKO_DATA, CKO_PUBLIC, CKO_PRIVATE, CKO_SECRET = 0, 2, 3, 4
CKK_RSA, CKK_EC, CKK_AES = 0, 3, 31
POOL = [["rsa", 2048, 65537, i] for i in range(5)]
KA = ["rsa", 1024, 65537, 0]
KB = ["rsa", 2048, 17, 0]
KA2 = ["rsa", 1024, 65537, 1]
KEC = ["ec", "P-256", 0]

WHAT_KEYGEN = "key generation under an existing label did not fail with the token unchanged"
WHAT_KEYGEN_PAIR = "successful key generation did not add exactly one labelled RSA pair of the requested size and exponent"
WHAT_KEYGEN_REPORT = "reported key tags / DS are not the RFC values of the generated key, or a tag collision was not refused"
WHAT_DELETE = "deletion did not remove exactly the labelled pair, or removed something without confirmation"
WHAT_INVENTORY = "inventory does not list every key object of every slot exactly once, paired by label and id"
WHAT_BADKSK = "inventory verdict on a configured KSK is wrong"


_REF: dict[int, list[Any]] = {}
_PUB: dict[str, K.TestKey] = {}


def key_of(ref: list[Any]) -> K.TestKey:
    """["rsa", bits, e, i] / ["ec", curve, i]: fixtures/keys.json;  ["special", "carry"|"revcarry", i] / ["special", "twins", pair, i]:
    fixtures/special.json;  ["pub", e, modulus hex]: public-only material carried by the state itself (replayable)."""
    if ref[0] == "rsa":
        return K.rsa_keys(ref[1], ref[2])[ref[3]]
    if ref[0] == "special":
        tk = K.special()[ref[1]]
        for i in ref[2:]:
            tk = tk[i]
    elif ref[0] == "pub":
        key = json.dumps(ref)
        if key not in _PUB:
            _PUB[key] = K.public_only_key(int(ref[2], 16), ref[1])
        tk = _PUB[key]
    else:
        return K.ec_keys(ref[1])[ref[2]]
    _REF.setdefault(id(tk), list(ref))
    return tk


def ref_of(tk: K.TestKey) -> list[Any]:
    if not any(r[0] in ("rsa", "ec") for r in _REF.values()):
        for k in K.all_keys():
            if k.kind == "rsa":
                _REF[id(k)] = ["rsa", k.bits, k.e, K.rsa_keys(k.bits, k.e).index(k)]
            else:
                _REF[id(k)] = ["ec", k.curve, K.ec_keys(k.curve).index(k)]
    return _REF[id(tk)]


# --------------------------------------------------------------------------------------
# token states (JSON-able) <-> emulator worlds
# --------------------------------------------------------------------------------------


def o_(cls: int, label: str, key: list[Any] | None, key_id: str = "", kt: int | None = CKK_RSA) -> dict[str, Any]:
    return {"cls": cls, "label": label, "key": key, "id": key_id, "kt": kt}


def pair(label: str, key: list[Any], key_id: str = "") -> list[dict[str, Any]]:
    kt = CKK_EC if key[0] == "ec" else CKK_RSA
    return [o_(CKO_PUBLIC, label, key, key_id, kt), o_(CKO_PRIVATE, label, key, key_id, kt)]


def layout(name: str, slots: list[tuple[str, int, bool, list[dict[str, Any]]]], pool: list[list[Any]] | None = None) -> dict[str, Any]:
    """slots: (module path, slot id, login_ok, objects) in getSlotList order; pool: the keys generateKeyPair hands out."""
    mods: dict[str, Any] = {}
    for path, sid, ok, objs in slots:
        m = mods.setdefault(path, {"path": path, "slots": []})
        sl = {"id": sid, "login_ok": ok, "next": 1, "objects": []}
        for o in objs:
            sl["objects"].append(dict(o, handle=sl["next"]))
            sl["next"] += 1
        m["slots"].append(sl)
    return {"name": name, "mods": list(mods.values()), "pool": [list(p) for p in (POOL if pool is None else pool)]}


def layouts(tier: str, r: Any) -> list[dict[str, Any]]:
    E0 = "emu0"
    out = [
        layout("empty", [(E0, 0, True, []), (E0, 1, True, [])]),
        layout("pairA", [(E0, 0, True, pair(LA, KA)), (E0, 1, True, [])]),
        layout("privonlyB", [(E0, 0, True, [o_(CKO_PRIVATE, LB, KB)]), (E0, 1, True, [])]),
        layout("pubonlyA", [(E0, 0, True, [o_(CKO_PUBLIC, LA, KA)]), (E0, 1, True, [])]),
        layout("pubA+privB", [(E0, 0, True, [o_(CKO_PUBLIC, LA, KA), o_(CKO_PRIVATE, LB, KB)])]),
        layout("pairA+privB+pubB'", [(E0, 0, True, pair(LA, KA) + [o_(CKO_PRIVATE, LB, KB, "01"), o_(CKO_PUBLIC, LB, KB, "02")])]),
        layout("A-in-slot1,B-in-slot0", [(E0, 0, True, pair(LB, KB)), (E0, 1, True, pair(LA, KA))]),
        layout("A-in-slot1,slot0-empty", [(E0, 0, True, []), (E0, 1, True, pair(LA, KA))]),
        layout("A-in-slot1,B-in-slot0,order10", [(E0, 1, True, pair(LA, KA)), (E0, 0, True, pair(LB, KB))]),
        layout("A-in-slot1,secret-first-in-slot0", [(E0, 0, True, [o_(CKO_SECRET, "Sec", None, "", CKK_AES)] + pair(LB, KB)), (E0, 1, True, pair(LA, KA))]),
        layout("two-public-A", [(E0, 0, True, pair(LA, KA, "01") + [o_(CKO_PUBLIC, LA, KA2, "02")])]),
        layout("dup-label+id", [(E0, 0, True, [o_(CKO_PUBLIC, LA, KA, "01"), o_(CKO_PUBLIC, LA, KA, "01"), o_(CKO_PRIVATE, LA, KA, "01")])]),
        layout("secretB+pairA", [(E0, 0, True, [o_(CKO_SECRET, LB, None, "", CKK_AES)] + pair(LA, KA))]),
        layout("split-pair-A", [(E0, 0, True, [o_(CKO_PUBLIC, LA, KA)]), (E0, 1, True, [o_(CKO_PRIVATE, LA, KA)])]),
        layout("split-pair-A-reversed", [(E0, 0, True, [o_(CKO_PRIVATE, LA, KA)]), (E0, 1, True, [o_(CKO_PUBLIC, LA, KA)])]),
        layout("pairA-id01+pairB", [(E0, 0, True, pair(LA, KA, "01") + pair(LB, KB))]),
        layout("A-ids-differ", [(E0, 0, True, [o_(CKO_PUBLIC, LA, KA, "01"), o_(CKO_PRIVATE, LA, KA, "02")])]),
        layout("refused-slot-holds-A", [(E0, 7, False, pair(LA, KA)), (E0, 0, True, [])]),
        layout("A-in-second-module", [(E0, 0, True, pair(LB, KB)), ("emu1", 0, True, pair(LA, KA))]),
        layout("dataA+pairB", [(E0, 0, True, [o_(CKO_DATA, LA, None, "", None)] + pair(LB, KB))]),
        layout("ecB+pairA", [(E0, 0, True, pair(LB, KEC) + pair(LA, KA))]),
        layout("privA-in-both-slots", [(E0, 0, True, [o_(CKO_PRIVATE, LA, KA)]), (E0, 1, True, [o_(CKO_PRIVATE, LA, KA2), o_(CKO_PUBLIC, LA, KA2)])]),
    ]
    # pools that start with key-tag boundary keys (module docstring): the same exploration, other keys handed out
    rl = lib.rng("C19:pool-layouts")
    ff80 = crafted_ref(rl, 256, low=0xFF80)
    ffff = crafted_ref(rl, 256, low=0xFFFF)
    fold0 = crafted_ref(rl, 256, fold=0)
    fold1 = crafted_ref(rl, 256, fold=1)
    out.append(layout("empty,pool=low-word-0xFF80/fold-0x10001/0xFFFF", [(E0, 0, True, []), (E0, 1, True, [])], pool=[ff80, fold1, ffff] + POOL))
    out.append(layout("pairA,pool=fold-0x10000/0xFF80", [(E0, 0, True, pair(LA, KA)), (E0, 1, True, [])], pool=[fold0, ff80] + POOL))
    if tier == "thorough":
        menu = [o_(CKO_PUBLIC, LA, KA), o_(CKO_PRIVATE, LA, KA), o_(CKO_PUBLIC, LB, KB), o_(CKO_PRIVATE, LB, KB), o_(CKO_PUBLIC, LA, KA, "01"), o_(CKO_PRIVATE, LA, KA, "01"), o_(CKO_SECRET, LB, None, "", CKK_AES), o_(CKO_PRIVATE, LB, KB, "02")]
        for i in range(30):
            n = r.randrange(0, 5)
            objs = [dict(r.choice(menu)) for _ in range(n)]
            s0 = [o for o in objs if r.random() < 0.6]
            s1 = [o for o in objs if o not in s0]
            order = [(E0, 0, True, s0), (E0, 1, True, s1)]
            if r.random() < 0.4:
                order.reverse()
            out.append(layout(f"random{i}", order))
    return out


def mk_object(o: dict[str, Any]) -> p11emu.EmuObject:
    import PyKCS11.LowLevel as LL

    tk = key_of(o["key"]) if o["key"] else None
    attrs: dict[int, bytes] = {}
    if tk is not None and tk.kind == "rsa":
        attrs = {int(LL.CKA_MODULUS): tk.modulus_bytes(), int(LL.CKA_PUBLIC_EXPONENT): tk.exponent_bytes()}
    elif tk is not None:
        pt = tk.ec_point(prefix=True)
        attrs = {int(LL.CKA_EC_PARAMS): K.EC_OID[tk.curve]}
        if o["cls"] == CKO_PUBLIC:
            attrs[int(LL.CKA_EC_POINT)] = bytes([4, len(pt)]) + pt
    return p11emu.EmuObject(o["cls"], o["label"], o["kt"], attrs, tk, bytes.fromhex(o["id"]))


def mk_world(state: dict[str, Any]) -> p11emu.World:
    mods = []
    for m in state["mods"]:
        slots = []
        for s in m["slots"]:
            es = p11emu.EmuSlot(s["id"], login_ok=s["login_ok"])
            for o in s["objects"]:
                es.objects[o["handle"]] = mk_object(o)
            es.next_handle = s["next"]
            slots.append(es)
        mods.append(p11emu.EmuModule(m["path"], slots))
    w = p11emu.World(mods)
    w.keygen_pool = [key_of(p) for p in state["pool"]]
    return w


def state_of(world: p11emu.World, name: str) -> dict[str, Any]:
    mods = []
    for path, m in world.modules.items():
        slots = []
        for s in m.slots:
            objs = []
            for h, o in sorted(s.objects.items()):
                objs.append({"cls": o.cls, "label": o.label, "key": ref_of(o.key) if o.key is not None else None, "id": hexs(o.key_id), "kt": o.key_type, "handle": h})
            slots.append({"id": s.slot_id, "login_ok": s.login_ok, "next": s.next_handle, "objects": objs})
        mods.append({"path": path, "slots": slots})
    return {"name": name, "mods": mods, "pool": [ref_of(k) for k in world.keygen_pool]}


def store_j(world: p11emu.World) -> dict[str, Any]:
    """The object table in the shape of lean/Kskm/Ops/PkgI.lean `StoreJ` (read from the emulator, not from the state)."""
    mods = []
    for path, m in world.modules.items():
        slots = []
        for s in m.slots:
            objs = []
            for h, o in sorted(s.objects.items()):
                objs.append({"handle": h, "cls": o.cls, "label": o.label, "keyType": o.key_type, "id": hexs(o.key_id), "attrs": [[p11emu.ATTR_NAMES[a], hexs(v)] for a, v in sorted(o.attrs.items())]})
            slots.append({"slot": s.slot_id, "next": s.next_handle, "objects": objs})
        mods.append({"module": path, "slots": slots})
    pool = [{"bits": k.bits, "e": k.e, "modulus": hexs(k.modulus_bytes()), "exponent": hexs(k.exponent_bytes())} for k in world.keygen_pool]
    return {"modules": mods, "pool": pool}


def table(state: dict[str, Any], usable_only: bool = False) -> list[tuple[Any, ...]]:
    """All objects as (module, slot, handle, class, label, id, key)."""
    out = []
    for m in state["mods"]:
        for s in m["slots"]:
            if usable_only and not s["login_ok"]:
                continue
            for o in s["objects"]:
                out.append((m["path"], s["id"], o["handle"], o["cls"], o["label"], o["id"], json.dumps(o["key"]), o["kt"]))
    return out


# --------------------------------------------------------------------------------------
# key-tag boundary keys for the pool
# --------------------------------------------------------------------------------------


def fold_sum(ac: int) -> int:
    return (ac & 0xFFFF) + (ac >> 16)


def crafted_ref(r: Any, n_len: int, *, low: int | None = None, fold: int | None = None, fold_revoked: int | None = None, tag: int | None = None) -> list[Any]:
    """Public-only key (e = 65537) whose flags-257 / algorithm-8 accumulator `ac` has: low word == low | fold sum == 0x10000 + fold |
    fold sum of the REVOKED form (ac + 0x80) == 0x10000 + fold_revoked | RFC key tag == tag."""
    if low is not None:
        pred = lambda ac: (ac & 0xFFFF) == low  # noqa: E731
    elif fold is not None:
        pred = lambda ac: fold_sum(ac) == 0x10000 + fold  # noqa: E731
    elif fold_revoked is not None:
        pred = lambda ac: fold_sum(ac + 0x80) == 0x10000 + fold_revoked  # noqa: E731
    else:
        pred = lambda ac: (ac + (ac >> 16)) & 0xFFFF == tag  # noqa: E731
    return ["pub", 65537, hex(K.craft_modulus_with_acc(pred, 257, 8, r, n_len, 65537))]


def lattice_keys(r: Any) -> list[tuple[str, list[Any], int]]:
    """(class, key ref, size to request)."""
    out: list[tuple[str, list[Any], int]] = []
    for low in (0xFF7E, 0xFF7F, 0xFF80, 0xFF81, 0xFFFE, 0xFFFF, 0x0000, 0x0001):
        out.append((f"low-word=0x{low:04X}", crafted_ref(r, 256, low=low), 2048))
    for d in (-2, -1, 0, 1, 2):
        out.append((f"fold-sum=0x10000{d:+d}", crafted_ref(r, 256, fold=d), 2048))
        out.append((f"revoked-fold-sum=0x10000{d:+d}", crafted_ref(r, 256, fold_revoked=d), 2048))
    for t in (65407, 65408, 65535):
        out.append((f"tag={t}", crafted_ref(r, 256, tag=t), 2048))
    for n_len in (384, 512):
        out.append((f"low-word>=0xFF80:{8 * n_len}", crafted_ref(r, n_len, low=r.randrange(0xFF80, 0x10000)), 8 * n_len))
        out.append((f"fold-carries:{8 * n_len}", crafted_ref(r, n_len, fold=r.randrange(0, 64)), 8 * n_len))
    for _ in range(3):
        out.append(("random-low-word>=0xFF80", crafted_ref(r, 256, low=r.randrange(0xFF80, 0x10000)), 2048))
        out.append(("random-fold-carries", crafted_ref(r, 256, fold=r.randrange(0, 60)), 2048))
    out.append(("ordinary", list(POOL[2]), 2048))
    sp = K.special()
    for kind in ("revcarry", "carry"):
        for i in range(len(sp[kind])):
            out.append((f"special:{kind}", ["special", kind, i], 1024))
    for p in range(len(sp["twins"])):
        for i in (0, 1):
            out.append(("special:twins", ["special", "twins", p, i], 1024))
    return out


NEXT_RELS = ["plain", "revoked", "revoked-1", "revoked+1", "plain+128", "plain+129", "plain-1", "plain+1", "second-entry-revoked"]


def next_pool_key(state: dict[str, Any], op: dict[str, Any] | None) -> K.TestKey | None:
    """The key the emulator's generateKeyPair will hand out for this request (first pool key of the requested size, e = 65537)."""
    size = 2048 if op is None else op.get("size", 2048)
    for ref in state["pool"]:
        tk = key_of(ref)
        if tk.kind == "rsa" and tk.bits == size and tk.e == 65537:
            return tk
    return None


def lattice(res: Result, pending: list[Any]) -> None:
    """Every lattice key x every `next:*` configuration (+ no KSK) x {empty token, token holding another pair}."""
    r = lib.rng("C19:keytag-lattice")
    E0 = "emu0"
    for cls, ref, size in lattice_keys(r):
        tk = key_of(ref)
        ac = K.tag_accumulator(K.dnskey_rdata(tk, 257, 8))
        t257, t385, _ = rfc_tags(tk, 8)
        res.bump("lattice:key:" + cls)
        res.bump("lattice:revoked-tag=plain+" + str((t385 - t257) % 65536))
        if fold_sum(ac) >= 0x10000:
            res.bump("lattice:plain-fold-carries")
        if fold_sum(ac + 0x80) >= 0x10000:
            res.bump("lattice:revoked-fold-carries")
        for lname, slots in (("empty", [(E0, 0, True, []), (E0, 1, True, [])]), ("pairB", [(E0, 0, True, pair(LB, KB)), (E0, 1, True, [])])):
            state = layout(f"lattice:{lname}:{cls}", slots, pool=[ref] + POOL[:2])
            op: dict[str, Any] = {"op": "keygen", "label": LA}
            if size != 2048:
                op["size"] = size
            for cfgname in ["empty"] + ["next:" + x for x in NEXT_RELS] + ["next:plain@13", "next:revoked@10", "next:revoked@14", "next:plain+128@13"]:
                ctx = {"layout": state["name"], "initial": {"mods": state["mods"], "pool": state["pool"], "name": state["name"]}, "history": [], "op": op, "config": cfgname}
                if cfgname.startswith("next:") and next_tag(cfgname, state, op) is None:
                    res.bump("lattice:configured-tag-would-be-0:not-configurable")
                    continue
                run = run_op(state, cfgname, op)
                res.count({"s": state_key(state), "op": op, "cfg": cfgname})
                res.bump("op:keygen")
                res.bump("lattice:" + cfgname + ":" + ("generated" if "ok" in run["impl"] else "refused"))
                vkey = judge(state, op, run, res, ctx)
                pending.append((op, run, ctx, vkey))
                if cfgname == "empty" and "ok" not in run["impl"]:
                    # no configured KSK, label free, and still no success: recorded, not judged (the property speaks of successful generations)
                    res.bump(f"boundary:lattice-keygen-fails-without-any-configured-KSK:tag={t257}:{run['impl'].get('error')}")
                    if lname == "empty":
                        res.notes.append(
                            f"boundary: keygen of a key whose RFC 4034 key tag is {t257} (revoked {t385}) with NO configured KSK fails with {run['impl']} after the pair was created on the token "
                            f"(objects added: {len(table(run['after'])) - len(table(state))}); last messages: {[m[:90] for _l, m in run['messages']][-2:]}; the model agrees (DNSRecords.from_key builds a KSKKey, whose key_tag must be 1..65535)"
                        )


# --------------------------------------------------------------------------------------
# configurations
# --------------------------------------------------------------------------------------


def rfc_tags(tk: K.TestKey, alg: int, prefixed_ec: bool = True) -> tuple[int, int, str]:
    """(tag flags 257, tag flags 385, DS SHA-256 hex of the flags-257 key), by dnspython."""
    import dns.dnssec
    import dns.name
    import dns.rdataclass
    import dns.rdatatype
    from dns.rdtypes.ANY.DNSKEY import DNSKEY

    pk = tk.dnskey_public_key() if tk.kind == "rsa" else tk.ec_point(prefix=prefixed_ec)
    k257 = DNSKEY(dns.rdataclass.IN, dns.rdatatype.DNSKEY, 257, 3, alg, pk)
    k385 = DNSKEY(dns.rdataclass.IN, dns.rdatatype.DNSKEY, 385, 3, alg, pk)
    ds = dns.dnssec.make_ds(dns.name.root, k257, "SHA256")
    return dns.dnssec.key_id(k257), dns.dnssec.key_id(k385), ds.digest.hex().upper()


_CFG: dict[str, Any] = {}


def next_tag(name: str, state: dict[str, Any], op: dict[str, Any] | None) -> int | None:
    """`next:<rel>`: the configured key tag, relative to the TRUE tags (dnspython) of the key about to be generated."""
    tk = next_pool_key(state, op)
    if tk is None:
        return None
    t257, t385, _ = rfc_tags(tk, 8)
    m = re.fullmatch(r"next:(plain|revoked|second-entry-revoked)([+-]\d+)?", name.partition("@")[0])
    if m is None:
        raise KeyError(name)
    base = t257 if m.group(1) == "plain" else t385
    tag = (base + int(m.group(2) or 0)) % 65536
    return tag if tag >= ksk_tag_min() else None  # a tag the configuration schema refuses cannot be configured


def ksk_tag_min() -> int:
    """Smallest key_tag the configuration schema accepts (read from the pydantic field, not assumed)."""
    from kskm.common.config_misc import KSKKey

    for m in KSKKey.model_fields["key_tag"].metadata:
        if getattr(m, "ge", None) is not None:
            return int(m.ge)
    return 0


def config(name: str, state: dict[str, Any], op: dict[str, Any] | None = None) -> Any:
    hsm = {f"hsm{i}": {"module": m["path"], "pin": "1234"} for i, m in enumerate(state["mods"])}
    dyn = next_tag(name, state, op) if name.startswith("next:") else None
    key = name + f"={dyn}|" + json.dumps(sorted(hsm))
    if key in _CFG:
        return _CFG[key]
    # `<name>@<alg>`: the KSK entry that carries the colliding tag is configured with DNSSEC algorithm <alg> (a mixed
    # configuration, as during an algorithm rollover); the property's collision clause speaks of "a configured KSK's tag",
    # whatever that KSK's algorithm is.
    name, _, kz_alg_s = name.partition("@")
    kz_alg = int(kz_alg_s) if kz_alg_s else 8
    ka = key_of(KA)
    tagA, _, dsA = rfc_tags(ka, 8)
    p0 = rfc_tags(key_of(POOL[0]), 8)
    p1 = rfc_tags(key_of(POOL[1]), 8)

    def ent(label: str, tk: K.TestKey, alg: int = 8, tag: int | None = None, ds: str | None = None) -> dict[str, Any]:
        e = C.ksk_config_entry(label, tk, alg if (tk.kind == "rsa") == (alg in (5, 8, 10)) else 8)
        e["algorithm"] = C.ALG_NAME[alg]
        if alg in (13, 14):
            e.pop("rsa_size", None)
            e.pop("rsa_exponent", None)
        if tag is not None:
            e["key_tag"] = tag
        if ds is not None:
            e["ds_sha256"] = ds
        return e

    other = key_of(["rsa", 1024, 65537, 5])
    ksk: dict[str, Any] = {}
    if name == "empty":
        pass
    elif name == "A-good":
        ksk = {"ka": ent(LA, ka, tag=tagA, ds=dsA.lower())}
    elif name == "A-tagonly":
        ksk = {"ka": ent(LA, ka, tag=tagA)}
    elif name == "A-none":
        ksk = {"ka": ent(LA, ka)}
    elif name == "A-badtag":
        ksk = {"ka": ent(LA, ka, tag=(tagA % 65535) + 1, ds=dsA)}
    elif name == "A-badds":
        ksk = {"ka": ent(LA, ka, tag=tagA, ds=hashlib.sha256(b"other").hexdigest())}
    elif name == "A-good-then-bad":
        ksk = {"k1": ent(LA, ka, tag=tagA, ds=dsA), "k2": ent(LA, ka, tag=(tagA % 65535) + 1)}
    elif name == "A-bad-then-good":
        ksk = {"k1": ent(LA, ka, tag=(tagA % 65535) + 1), "k2": ent(LA, ka, tag=tagA, ds=dsA)}
    elif name == "A-ec-alg":
        ksk = {"ka": ent(LA, ka, alg=13)}
    elif name == "B-pool0-good":
        ksk = {"kb": ent(LB, key_of(POOL[0]), tag=p0[0], ds=p0[2])}
    elif name == "collide257":
        ksk = {"kz": ent("Kzzz", other, alg=kz_alg, tag=p0[0])}
    elif name == "collide385":
        ksk = {"kz": ent("Kzzz", other, alg=kz_alg, tag=p0[1])}
    elif name == "collide-second":
        ksk = {"ka": ent(LA, ka, tag=tagA, ds=dsA), "kz": ent("Kzzz", other, alg=kz_alg, tag=p1[1])}
    elif name.startswith("next:"):
        if dyn is None:
            ksk = {}  # nothing will be handed out (no tag to relate to), or the tag would be 0 (not configurable)
        elif name == "next:second-entry-revoked":
            ksk = {"ka": ent(LA, ka, tag=tagA, ds=dsA), "kz": ent("Kzzz", other, alg=kz_alg, tag=dyn)}
        else:
            ksk = {"kz": ent("Kzzz", other, alg=kz_alg, tag=dyn)}
    else:
        raise KeyError(name)
    cfg = C.make_config(hsm, ksk, {}, ksk_policy={"ttl": 172800})
    _CFG[key] = cfg
    return cfg


def km_cfg_j(cfg: Any) -> dict[str, Any]:
    return {"ksks": [{"key": C.ksk_j(k), "description": k.description, "algName": k.algorithm.name} for k in cfg.ksk_keys.values()], "ttl": cfg.ksk_policy.ttl}


# `@<alg>`: the colliding KSK is configured with another DNSSEC algorithm than the one being generated (RSASHA512, ECDSA P-256/P-384)
MIXED_ALG_CFGS = ["collide257@10", "collide385@13", "collide-second@14", "next:plain@13", "next:revoked@10", "next:second-entry-revoked@13", "next:plain+128@10", "next:revoked-1@13"]
KEYGEN_CFGS = ["empty", "collide257", "collide385", "collide-second", "A-good"] + ["next:" + x for x in NEXT_RELS] + MIXED_ALG_CFGS
INVENTORY_CFGS = ["empty", "A-good", "A-tagonly", "A-none", "A-badtag", "A-badds", "A-good-then-bad", "A-bad-then-good", "A-ec-alg", "B-pool0-good"]

# --------------------------------------------------------------------------------------
# operations
# --------------------------------------------------------------------------------------

EXPAND_OPS = [
    {"op": "keygen", "label": LA},
    {"op": "keygen", "label": LB},
    {"op": "keydel", "label": LA, "force": False, "answer": "Yes"},
    {"op": "keydel", "label": LB, "force": False, "answer": "Yes"},
    {"op": "keydel", "label": LA, "force": True, "answer": ""},
    {"op": "keydel", "label": LB, "force": True, "answer": ""},
]
EVAL_ONLY_OPS = (
    [{"op": "keydel", "label": lab, "force": False, "answer": a} for lab in (LA, LB) for a in ("yes", "YES", "Yes ", " Yes", "", "Y", "Yes\n", "\nYes")]
    + [{"op": "inventory", "dns": False}, {"op": "inventory", "dns": True}]
    + [{"op": "keygen", "label": LA, "alg": 13}, {"op": "keygen", "label": LA, "size": None}]
)


class CapLogger:
    def __init__(self) -> None:
        self.records: list[tuple[str, str]] = []

    def _log(self, lvl: str, msg: Any, *a: Any) -> None:
        self.records.append((lvl, str(msg) % a if a else str(msg)))

    def debug(self, msg: Any, *a: Any, **k: Any) -> None:
        self._log("debug", msg, *a)

    def info(self, msg: Any, *a: Any, **k: Any) -> None:
        self._log("info", msg, *a)

    def warning(self, msg: Any, *a: Any, **k: Any) -> None:
        self._log("warning", msg, *a)

    def error(self, msg: Any, *a: Any, **k: Any) -> None:
        self._log("error", msg, *a)

    def critical(self, msg: Any, *a: Any, **k: Any) -> None:
        self._log("critical", msg, *a)

    def getChild(self, name: str) -> "CapLogger":
        return self


def run_op(state: dict[str, Any], cfgname: str, op: dict[str, Any]) -> dict[str, Any]:
    """Run one operation of the real tool on the token state; returns everything observed."""
    import kskm.keymaster.keygen as KG
    import kskm.tools.keymaster as KM
    from kskm.misc import hsm as H

    world = mk_world(state)
    cfg = config(cfgname, state, op)
    before = store_j(world)
    logger = CapLogger()
    prompts: list[str] = []

    def fake_input(prompt: str = "") -> str:
        prompts.append(prompt)
        return op.get("answer", "")

    orig_input, orig_sleep = builtins.input, KG.time.sleep
    builtins.input = fake_input
    KG.time.sleep = lambda s: None  # type: ignore[assignment]
    try:
        with world.installed(), C.Oracles() as orc:

            def go() -> Any:
                p11 = H.init_pkcs11_modules(cfg, rw_session=True)
                if op["op"] == "keygen":
                    alg = op.get("alg", 8)
                    args = Namespace(key_alg=C.ALG_NAME[alg], key_size=op.get("size", 2048), key_label=op["label"], key_crv=None)
                    return KM.keygen(args, cfg, p11, logger)
                if op["op"] == "keydel":
                    return KM.keydel(Namespace(key_label=op["label"], force=op["force"]), cfg, p11, logger)
                return KM.inventory(Namespace(dns=op["dns"]), cfg, p11, logger)

            impl = lib.run_impl(go, lambda x: x)
            orcs = orc.take()
    finally:
        builtins.input, KG.time.sleep = orig_input, orig_sleep  # type: ignore[assignment]
    after_state = state_of(world, state["name"])
    line: dict[str, Any] = {"hsm": C.hsm_j(cfg), "rwSession": True, "log": C.canon_log(world.log), "store": before, "hashes": orcs["hashes"]}
    if op["op"] == "keygen":
        line.update(op="km_keygen", config=km_cfg_j(cfg), algorithm=op.get("alg", 8), keySize=op.get("size", 2048), label=op["label"])
    elif op["op"] == "keydel":
        line.update(op="km_keydel", label=op["label"], force=op["force"], answer=op["answer"])
    else:
        line.update(op="km_inventory", config=km_cfg_j(cfg), dns=op["dns"])
    return {"impl": impl, "after": after_state, "after_store": store_j(world), "messages": logger.records, "prompts": prompts, "log": C.canon_log(world.log), "line": line, "cfg": cfg}


# --------------------------------------------------------------------------------------
# the property oracle
# --------------------------------------------------------------------------------------


def is_key_obj(t: tuple[Any, ...]) -> bool:
    return t[3] in (CKO_PUBLIC, CKO_PRIVATE)


def parse_keygen_messages(msgs: list[tuple[str, str]]) -> dict[str, Any]:
    out: dict[str, Any] = {}
    for lvl, m in msgs:
        x = re.search(r"Generated key (\S+) has key tag (\d+) for algorithm=", m)
        if x:
            out["label"], out["tag"] = x.group(1), int(x.group(2))
        x = re.search(r"has key tag (\d+) with the REVOKE bit set", m)
        if x:
            out["revoked"] = int(x.group(1))
        if m.startswith("DNS records for generated key:\n"):
            out["dns"] = m[len("DNS records for generated key:\n") : -1]
            x = re.search(r"IN DS (\d+) (\d+) (\d+) ([0-9A-F]+)", m)
            if x:
                out["ds"] = (int(x.group(1)), int(x.group(2)), int(x.group(3)), x.group(4))
        if m.startswith("DS digest as PGP words:\n>> "):
            out["words"] = m[len("DS digest as PGP words:\n>> ") :]
    return out


def judge_keygen(state: dict[str, Any], op: dict[str, Any], run: dict[str, Any], res: Result, ctx: dict[str, Any]) -> str | None:
    """Returns the violation key, or None."""
    before, after = table(state), table(run["after"])
    usable_before = table(state, usable_only=True)
    label = op["label"]
    ok = run["impl"] == {"ok": True}
    holders = [t for t in usable_before if t[4] == label and is_key_obj(t)]
    if any(t[4] == label and not is_key_obj(t) for t in usable_before) and not holders:
        res.bump("boundary:keygen-label-held-by-non-key-object")
    if holders:
        if ok or before != after:
            key = "keygen-private-only" if all(t[3] == CKO_PRIVATE for t in holders) else "keygen-existing-label"
            res.violation(WHAT_KEYGEN, ctx, key=key, holders=holders, impl=run["impl"], added=[t for t in after if t not in before])
            return key
        return None
    if op.get("alg", 8) != 8 or op.get("size", 2048) is None:
        if ok or before != after:
            res.violation(WHAT_KEYGEN_PAIR, ctx, key="keygen-unsupported-request", impl=run["impl"])
            return "keygen-unsupported-request"
        return None
    added = [t for t in after if t not in before]
    removed = [t for t in before if t not in after]
    if not ok:
        if added:
            res.bump("boundary:failed-keygen-leaves-new-pair")
            # the pair exists on the token, so the generation itself succeeded: the only documented reason for the run to
            # fail now is a collision of one of the key's two TRUE tags with a configured KSK's tag
            pubs = [t for t in added if t[3] == CKO_PUBLIC and t[7] == CKK_RSA]
            if len(added) == 2 and len(pubs) == 1:
                tk0 = key_of(json.loads(pubs[0][6]))
                a257, a385, _ds = rfc_tags(tk0, 8)
                conf = [k.key_tag for k in run["cfg"].ksk_keys.values() if k.key_tag is not None]
                if a257 not in conf and a385 not in conf:
                    res.violation(WHAT_KEYGEN_REPORT, ctx, key=f"keygen-fails-without-collision:{run['impl'].get('error')}", tags=[a257, a385], configured=conf, impl=run["impl"], last_messages=[m[:160] for _l, m in run["messages"]][-2:])
                    return "keygen-fails-without-collision"
        if removed:
            res.violation(WHAT_KEYGEN_PAIR, ctx, key="keygen-removed", removed=removed)
            return "keygen-removed"
        return None
    tk = None
    good = len(added) == 2 and not removed and {t[3] for t in added} == {CKO_PUBLIC, CKO_PRIVATE} and all(t[4] == label and t[7] == CKK_RSA for t in added) and added[0][6] == added[1][6]
    if good:
        tk = key_of(json.loads(added[0][6]))
        good = tk.kind == "rsa" and tk.e == 65537 and tk.n.bit_length() == op.get("size", 2048) and added[0][:2] == added[1][:2]
    if not good or tk is None:
        res.violation(WHAT_KEYGEN_PAIR, ctx, key="keygen-pair", added=added, removed=removed)
        return "keygen-pair"
    t257, t385, ds = rfc_tags(tk, 8)
    rep = parse_keygen_messages(run["messages"])
    if rep.get("tag") != t257 or rep.get("revoked") != t385 or rep.get("ds") != (t257, 8, 2, ds) or rep.get("label") != label:
        res.violation(WHAT_KEYGEN_REPORT, ctx, key="keygen-report", reported=rep, want={"tag": t257, "revoked": t385, "ds": ds})
        return "keygen-report"
    configured = [k.key_tag for k in run["cfg"].ksk_keys.values() if k.key_tag is not None]
    if t257 in configured or t385 in configured:
        res.violation(WHAT_KEYGEN_REPORT, ctx, key="keygen-collision-missed", tags=[t257, t385], configured=configured)
        return "keygen-collision-missed"
    return None


def judge_keydel(state: dict[str, Any], op: dict[str, Any], run: dict[str, Any], res: Result, ctx: dict[str, Any]) -> str | None:
    before, after = table(state), table(run["after"])
    label = op["label"]
    confirmed = op["force"] or op["answer"] == "Yes"
    if op["answer"] in ("Yes\n", "\nYes") and not op["force"]:
        # input() cannot return a newline; the code strips newlines before comparing.  Whether such an answer confirms
        # is not judged; what a deletion may remove is.
        res.bump("boundary:answer-with-newline")
        confirmed = True
    added = [t for t in after if t not in before]
    removed = [t for t in before if t not in after]
    if not confirmed:
        if before != after:
            res.violation(WHAT_DELETE, ctx, key="delete-unconfirmed", removed=removed, added=added)
            return "delete-unconfirmed"
        if not op["force"] and any(t[4] == label and t[3] == CKO_PUBLIC for t in table(state, usable_only=True)) and len(run["prompts"]) != 1:
            res.bump("note:no-prompt")
        return None
    foreign = [t for t in removed if not (t[4] == label and is_key_obj(t))]
    if added or foreign:
        res.violation(WHAT_DELETE, ctx, key="delete-wrong-session", removed=removed, foreign=foreign, added=added, impl=run["impl"])
        return "delete-wrong-session"
    usable = table(state, usable_only=True)
    pubs = [t for t in usable if t[4] == label and t[3] == CKO_PUBLIC]
    privs = [t for t in usable if t[4] == label and t[3] == CKO_PRIVATE]
    if len(pubs) == 1:
        # the label names one public object (and at most one private object): a confirmed deletion removes it (them)
        named = pubs + (privs if len(privs) == 1 else [])
        left = [t for t in after if t in named]
        if left:
            key = "delete-wrong-session" if any(t[:2] != first_session(state) for t in named) else "delete-pair-left"
            res.violation(WHAT_DELETE, ctx, key=key, left=left, impl=run["impl"])
            return key
    return None


def first_session(state: dict[str, Any]) -> tuple[str, int]:
    m = state["mods"][0]
    return (m["path"], min(s["id"] for s in m["slots"] if s["login_ok"]))


def parse_inventory(text: str) -> list[dict[str, Any]]:
    """[{hsm, slot, pairs: [(label, id, info)], left: {CLASS: [(label, id)]}}] from the logged text."""
    out: list[dict[str, Any]] = []
    cur: dict[str, Any] | None = None
    hsm = None
    section = None
    lines = text.split("\n")
    i = 0
    while i < len(lines):
        ln = lines[i]
        i += 1
        if ln.startswith("HSM ") and ln.endswith(":"):
            hsm = ln[4:-1]
            cur = None
        elif re.fullmatch(r"  Slot \d+:", ln):
            cur = {"hsm": hsm, "slot": int(ln[7:-1]), "pairs": [], "left": {}}
            out.append(cur)
            section = None
        elif ln == "    Signing key pairs:":
            section = "pairs"
        elif re.fullmatch(r"    [A-Z]+ keys:", ln):
            section = ln.strip()[:-6]
            assert cur is not None
            cur["left"].setdefault(section, [])
        elif section == "pairs" and ln.startswith("      ") and not ln.startswith("       ") and " -- " in ln:
            label, info = ln[6:].split(" -- ", 1)
            nxt = lines[i] if i < len(lines) else ""
            kid = ""
            m = re.fullmatch(r" {17}(id=0x([0-9a-f]+) )?", nxt)
            if m:
                kid = m.group(2) or ""
                i += 1
            assert cur is not None
            cur["pairs"].append((label.rstrip(" "), kid, info))
        elif section == "pairs" and ln.startswith(" " * 17):
            continue  # public key / DNS record detail
        elif section and section != "pairs" and ln.startswith("      "):
            m = re.fullmatch(r"      (\S+) *(id=0x([0-9a-f]+) )?", ln)
            assert cur is not None
            if m:
                cur["left"][section].append((m.group(1), m.group(3) or ""))
            else:
                cur["left"][section].append(("?" + ln, ""))
        elif ln == "Key inventory:" or ln == "":
            continue
        else:
            out.append({"unparsed": ln})
    return out


def judge_inventory(state: dict[str, Any], op: dict[str, Any], run: dict[str, Any], res: Result, ctx: dict[str, Any]) -> str | None:
    if table(state) != table(run["after"]):
        res.violation(WHAT_INVENTORY, ctx, key="inventory-changed-token")
        return "inventory-changed-token"
    if "ok" not in run["impl"]:
        # the emulated token is healthy and the configuration loaded: an inventory that ends in an exception lists nothing,
        # i.e. not "every object of every slot once"
        if ctx.get("config") == "A-ec-alg":
            # outside the property's quantifier (configurations vary in their key TAGS): a KSK entry claiming an ECDSA algorithm
            # for a label whose token key is RSA makes the inventory end in a ValidationError instead of a BAD KSK line
            res.bump("boundary:inventory-fails-on-algorithm-family-mismatch")
            return None
        res.violation(WHAT_INVENTORY, ctx, key=f"inventory-fails:{run['impl'].get('error')}", impl=run["impl"])
        return "inventory-fails"
    msgs = [m for lvl, m in run["messages"] if m.startswith("Key inventory:\n")]
    if len(msgs) != 1:
        res.violation(WHAT_INVENTORY, ctx, key="inventory-no-output", messages=run["messages"][:3])
        return "inventory-no-output"
    listed = parse_inventory(msgs[0][len("Key inventory:\n") :])
    if any("unparsed" in x for x in listed):
        res.violation(WHAT_INVENTORY, ctx, key="inventory-unparsed", listed=listed)
        return "inventory-unparsed"
    names = {m["path"]: f"hsm{i}" for i, m in enumerate(state["mods"])}
    cname = {CKO_PUBLIC: "PUBLIC", CKO_PRIVATE: "PRIVATE", CKO_SECRET: "SECRET"}
    got: dict[tuple[str, int], dict[str, Any]] = {(x["hsm"], x["slot"]): x for x in listed}
    if len(got) != len(listed):
        res.violation(WHAT_INVENTORY, ctx, key="inventory-slot-twice", listed=listed)
        return "inventory-slot-twice"
    cfg = run["cfg"]
    for m in state["mods"]:
        for s in m["slots"]:
            if not s["login_ok"]:
                continue
            objs = s["objects"]
            if any(o["cls"] not in cname for o in objs):
                res.bump("boundary:non-key-object-not-listed")
            distinct = []
            for o in objs:
                k = (o["cls"], o["label"], o["id"])
                if o["cls"] in cname and k not in distinct:
                    distinct.append(k)
            if len(distinct) != len([o for o in objs if o["cls"] in cname]):
                res.bump("boundary:duplicate-label+id-listed-once")
            pubs = {(lab, kid) for c, lab, kid in distinct if c == CKO_PUBLIC}
            privs = {(lab, kid) for c, lab, kid in distinct if c == CKO_PRIVATE}
            want_pairs = Counter(pubs & privs)
            want_left = {cname[c]: Counter((lab, kid) for c2, lab, kid in distinct if c2 == c and not (c in (CKO_PUBLIC, CKO_PRIVATE) and (lab, kid) in pubs & privs)) for c in cname}
            g = got.pop((names[m["path"]], s["id"]), {"pairs": [], "left": {}})
            got_pairs = Counter((lab, kid) for lab, kid, info in g["pairs"])
            got_left = {c: Counter(g["left"].get(c, [])) for c in cname.values()}
            if got_pairs != want_pairs or got_left != want_left:
                missing_pub = want_left["PUBLIC"] - got_left["PUBLIC"]
                only_that = got_pairs == want_pairs and got_left["PRIVATE"] == want_left["PRIVATE"] and got_left["SECRET"] == want_left["SECRET"] and not (got_left["PUBLIC"] - want_left["PUBLIC"])
                key = "inventory-unpaired-public" if (missing_pub and only_that) else "inventory-listing"
                res.violation(WHAT_INVENTORY, ctx, key=key, slot=[m["path"], s["id"]], listed=g, want={"pairs": sorted(want_pairs), "left": {c: sorted(v) for c, v in want_left.items()}})
                return key
            # verdict on configured KSKs, for pairs
            for lab, kid, info in g["pairs"]:
                entries = [k for k in cfg.ksk_keys.values() if k.label == lab]
                pub = next(o for o in objs if o["cls"] == CKO_PUBLIC and o["label"] == lab and o["id"] == kid)
                if not entries:
                    want = "notfound"
                else:
                    tk = key_of(pub["key"])
                    want = "good"
                    for k in entries:
                        if (tk.kind == "rsa") != (k.algorithm.value in (5, 8, 10)):
                            want = "skip"
                            break
                        t257, _, ds = rfc_tags(tk, k.algorithm.value)
                        if (k.key_tag is not None and k.key_tag != t257) or (k.ds_sha256 and k.ds_sha256.upper() != ds):
                            want = "bad"
                if want == "skip":
                    continue
                have = "bad" if info.startswith("BAD KSK") else "notfound" if info.startswith("Matching KSK not found") else "good" if info.startswith(f"KSK '{lab}/") else "?"
                if have != want:
                    res.violation(WHAT_BADKSK, ctx, key=f"inventory-ksk-{want}-shown-{have}", pair=[lab, kid], info=info)
                    return f"inventory-ksk-{want}-shown-{have}"
    if got:
        res.violation(WHAT_INVENTORY, ctx, key="inventory-extra-slot", extra=list(got))
        return "inventory-extra-slot"
    return None


def judge(state: dict[str, Any], op: dict[str, Any], run: dict[str, Any], res: Result, ctx: dict[str, Any]) -> str | None:
    if op["op"] == "keygen":
        return judge_keygen(state, op, run, res, ctx)
    if op["op"] == "keydel":
        return judge_keydel(state, op, run, res, ctx)
    return judge_inventory(state, op, run, res, ctx)


# --------------------------------------------------------------------------------------
# model comparison
# --------------------------------------------------------------------------------------


def compare_model(op: dict[str, Any], run: dict[str, Any], o: dict[str, Any], res: Result, ctx: dict[str, Any]) -> None:
    if "driver_error" in o:
        res.disagreement("driver error", ctx, run["impl"], o)
        return
    impl = run["impl"]
    what = op["op"]
    m = o["result"]
    # (1) log replay: result and complete operation sequence
    if lib.is_unsupported(m):
        # The model left the recorded run: the replaying oracle was asked something else than was recorded (it then
        # answers "other") or a hash was asked that the implementation never computed.  That IS a difference between
        # model and implementation (e.g. the unrepaired F9a code skips the private-class lookup), never "unsupported".
        d = C.first_log_difference(run["log"], o["log"])
        res.disagreement(f"{what}: model leaves the recorded run (replay / oracle miss)", ctx, impl, m, log_difference=d)
        return
    d = C.first_log_difference(run["log"], o["log"])
    m_ok = isinstance(m, dict) and "ok" in m
    if ("ok" in impl) != m_ok:
        res.disagreement(f"{what}: model result (log replay) != implementation", ctx, impl, m, log_difference=d)
        return
    if d is not None:
        res.disagreement(f"{what}: model issues different token operations", ctx, impl, m if not m_ok else "ok", log_difference=d)
        return
    if o.get("init") == "failed":
        return
    # (2) the same program on the object table
    sr = o["storeResult"]
    if lib.is_unsupported(sr):
        res.disagreement(f"{what}: store-backed run declines (oracle miss)", ctx, impl, sr)
        return
    s_ok = isinstance(sr, dict) and "ok" in sr
    if json.dumps(sr, sort_keys=True) != json.dumps(m, sort_keys=True) and not ("error" in sr and "error" in m):
        res.disagreement(f"{what}: store-backed run and log replay of the same program disagree", ctx, m, sr)
        return
    if ("ok" in impl) != s_ok:
        res.disagreement(f"{what}: model result (store-backed) != implementation", ctx, impl, sr)
        return
    if json.dumps(o["store"], sort_keys=True) != json.dumps(run["after_store"], sort_keys=True):
        res.disagreement(f"{what}: object table after the operation differs from the store semantics", ctx, run["after_store"], o["store"])
        return
    if not s_ok:
        return
    if what == "keygen":
        rep = parse_keygen_messages(run["messages"])
        mo = sr["ok"]
        got = {"label": rep.get("label"), "keyTag": rep.get("tag"), "revokedTag": rep.get("revoked"), "dns": rep.get("dns"), "words": rep.get("words")}
        want = {"label": mo["label"], "keyTag": mo["keyTag"], "revokedTag": mo["revokedTag"], "dns": "\n".join(mo["dnsLines"]), "words": " ".join(mo["words"])}
        if got != want:
            res.disagreement("keygen: report differs", ctx, got, want)
    elif what == "keydel":
        if impl["ok"] is not True or sr["ok"] is not True:
            res.disagreement("keydel: return value", ctx, impl, sr)
    else:
        msgs = [x for lvl, x in run["messages"] if x.startswith("Key inventory:\n")]
        text = msgs[0][len("Key inventory:\n") :] if msgs else None
        if text != "\n".join(sr["ok"]):
            res.disagreement("inventory: lines differ", ctx, text, "\n".join(sr["ok"]))


# --------------------------------------------------------------------------------------
# exploration
# --------------------------------------------------------------------------------------


def state_key(state: dict[str, Any]) -> str:
    return json.dumps({"mods": state["mods"], "pool": state["pool"]}, sort_keys=True)


def ops_for(tier: str) -> list[tuple[dict[str, Any], str, bool]]:
    """(operation, configuration, expand?)"""
    out: list[tuple[dict[str, Any], str, bool]] = []
    for op in EXPAND_OPS:
        out.append((op, "empty", True))
        if op["op"] == "keygen":
            out += [(op, c, False) for c in KEYGEN_CFGS[1:]]
    for op in EVAL_ONLY_OPS:
        if op["op"] == "inventory":
            out += [(op, c, False) for c in INVENTORY_CFGS]
        else:
            out.append((op, "empty", False))
    return out


def explore(lay: dict[str, Any], depth: int, tier: str, res: Result, pending: list[Any], seen_global: set[str], budget: list[int]) -> None:
    frontier: list[tuple[dict[str, Any], list[dict[str, Any]]]] = [(lay, [])]
    seen = {state_key(lay)}
    paths = 1
    for d in range(depth):
        nxt: list[tuple[dict[str, Any], list[dict[str, Any]]]] = []
        for state, hist in frontier:
            fresh = state_key(state) not in seen_global
            seen_global.add(state_key(state))
            for op, cfgname, expand in ops_for(tier):
                if not expand and not fresh:
                    continue  # an identical token state was already examined from another layout
                if not expand and budget[0] <= 0:
                    continue
                budget[0] -= 1
                ctx = {"layout": lay["name"], "initial": {"mods": lay["mods"], "pool": lay["pool"], "name": lay["name"]}, "history": hist, "op": op, "config": cfgname}
                run = run_op(state, cfgname, op)
                res.count({"s": state_key(state), "op": op, "cfg": cfgname})
                res.bump("op:" + op["op"])
                res.bump("outcome:" + op["op"] + ":" + ("ok" if "ok" in run["impl"] else "error:" + str(run["impl"].get("error"))))
                res.bump(f"depth:{d}")
                vkey = judge(state, op, run, res, ctx)
                pending.append((op, run, ctx, vkey))
                if len(res.samples) < 3 and op["op"] == "inventory" and op["dns"] is False and cfgname == "A-good" and "ok" in run["impl"] and len(table(state)) >= 3:
                    res.sample({"layout": lay["name"], "history": hist, "op": op, "config": cfgname, "messages": [m for l, m in run["messages"]][-1:]})
                if expand and d + 1 < depth:
                    k = state_key(run["after"])
                    if k not in seen:
                        seen.add(k)
                        nxt.append((run["after"], hist + [op]))
        frontier = nxt
        paths += len(nxt)
    res.bump("distinct_states", len(seen))


CORPUS = lib.VERIF / "corpus" / "C19_findings.json"


def corpus_first(res: Result, pending: list[Any]) -> None:
    """The recorded failing histories (F9a, F9b, F14: repaired in /repo) run first on every invocation: initial layout,
    history, failing operation.  A returning defect is a VIOLATION with that history as replay."""
    if not CORPUS.exists():
        return
    for entry in json.loads(CORPUS.read_text()):
        ctx = dict(entry["case"])
        ctx["corpus"] = entry["id"]
        state = dict(ctx["initial"])
        for op in ctx["history"]:
            state = run_op(state, "empty", op)["after"]
        run_ = run_op(state, ctx["config"], ctx["op"])
        res.count({"corpus": entry["id"]})
        res.bump("corpus:entries")
        vkey = judge(state, ctx["op"], run_, res, ctx)
        if vkey is not None:
            res.bump("corpus:reproduced")
            res.notes.append(f"corpus entry {entry['id']} reproduces: {vkey}")
        pending.append((ctx["op"], run_, ctx, vkey))


def run(tier: str, driver_ok: bool) -> Result:
    res = Result("C19")
    depth = 4 if tier == "quick" else 5
    res.rule = (
        f"every operation of {{keygen A|B, keydelete A|B x 11 answers/force, inventory +-dns, ECDSA / size-less keygen}} in every distinct token state reachable by <= {depth - 1} "
        f"state-changing operations from 24 (quick) / 54 (thorough) initial layouts (two of them with key-tag boundary keys first in the generateKeyPair pool), i.e. all sequences of <= {depth} operations; "
        f"keygen x {len(KEYGEN_CFGS)} configurations (no KSK, fixed collisions, and next:* = a KSK whose tag is plain / revoked / revoked+-1 / plain+128 / plain+129 / plain+-1 of the TRUE tags of the key about to be generated) and inventory x 10 configurations; "
        "KEY-TAG LATTICE in every run: keygen of crafted 2048/3072/4096-bit public-only keys (accumulator low word 0xFF7E..0xFF81/0xFFFE/0xFFFF/0/1, fold sum 0x10000-2..+2 plain and revoked, tags 65407/65408/65535) "
        "and of the real 1024-bit fixtures/special.json revcarry/carry/twins keys, each under every next:* configuration on two token layouts (counters lattice:*); "
        "non-trivial = distinct (token state, operation, configuration)"
    )
    r = lib.rng("C19")
    pending: list[Any] = []
    corpus_first(res, pending)
    lattice(res, pending)
    seen_global: set[str] = set()
    budget = [60000 if tier == "quick" else 10**9]
    for lay in layouts(tier, r):
        explore(lay, depth, tier, res, pending, seen_global, budget)
    res.bump("states_examined", len(seen_global))
    if driver_ok:
        outs = lib.run_driver([p[1]["line"] for p in pending], exe=DRIVER)
        for (op, run_, ctx, vkey), o in zip(pending, outs):
            if vkey is not None:
                continue  # the implementation violates the property here; the (repaired) model is not expected to follow it
            compare_model(op, run_, o, res, ctx)
    # one replay file per distinct defect (check itself writes the first only)
    firsts: dict[str, Any] = {}
    for v in res.violations:
        firsts.setdefault(str(v.get("key")), v)
    rep = lib.VERIF / "replays"
    rep.mkdir(exist_ok=True)
    for key, v in firsts.items():
        (rep / f"C19_violation_{re.sub(r'[^A-Za-z0-9_-]', '_', key)}.json").write_text(json.dumps({"property": "C19", "failing_input": True, "seed": lib.seed(), "tier": tier, "violation": v, "how_to_replay": "./check C19 --replay <this file>"}, indent=1, default=str))
        res.notes.append(f"violation key={key}: {sum(1 for x in res.violations if str(x.get('key')) == key)} failing (state, operation) pairs; first replay in replays/C19_violation_{key}.json")
    return res


def replay(obj: dict[str, Any]) -> Any:
    v = obj.get("violation") or obj.get("disagreement") or obj
    ctx = v.get("case", v)
    state = dict(ctx["initial"])
    trace = []
    for op in ctx["history"]:
        run_ = run_op(state, "empty", op)
        trace.append({"op": op, "impl": run_["impl"], "objects_after": table(run_["after"])})
        state = run_["after"]
    r = Result("C19")
    run_ = run_op(state, ctx["config"], ctx["op"])
    vkey = judge(state, ctx["op"], run_, r, ctx)
    out: dict[str, Any] = {
        "layout": ctx["layout"],
        "history": trace,
        "objects_before": table(state),
        "op": ctx["op"],
        "config": ctx["config"],
        "observed": {"impl": run_["impl"], "objects_after": table(run_["after"]), "messages": [m for l, m in run_["messages"]][-3:], "token_ops": [x for x in run_["log"] if x["op"] in ("generateKeyPair", "destroyObject")]},
        "expected": "see 'violations' (the property oracle's verdict on the observed tables)",
        "violations": [{"what": x["what"], "key": x.get("key"), **{k: x[k] for k in x if k not in ("what", "key", "case")}} for x in r.violations],
    }
    try:
        o = lib.run_driver([run_["line"]], exe=DRIVER)[0]
        out["model"] = {"result": o.get("result"), "storeResult": o.get("storeResult"), "store_after": o.get("store")}
        if vkey is None:
            compare_model(ctx["op"], run_, o, r, ctx)
            out["disagreements"] = [x["what"] for x in r.disagreements]
    except Exception as exc:  # noqa: BLE001
        out["model"] = f"driver failed: {exc}"
    return out
