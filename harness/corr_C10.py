"""C10 correspondence: over successive ceremonies accepted SKRs form one unbroken, authentic timeline.

Histories are trees of ceremonies over the seven example schemas of /repo/config/ksrsigner.yaml x KSR variants
(honest successor, replayed request, gapped, re-keyed, wrong first keys, late, …), every transition executed on the real
`ksrsigner()` entry point with the REAL previous output file as input (nine bundles, two 2048-bit KSKs on the
emulated token, ZSK roll per quarter as the reference client does).  Per step:
  * outcome, token operations and written SKR must equal the model's (`ksrsigner` op, previous SKR parsed from the
    actual previous file) — "the outcome equals that of the documented rules applied to the actual previous output";
  * every emitted SKR must load and validate (`load_skr`) as the previous SKR of the next ceremony, and the WHOLE file at
    the output path must be exactly one SKR document: read with ElementTree (a strict parser: nothing may follow `</KSR>`)
    it must equal the SKR the model writes, pass the independent judge `ceremony_run.skr_problems` (dnspython over
    exactly the published keys of each bundle, schema roles by slot NUMBER, request and ZSK policy echoed), and —
    depth-1 honest transitions — be byte-identical to what the same ceremony writes to a fresh path;
  * the neighbour relation of the property is evaluated independently on every accepted pair.
Around every transition three things rotate that must not matter:
  * what lies at the output path before the run: nothing, a short file, a 300 kB file, the previous quarter's SKR (one
    path re-used quarter after quarter: sometimes longer, sometimes shorter than the new SKR), the previous SKR made longer;
    a refused ceremony must leave exactly those bytes;
  * where the previous SKR's name comes from: `filenames.previous_skr`, `--previous_skr`, or both (the configuration then
    names the stale SKR before the previous one; the command line wins);
  * the order in which the schema's slots are LISTED in the configuration (every other transition lists them shuffled).
POLICY-CHANGE histories (`policy_change_stream`): the ZSK operator's declared Min/MaxValidityOverlap CHANGES between
consecutive KSRs (both relaxed, both tightened, only the maximum, only the minimum, each way), the previous SKR therefore
echoes OTHER bounds than the new KSR declares, and the chain overlap sits on the lattice {-1 s, 0, +1 s} around every old
and new bound that changed plus the midpoints between old and new; publish safety is PT0S there so that the later
publish-safety check cannot mask the verdict.  Expected verdict = the documented rule: the overlap lies within the bounds
declared IN THE NEW KSR (must-refuse cases signed and must-accept cases refused are both failing inputs).
HEADER VARIATIONS (`HEADER_VARIANTS`): every KSR variant that re-uses something of the previous ceremony — the request id
ALONE (fresh bundle ids, honest keys, timeline continued), one bundle id alone (first bundle = the previous last id, last
bundle = the previous first id), the request id with its bundle ids (replayed), the chained identifiers with new key
material, a first bundle with unchained keys — is run with every OTHER header field changed, one at a time: the serial
(previous + 1, 0, 2^31), the domain (another one the operator accepts), the timeline (a day late, still inside the
declared window).  None of that may turn a refusal into an acceptance: "no reused request or bundle id between
neighbours" speaks of the id, not of (id, serial) or (id, domain).  The honest successor with another serial (higher,
0, 2^31) must be accepted and is a state of the tree like any other (its successors meet a previous SKR whose serial is
not 1).  Complete at depth 1, sampled below.
TEXT HISTORIES (`ceremony_run.TEXT_PROFILES`): the same tree, smaller, spelled with non-ASCII but legal text in
everything that is copied into an SKR: KSK labels in the configuration and on the token (CKA_LABEL), ZSK key identifiers,
request ids and bundle ids (Latin-1 letters; other scripts of the basic plane; characters beyond the basic plane;
characters a normalising layer would change).  Every emitted SKR must be read by the repository's loader as the very
document a standard XML parser reads (`ceremony_run.reader_mismatch`), its bytes must be exactly the UTF-8 text the model's
writer (C11's `skrToXml`, driver kskm_driver_pkge) gives for the SKR the ceremony model writes, and the honest successor
of an emitted SKR in the 'normal' schema must be accepted (all three also in the ASCII tree).
XML-SPECIAL TEXT (`ceremony_run.XML_TEXT_PROFILES`): the same tree spelled with ZSK identifiers, request ids and bundle ids that
hold entity / character references (`&amp;`, the doubly escaped `&amp;amp;`, `&lt;`, `&gt;`, `&quot;`, `&apos;`, `&#252;`,
`&#x2d;`, an astral `&#x1F511;`), an apostrophe and a TAB, and ampersands that are no reference (`AT&T`, `&amp` without its
semicolon, `&;` — such a KSR is not well-formed XML, the repository's reader accepts it all the same).  The repository's
reader resolves no references and hands attribute text over VERBATIM; the next ceremony compares a new KSR's ids with what
the previous SKR shows, both read that way.  Oracles: the emitted SKR ECHOES the KSR it answers — id, serial, domain, bundle
ids, ZSK identifiers and keys — as the repository's own reader reads both (`ceremony_run.echo_mismatch`; every history, the
ASCII tree included); its bytes are the model writer's text; the repository's reading equals the standard parser's once this
harness's own transcription of XML 1.0 has resolved the references (`resolve_references`); a KSR re-using the previous
REQUEST's id or one of its bundle ids — the RAW text that stood in the previous KSR (`Quarter.req_id / bundle_ids`) — is
refused (`request-id-alone`, `bundle-id-alone-first/last`, `replayed` at every state); histories that are not well-formed XML
are judged by reload / echo / bytes / the repository reader's neighbour relation (counted).
IDENTIFIER RELATIONS (`ceremony_run.RELATED_TEXT_PROFILES`): KSK labels one a proper prefix of the other / differing only in
case, ZSK identifiers that continue a KSK label, request ids each a proper prefix of the next (previous) quarter's.
CONFIGURATION SECTIONS (`sections_stream`): the options named in two sections of the configuration (read off the pydantic
models: num_bundles, validate_signatures in request_policy / response_policy) set to DIFFERENT values, with an honest
previous SKR, previous SKRs whose first- / last-bundle signature does not verify, and a KSR whose proof of possession does
not verify: the previous SKR is judged under response_policy, the KSR under request_policy.
States are memoised: a refused ceremony leaves the state unchanged, so its subtree is its parent's.
"""

from __future__ import annotations

import os
import copy
from datetime import datetime, timedelta, timezone
from pathlib import Path
from typing import Any

import yaml

import ceremony as C
import ceremony_run as R
import keys as K
import lib
import signer_scenarios as S
from lib import Result

DRIVER = C.DRIVER
ASSUMPTIONS = [
    "the token emulator stands in for a PKCS#11 device",
    "histories are explored to depth 3 (quick: sampled at depth 3; thorough: depth 4 sampled) — the unbounded statement is the Lean theorem C10_timeline",
    "the byte-for-byte comparison of a re-used output path with a fresh one relies on RSA PKCS#1 v1.5 signatures being deterministic and on set iteration order being stable within one process",
    "the byte-for-byte comparison with the model writer's text lists the members of sets (signatures of a bundle, keys of equal tag, algorithms of a policy) in the order the written file shows: the iteration order of a Python set is not part of the property",
    "'the honest successor must be accepted' is demanded only in the quarterly routine (schema 'normal' after nothing but 'normal'); elsewhere the expected verdict is the model's",
    "header variation 'other-domain' widens request_policy.acceptable_domains for that one ceremony; an SKR accepted under it is judged but not used as a state of the tree",
    "XML-special spellings: KSK labels and the domain stay plain (the configuration confines them to \\w / [\\w.]); 're-using an id' means sending the RAW attribute text of the previous KSR again; "
    "a KSR with an ampersand that is no reference is not well-formed XML — the repository's reader accepts it verbatim, the SKR answering it is not well-formed either, and the ElementTree judges are replaced by the repository reader's own reading there",
    "sections stream: with response_policy.validate_signatures false the operator has switched the previous SKR's signature check off (only its bundle count is demanded), likewise request_policy.validate_signatures for the KSR's proof of possession",
]
TRUSTED = ["harness/p11emu.py token emulator (CKA_LABEL as a Python str, as PyKCS11 hands it over: UTF-8 on the wire)", "harness/ceremony_run.py entry-point driver and independent SKR judge (ElementTree, dnspython)", "lean/Kskm/SkrXml.lean (C11's writer model, driver kskm_driver_pkge) for the byte-for-byte comparison of written files"]

VARIANTS = ["honest", "replayed", "gapped", "re-keyed", "wrong-first-keys", "late", "gap-declared-negative-min", "re-keyed-same-ids", "honest-stale-config-prev", "replayed-stale-config-prev"]
T0 = datetime(2024, 1, 1, tzinfo=timezone.utc)
# what a KSR may re-use of the previous ceremony (each must be refused on its own) …
REUSE_ALONE = ["request-id-alone", "bundle-id-alone-first", "bundle-id-alone-last"]
REUSE = REUSE_ALONE + ["replayed", "re-keyed-same-ids", "wrong-first-keys"]
# … and the other header fields, changed one at a time
HEADERS = ["other-serial", "serial-0", "serial-2^31", "other-domain", "late"]
HEADER_VARIANTS = REUSE_ALONE + [f"{u}/{h}" for u in REUSE for h in HEADERS] + [f"honest/{h}" for h in HEADERS[:3]]
# variants that the documented rules refuse whatever the schema, and those they accept in the quarterly routine ('normal' after 'normal')
REFUSED = {"replayed", "gapped", "re-keyed", "wrong-first-keys", "gap-declared-negative-min", "re-keyed-same-ids", "replayed-stale-config-prev", *REUSE_ALONE}
ROUTINE = {"honest", "honest-stale-config-prev"}
OTHER_DOMAIN = "example."


def example_schemas() -> dict[str, dict[int, dict[str, list[str]]]]:
    cfg = yaml.safe_load((lib.REPO / "config" / "ksrsigner.yaml").read_text())
    out = {}
    for name, slots in cfg["schemas"].items():
        s = {}
        for n, a in slots.items():
            s[int(n)] = {k: ([v] if isinstance(v, str) else list(v)) for k, v in a.items()}
            s[int(n)].setdefault("revoke", [])
        out[name] = s
    return out


class Quarter:
    """The state after an accepted ceremony: its SKR file, its quarter number, the ZSK generation."""

    def __init__(self, skr_xml: bytes | None, q: int, path: tuple[str, ...], last_exp: datetime, req_id: str = "req-q0", parent_xml: bytes | None = None, ksr_xml: str | None = None) -> None:
        self.skr_xml = skr_xml
        self.q = q
        self.path = path
        self.last_exp = last_exp  # expiration of the last bundle of this SKR
        self.req_id = req_id  # the request id this SKR answers (and echoes)
        self.parent_xml = parent_xml  # the SKR before this one (a stale file a configuration may still name)
        # serial and bundle ids as the file itself shows them (ElementTree)
        self.serial = 1
        self.bundle_ids: list[str] = []
        if skr_xml is not None:
            import re
            import xml.etree.ElementTree as ET

            try:
                root = ET.fromstring(skr_xml)
                self.serial = int(root.get("serial"))
                self.bundle_ids = [b.get("id") for b in root.find("Response").findall("ResponseBundle")]
            except Exception:  # noqa: BLE001  (an unreadable SKR is reported by judge_written; a KSR that is not well-formed XML is answered by an SKR that is not)
                m = re.search(rb'<KSR [^>]*serial="(\d+)"', skr_xml)
                if m:
                    self.serial = int(m.group(1))
        if ksr_xml is not None:
            # "re-using the request id / a bundle id of the previous ceremony" means the text the previous KSR carried, exactly as it
            # stood in that file (what an operator's client would send again): the RAW attribute text of the KSR that was answered.
            # That the SKR shows the same ids — as the tools read both — is judge_written's echo oracle.
            rid, bids = R.raw_ids(ksr_xml)
            if rid is not None:
                self.req_id = rid
            if bids:
                self.bundle_ids = bids

    def routine(self) -> bool:
        """Every ceremony on the way here followed the 'normal' schema."""
        return all(p.split("/")[0] == "normal" for p in self.path)


def scenario_for(q: int, schema: dict[int, dict[str, list[str]]], variant: str, prev_q: int, prev_last_exp: datetime | None = None, prev_req_id: str | None = None, text: R.Text | None = None) -> S.Scenario:
    """text: how the history spells KSK labels, ZSK identifiers and request ids (None = ASCII); `prev_req_id` is the id as the
    previous SKR shows it (already spelled)."""
    sc = S.Scenario()
    sc.modules = [{"path": "emu0", "pin": "1234", "slots": [{"id": 0}]}]
    ksk = K.rsa_keys(2048, 65537)
    for name, tk, label in (("ksk_current", ksk[0], "Kcurrent"), ("ksk_next", ksk[1], "Knext")):
        k = {"label": label, "tk": tk, "alg": 8, "module": "emu0", "slot": 0, "priv_has_pub_attrs": True}
        k["entry"] = C.ksk_config_entry(label, tk, 8, with_tag=True, with_ds=True)
        sc.ksks[name] = k
    sc.schema = copy.deepcopy(schema)
    z = K.rsa_keys(1024, 65537)
    gen = q
    if variant == "re-keyed":
        zs = [z[(gen + 3) % 8], z[(gen + 4) % 8], z[(gen + 5) % 8]]
    else:
        zs = [z[gen % 8], z[(gen + 1) % 8], z[(gen + 2) % 8]]
    sc.zsks = [(f"Z{(gen + i)}", zs[i], 8) for i in range(3)]
    if variant == "re-keyed":
        sc.zsks = [(f"R{(gen + i)}", zs[i], 8) for i in range(3)]
    if variant == "re-keyed-same-ids":  # new key material under the identifiers the previous SKR chained
        zz = [z[(gen + 3) % 8], z[(gen + 4) % 8], z[(gen + 5) % 8]]
        sc.zsks = [(f"Z{(gen + i)}", zz[i], 8) for i in range(3)]
    sc.layout = [[0, 1]] + [[1]] * 7 + [[1, 2]]
    if variant == "wrong-first-keys":
        sc.layout = [[1, 2]] + [[1]] * 7 + [[1, 2]]  # first bundle carries a key the previous last bundle did not
    sc.zsk_ttl = sc.ksk_ttl = 172800
    # starts are relative to the ACTUAL previous last expiration: an honest successor overlaps it by 11 days
    base = (prev_last_exp - timedelta(days=11)) if prev_last_exp is not None else T0 + timedelta(days=90 * q)
    start = base
    if variant == "gapped":
        start = base + timedelta(days=12)  # one day after the previous last expiration
    if variant == "gap-declared-negative-min":
        start = base + timedelta(days=11, hours=12)  # 12 h after the previous last expiration
    if variant == "late":
        start = base + timedelta(days=1)  # overlap 10 d: still inside the declared window
    sc.start = start
    sc.req_id = f"req-q{q}" + ("" if variant.startswith("honest") else f"-{variant}")
    R.apply_text(sc, text)
    if variant.startswith("replayed") and prev_req_id is not None:
        sc.req_id = prev_req_id  # the id the previous SKR echoes
    sc.meta = dict(sc.meta, q=q, variant=variant)
    return sc


def neighbour_broken(prev_xml: bytes, ksr_req: Any, new_xml: bytes) -> list[str]:
    """The property's neighbour relation, evaluated independently on the two files with ElementTree."""
    import xml.etree.ElementTree as ET

    a = ET.fromstring(prev_xml)
    b = ET.fromstring(new_xml)
    bad = []
    ab = a.find("Response").findall("ResponseBundle")
    bb = b.find("Response").findall("ResponseBundle")

    def ts(e: Any, tag: str) -> datetime:
        return datetime.fromisoformat(e.find(tag).text)

    if ts(bb[0], "Inception") > ts(ab[-1], "Expiration"):
        bad.append("coverage gap")
    if a.get("id") == b.get("id"):
        bad.append("request id reused")
    if {x.get("id") for x in ab} & {x.get("id") for x in bb}:
        bad.append("bundle id reused")
    last_pks = {k.find("PublicKey").text for k in ab[-1].findall("Key")}
    last_ids = {k.get("keyIdentifier") for k in ab[-1].findall("Key")}
    for k in bb[0].findall("Key"):
        if int(k.find("Flags").text) & 1 == 0 and k.find("PublicKey").text not in last_pks:
            bad.append(f"first-bundle ZSK {k.get('keyIdentifier')} was not in the preceding bundle")
    for s in bb[0].findall("Signature"):
        if s.get("keyIdentifier") not in last_ids:
            bad.append(f"first-bundle signer {s.get('keyIdentifier')} was not published in the preceding bundle")
    return bad


def neighbour_broken_readings(a: Any, b: Any) -> list[str]:
    """The same relation on two readings in the JSON shape of lib.response_j (bundles in timeline order) — used with the
    repository's own reader where no standard parser can read the files (histories whose KSRs are not well-formed XML)."""
    bad = []
    if not a["bundles"] or not b["bundles"]:
        return ["no bundles"]
    last, first = a["bundles"][-1], b["bundles"][0]
    if first["inception"] > last["expiration"]:
        bad.append("coverage gap")
    if a["id"] == b["id"]:
        bad.append("request id reused")
    if {x["id"] for x in a["bundles"]} & {x["id"] for x in b["bundles"]}:
        bad.append("bundle id reused")
    last_pks = {k["publicKey"] for k in last["keys"]}
    last_ids = {k["keyIdentifier"] for k in last["keys"]}
    for k in first["keys"]:
        if k["flags"] & 1 == 0 and k["publicKey"] not in last_pks:
            bad.append(f"first-bundle ZSK {k['keyIdentifier']} was not in the preceding bundle")
    for x in first["signatures"]:
        if x["keyIdentifier"] not in last_ids:
            bad.append(f"first-bundle signer {x['keyIdentifier']} was not published in the preceding bundle")
    return bad


def judge_written(res: Result, work: Path, o: dict[str, Any], case: dict[str, Any], sc: S.Scenario, ksr_xml: str | None, prev_skr: bytes | None, variant: str, text: R.Text | None = None) -> None:
    """Every emitted SKR: loadable as the next previous SKR, an exact echo of the KSR it answers (as the tools' own reader reads
    both), exactly one SKR document acceptable to an independent validator, and a neighbour of the SKR before it.
    text: how the history is spelled.  Texts with references (R.XML_TEXT_PROFILES) are shown differently by a standard parser
    than by the repository's reader (which hands them over verbatim): the two readings are then compared after this harness's
    own resolution of references; a history whose KSRs are not well-formed XML (a bare `&`, accepted verbatim by the reader) is
    answered by SKRs that are not either: the ElementTree judges cannot read those files, the echo / reload / byte-for-byte
    oracles alone decide (counted)."""
    from kskm.common.config_misc import ResponsePolicy
    from kskm.ksr.load import request_from_xml
    from kskm.skr.load import load_skr

    new_xml = o["file_after"]
    p = work / "reload.xml"
    p.write_bytes(new_xml)
    rl = lib.run_impl(lambda: load_skr(p, ResponsePolicy(num_bundles=9)))
    if "ok" not in rl:
        res.violation("an emitted SKR is not loadable as a previous SKR", case, key="reload", outcome=rl, bytes_at_output_path=len(new_xml), bytes_there_before=None if o.get("preexisting") is None else len(o["preexisting"]))
    request_text = ksr_xml if ksr_xml is not None else C.request_to_xml(sc.request())
    try:
        repo_reading = R.canon_written(new_xml)
    except Exception:  # noqa: BLE001
        repo_reading = None
    # the echo, as the tools' own reader reads request and response (ids, serial, domain, bundle ids, ZSK identifiers and keys)
    asked = lib.run_impl(lambda: request_from_xml(request_text), lib.request_j)
    if "ok" in asked and not case.get("variant", "").endswith("other-domain"):
        d = R.echo_mismatch(asked["ok"], repo_reading)
        res.bump("emitted SKR: echo of the KSR as the repository's reader reads both")
        if d:
            res.violation("an emitted SKR does not echo the KSR it answers (the next ceremony compares a new KSR's ids with what this SKR shows)", case, key="echo:" + variant, first_difference=d)
    wellformed = text is None or text.wellformed
    if not wellformed:
        # nothing a standard parser can read went in, nothing it can read comes out (witnessed, not assumed)
        import xml.etree.ElementTree as ET

        try:
            ET.fromstring(request_text)
            res.violation("harness: a profile declared not well-formed produced a well-formed KSR", case, key="profile:" + text.name)
        except ET.ParseError:
            res.bump("emitted SKR for a KSR that is not well-formed XML: judged by reload / echo / bytes / the repository reader's neighbour relation")
        if prev_skr is not None and repo_reading is not None:
            try:
                broken = neighbour_broken_readings(R.canon_written(prev_skr), repo_reading)
            except Exception as exc:  # noqa: BLE001
                broken = [f"unreadable: {type(exc).__name__}"]
            if broken:
                res.violation("accepted SKRs are not neighbours on one timeline", case, key=broken[0].split()[0] + ":" + variant, broken=broken)
        return
    bad = R.skr_problems(new_xml, num_bundles=9, roles=R.roles_of(sc), request_xml=request_text)
    if bad:
        res.violation("an emitted SKR is rejected by the independent validator (whole file, ElementTree + dnspython)", case, key="independent:" + variant, problems=bad[:6])
    if "ok" in rl and not (bad and bad[0].startswith("not one well-formed")):
        refs = text is not None and text.references
        d = R.reader_mismatch(new_xml, repo_reading, references=refs)
        if d:
            res.violation("an emitted SKR reads differently with the repository's loader than with a standard XML parser (the next ceremony will not see what was written)", case, key="reader:" + variant, first_difference=d)
        res.bump("emitted SKR: loader reading == XML reading" + (" (references resolved)" if refs else ""))
    if prev_skr is not None and not (bad and bad[0].startswith("not one well-formed")):
        broken = neighbour_broken(prev_skr, sc.request(), new_xml)
        if broken:
            res.violation("accepted SKRs are not neighbours on one timeline", case, key=broken[0].split()[0] + ":" + variant, broken=broken)


def overlap_profiles() -> dict[str, tuple[timedelta, timedelta]]:
    d = timedelta(days=1)
    # every profile contains the 11 days by which the bundles of one KSR overlap each other
    return {"narrow": (10 * d, 12 * d), "wide": (6 * d, 16 * d), "low": (6 * d, 12 * d), "high": (10 * d, 16 * d)}


def declare_overlap(sc: S.Scenario, lo: timedelta, hi: timedelta) -> str:
    """The scenario's honest KSR with other declared Min/MaxValidityOverlap (the policy is not covered by any signature)."""
    rq = sc.request()
    return C.request_to_xml(rq.replace(zsk_policy=rq.zsk_policy.replace(min_validity_overlap=lo, max_validity_overlap=hi)))


def policy_change_stream(res: Result, runs: list[dict[str, Any]], work: Path, schemas: dict[str, Any], tier: str) -> None:
    """Histories in which the declared overlap bounds change between consecutive KSRs (see the module docstring)."""
    prof = overlap_profiles()
    sec = timedelta(seconds=1)
    free = {"ksk_policy_extra": {"publish_safety": "PT0S"}}  # nothing but the chain overlap decides
    boots: dict[str, tuple[bytes, S.Scenario]] = {}
    for name, (lo, hi) in prof.items():
        boot = scenario_for(0, schemas["normal"], "honest", 0)
        boot.req_id = "req-q0-" + name
        xml = declare_overlap(boot, lo, hi)
        o = R.run_ceremony(boot, work, answer="Yes", ksr_xml=xml, **free)
        o["case"] = {"path": [], "schema": "normal", "variant": "bootstrap", "declared_overlap_days": [lo.days, hi.days]}
        runs.append(o)
        res.count(o["case"])
        if not o["written"]:
            res.violation("bootstrap ceremony did not succeed", o["case"], key="bootstrap:" + name, outcome=o["outcome"])
            continue
        judge_written(res, work, o, o["case"], boot, xml, None, "bootstrap")
        boots[name] = (o["file_after"], boot)
    changes = [("narrow", "wide"), ("wide", "narrow"), ("narrow", "high"), ("high", "narrow"), ("narrow", "low"), ("low", "narrow")]
    k = 0
    for old, new in changes:
        if old not in boots:
            continue
        prev_xml, boot = boots[old]
        (lo0, hi0), (lo1, hi1) = prof[old], prof[new]
        overlaps: list[timedelta] = []
        for b0, b1 in ((lo0, lo1), (hi0, hi1)):
            if b0 != b1:
                overlaps += [b0 - sec, b0, b0 + sec, b1 - sec, b1, b1 + sec, (b0 + b1) / 2]
        if tier != "quick":
            overlaps += [timedelta(days=11), lo1 - timedelta(days=1), hi1 + timedelta(days=1)]
        prev_last_exp = boot.start + timedelta(days=101)
        for ov in overlaps:
            sc = scenario_for(1, schemas["normal"], "honest", 0, prev_last_exp, boot.req_id)
            sc.start = prev_last_exp - ov
            sc.req_id = f"req-q1-{old}-to-{new}"
            xml = declare_overlap(sc, lo1, hi1)
            mode = R.PREV_MODES[k % 2]  # configuration / command line
            k += 1
            src = {"prev_xml": prev_xml.decode()} if mode == "config" else {"prev_cli_xml": prev_xml.decode()}
            pre_tag, pre = R.output_files(earlier_skr=prev_xml)[k % 5]
            o = R.run_ceremony(sc, work, answer="Yes", ksr_xml=xml, preexisting=pre, **src, **free)
            case = {
                "path": [f"normal/declares-{old}"], "schema": "normal", "variant": f"policy-change:{old}->{new}", "quarter": 1,
                "previous_skr_echoes_overlap_days": [lo0.days, hi0.days], "ksr_declares_overlap_days": [lo1.days, hi1.days], "chain_overlap_seconds": ov.total_seconds(),
                "previous_skr_named_in": mode, "output_path_before": pre_tag,
            }
            o["case"] = case
            runs.append(o)
            res.count(case)
            res.bump(f"variant:policy-change:{old}->{new}")
            out = o["outcome"]
            ok = out == {"ok": True}
            # the documented rule (C08/C10): the previous last expiration minus the KSR's first inception lies within the bounds the KSR declares
            want = lo1 <= ov <= hi1
            res.bump("policy-change:" + ("must-accept" if want else "must-refuse") + (":between-old-and-new-bound" if (lo0 <= ov <= hi0) != want else ""))
            if ok != o["written"]:
                res.violation("result and write disagree", case, key="write", outcome=out)
            if ok and not want:
                res.violation("a KSR whose chain overlap lies outside the bounds it declares was signed (the previous SKR echoes other bounds)", case, key="accepted:policy-change", outcome=out, sign_ops=o["sign_ops"])
            if not ok and want:
                res.violation("an honest successor whose chain overlap lies within the bounds it declares was refused (the previous SKR echoes other bounds)", case, key="refused:policy-change", outcome=out)
            if not ok and o["sign_ops"]:
                res.violation("private-key operations for a KSR that does not chain", case, key="early-sign:policy-change", outcome=out, sign_ops=o["sign_ops"])
            if not o["written"] and o["file_after"] != pre:
                res.violation("a refused ceremony did not leave the output path as it was", case, key="clobbered:" + pre_tag, outcome=out)
            if o["written"]:
                judge_written(res, work, o, case, sc, xml, prev_xml, "policy-change")
            if not any(isinstance(x, dict) and str(x.get("case", {}).get("variant", "")).startswith("policy-change") for x in res.samples) and (lo0 <= ov <= hi0) != want:
                res.sample({"case": case, "outcome": out, "documented_rule_accepts": want}, limit=6)


def subday_policy_stream(res: Result, runs: list[dict[str, Any]], work: Path, schemas: dict[str, Any], tier: str) -> None:
    """Two-ceremony histories whose configured KSK policy has durations BELOW ONE DAY (PT90M, PT1H30M, P1DT12H30M, PT45S): the
    emitted SKR echoes them, and the next ceremony has to read that file as its previous SKR.  Every production value is a
    whole number of days, so only these histories show a writer that spells time-only durations differently."""
    profiles = [("PT90M", {"publish_safety": "PT90M"}), ("PT1H30M+P1DT12H30M", {"publish_safety": "PT1H30M", "retire_safety": "P1DT12H30M"}), ("PT45S", {"publish_safety": "PT45S", "retire_safety": "PT12H"})]
    for name, extra in profiles[: (2 if tier == "quick" else 3)]:
        boot = scenario_for(0, schemas["normal"], "honest", 0)
        boot.req_id = "req-q0-subday-" + name
        o = R.run_ceremony(boot, work, answer="Yes", ksk_policy_extra=extra)
        o["case"] = {"path": [], "schema": "normal", "variant": "subday-policy:bootstrap", "ksk_policy": extra}
        runs.append(o)
        res.count(o["case"])
        res.bump("variant:subday-policy")
        if not o["written"]:
            res.violation("bootstrap ceremony did not succeed", o["case"], key="bootstrap:subday:" + name, outcome=o["outcome"])
            continue
        judge_written(res, work, o, o["case"], boot, None, None, "bootstrap")
        prev_xml = o["file_after"]
        sc = scenario_for(1, schemas["normal"], "honest", 0, boot.start + timedelta(days=101), boot.req_id)
        sc.req_id = "req-q1-subday-" + name
        o2 = R.run_ceremony(sc, work, answer="Yes", prev_xml=prev_xml.decode(), ksk_policy_extra=extra)
        case = {"path": ["normal/subday-policy"], "schema": "normal", "variant": "subday-policy:successor", "quarter": 1, "ksk_policy": extra}
        o2["case"] = case
        runs.append(o2)
        res.count(case)
        res.bump("variant:subday-policy")
        if o2["outcome"] != {"ok": True} or not o2["written"]:
            res.violation("an honest successor ceremony was refused: the previous SKR is the file the tools wrote themselves (KSK policy with durations below one day)", case, key="refused:subday-policy:" + name, outcome=o2["outcome"])
        else:
            judge_written(res, work, o2, case, sc, None, prev_xml, "subday-policy")


def sections_stream(res: Result, runs: list[dict[str, Any]], work: Path, schemas: dict[str, Any], tier: str) -> None:
    """Ceremonies whose configuration sets the SAME-NAMED options of two sections (R.shared_section_options(): num_bundles and
    validate_signatures of request_policy / response_policy) to DIFFERENT values, fed with an honest previous SKR, a previous
    SKR whose last-bundle / first-bundle signature does not verify (one base64 character changed; confirmed with dnspython), and
    a KSR whose proof of possession does not verify.  Expected, from the property text (C08/C10): the previous SKR is judged
    under response_policy (refused iff its bundle count differs from response_policy.num_bundles or a signature does not verify
    while response_policy.validate_signatures is on), the KSR under request_policy; the ceremony succeeds iff both pass.  The
    ceremony model gets both sections on its line as well."""
    shared = R.shared_section_options()
    res.stats["options-named-in-two-sections"] = shared
    unknown = [o for o, secs in shared.items() if o not in ("num_bundles", "validate_signatures") or set(secs) != {"request_policy", "response_policy"}]
    if unknown:
        res.notes.append(f"options named in two configuration sections that the sections stream does not set apart: {unknown}")
    boot = scenario_for(0, schemas["normal"], "honest", 0)
    boot.req_id = "req-q0-sections"
    o = R.run_ceremony(boot, work, answer="Yes")
    o["case"] = {"path": [], "schema": "normal", "variant": "bootstrap", "stream": "sections"}
    runs.append(o)
    res.count(o["case"])
    if not o["written"]:
        res.violation("bootstrap ceremony did not succeed", o["case"], key="bootstrap:sections", outcome=o["outcome"])
        return
    prev_good = o["file_after"].decode()
    prevs = {"honest": prev_good, "last-bundle-signature-corrupted": R.corrupt_signature(prev_good, -1), "first-bundle-signature-corrupted": R.corrupt_signature(prev_good, 0)}
    verifies = {k: not R.skr_problems(v.encode(), num_bundles=9) for k, v in prevs.items()}
    if not verifies["honest"] or verifies["last-bundle-signature-corrupted"] or verifies["first-bundle-signature-corrupted"]:
        res.violation("harness: the corrupted previous SKRs are not what they are meant to be (independent validator)", o["case"], key="sections:generator", verifies=verifies)
        return
    prev_last_exp = boot.start + timedelta(days=101)
    n = 9
    plans: list[tuple[str, str, dict[str, Any], dict[str, Any]]] = []  # (previous SKR, KSR, request_policy options, response_policy options)
    for rv in (True, False):
        for sv in (True, False):
            for pk in prevs:
                plans.append((pk, "honest", {"validate_signatures": rv}, {"validate_signatures": sv}))
            plans.append(("honest", "pop-corrupted", {"validate_signatures": rv}, {"validate_signatures": sv}))
    for rn, sn in ((n, n - 1), (n, n + 1), (n - 1, n), (n + 1, n), (n - 1, n - 1)):
        plans.append(("honest", "honest", {"num_bundles": rn}, {"num_bundles": sn}))
        if tier != "quick":
            plans.append(("last-bundle-signature-corrupted", "honest", {"num_bundles": rn, "validate_signatures": True}, {"num_bundles": sn, "validate_signatures": False}))
    for k, (pk, kk, rq, rs) in enumerate(plans):
        sc = scenario_for(1, schemas["normal"], "honest", 0, prev_last_exp, boot.req_id)
        sc.req_id = f"req-q1-sections-{k}"
        ksr_xml = C.request_to_xml(sc.request())
        if kk == "pop-corrupted":
            ksr_xml = R.corrupt_signature(ksr_xml, -1)
        mode = R.PREV_MODES[k % 2]
        src = {"prev_xml": prevs[pk]} if mode == "config" else {"prev_cli_xml": prevs[pk]}
        pre_tag, pre = R.output_files(earlier_skr=prev_good.encode())[k % 5]
        o = R.run_ceremony(sc, work, answer="Yes", ksr_xml=ksr_xml, preexisting=pre, rp_extra=rq, response_policy_extra=rs, **src)
        req_full = {"num_bundles": n, "validate_signatures": True, **rq}
        resp_full = {"num_bundles": n, "validate_signatures": True, **rs}
        differ = sorted(x for x in req_full if req_full[x] != resp_full[x])
        case = {"path": ["normal/sections"], "schema": "normal", "variant": "sections", "quarter": 1, "previous_skr": pk, "ksr": kk, "request_policy": req_full, "response_policy": resp_full, "sections_differ_in": differ, "previous_skr_named_in": mode, "output_path_before": pre_tag}
        o["case"] = case
        runs.append(o)
        res.count(case)
        res.bump("variant:sections:" + ("+".join(differ) or "sections-agree"))
        res.bump(f"sections:previous-skr:{pk}")
        out = o["outcome"]
        ok = out == {"ok": True}
        want_prev = resp_full["num_bundles"] == n and (verifies[pk] or not resp_full["validate_signatures"])
        want_ksr = req_full["num_bundles"] == n and (kk == "honest" or not req_full["validate_signatures"])
        want = want_prev and want_ksr
        res.bump("sections:" + ("must-accept" if want else "must-refuse:" + ("previous-skr" if not want_prev else "ksr")))
        if ok != o["written"]:
            res.violation("result and write disagree", case, key="write", outcome=out)
        if ok and not want_prev:
            res.violation("a ceremony went through on a previous SKR that fails its own consistency under response_policy (signature does not verify / wrong bundle count); the other section's same-named option says otherwise", case, key="accepted:sections:previous-skr:" + "+".join(differ), outcome=out, sign_ops=o["sign_ops"])
        elif ok and not want_ksr:
            res.violation("a ceremony went through on a KSR that fails request_policy's own num_bundles / validate_signatures", case, key="accepted:sections:ksr:" + "+".join(differ), outcome=out, sign_ops=o["sign_ops"])
        if not ok and want:
            res.violation("an honest successor of a consistent previous SKR was refused when the sections' same-named options differ", case, key="refused:sections:" + "+".join(differ), outcome=out)
        if not ok and o["sign_ops"]:
            res.violation("private-key operations in a ceremony that must not go through", case, key="early-sign:sections", outcome=out, sign_ops=o["sign_ops"])
        if not o["written"] and o["file_after"] != pre:
            res.violation("a refused ceremony did not leave the output path as it was", case, key="clobbered:" + pre_tag, outcome=out)
        if o["written"] and want:
            judge_written(res, work, o, case, sc, ksr_xml, prev_good.encode(), "sections")
        if differ and not want_prev and not any(isinstance(x, dict) and x.get("case", {}).get("variant") == "sections" for x in res.samples):
            res.sample({"case": case, "outcome": out, "documented_rule_accepts": want}, limit=12)


def header_variant(variant: str, st: Quarter, sc: S.Scenario) -> tuple[str, dict[str, Any]]:
    """The KSR of a header variant `<what is re-used>[/<other header field changed>]` and the run_ceremony arguments it needs.
    `sc` is the scenario of the base variant (fresh request id and bundle ids unless the base itself replays them)."""
    base, _, hdr = variant.partition("/")
    kw: dict[str, Any] = {}
    if hdr == "late":
        sc.start = sc.start + timedelta(days=1)  # overlap 10 d: still inside the declared window
    xml = C.request_to_xml(sc.request())
    if base == "request-id-alone":
        xml = R.rewrite_header(xml, id=st.req_id)
    elif base == "bundle-id-alone-first" and st.bundle_ids:
        xml = R.rewrite_bundle_id(xml, 0, st.bundle_ids[-1])
    elif base == "bundle-id-alone-last" and st.bundle_ids:
        xml = R.rewrite_bundle_id(xml, len(sc.layout) - 1, st.bundle_ids[0])
    if hdr == "other-serial":
        xml = R.rewrite_header(xml, serial=st.serial + 1)
    elif hdr == "serial-0":
        xml = R.rewrite_header(xml, serial=0 if st.serial != 0 else 5)
    elif hdr == "serial-2^31":
        xml = R.rewrite_header(xml, serial=2**31 if st.serial != 2**31 else 7)
    elif hdr == "other-domain":
        xml = R.rewrite_header(xml, domain=OTHER_DOMAIN)
        kw["rp_extra"] = {"acceptable_domains": [".", OTHER_DOMAIN]}
    return xml, kw


def explore(res: Result, r: Any, runs: list[dict[str, Any]], work: Path, schemas: dict[str, Any], tier: str, *, text: R.Text | None, budget: int, depth_max: int, full: bool, must: tuple[str, ...] = ()) -> None:
    """One tree of ceremonies from a bootstrap 'normal' quarter, spelled as `text` says.  full: every schema x the honest
    variant and every variant for the rotating schema at every state (the ASCII tree); otherwise a handful per state, among
    them always the variants `must` (for the rotating schema)."""
    names = list(schemas)
    tag = text.name if text is not None else "ascii"
    quick = tier == "quick"
    boot = scenario_for(0, schemas["normal"], "honest", 0, text=text)
    o = R.run_ceremony(boot, work, answer="Yes")
    o["case"] = {"path": [], "schema": "normal", "variant": "bootstrap", "text": tag}
    runs.append(o)
    res.count(o["case"])
    res.bump("text:" + tag)
    if not o["written"]:
        res.violation("bootstrap ceremony did not succeed", o["case"], key="bootstrap", outcome=o["outcome"])
        return
    judge_written(res, work, o, o["case"], boot, None, None, "bootstrap", text=text)
    if text is not None:
        res.sample({"text": tag, "ksk_labels": [k["label"] for k in boot.ksks.values()], "zsk_identifiers": [z[0] for z in boot.zsks], "request_id": boot.req_id, "bytes_written": len(o["file_after"]), "non_ascii_bytes": sum(1 for c in o["file_after"] if c > 127)}, limit=10)
    root = Quarter(o["file_after"], 0, ("normal",), boot.start + timedelta(days=101), boot.req_id, ksr_xml=C.request_to_xml(boot.request()))
    frontier = [root]
    executed = 0
    for depth in range(1, depth_max + 1):
        nxt: list[Quarter] = []
        for st in frontier:
            q = st.q + 1
            rot = names[(len(st.path) + st.q) % len(names)]
            honest_outcome: dict[str, Any] = {}
            if full:
                combos = [(n, "honest") for n in names]
                combos += [(rot, v) for v in VARIANTS[1:]]
                # header variations: complete at depth 1 (for the rotating schema; the honest ones for 'normal' as well), sampled below
                hv = [(rot, v) for v in HEADER_VARIANTS] + [("normal", v) for v in HEADER_VARIANTS if v.startswith("honest/") and rot != "normal"]
                if depth >= 3:
                    keep = [(rot, "honest"), (rot, "honest-stale-config-prev")]
                    combos = keep + r.sample([c for c in combos + hv if c not in keep], min(len(combos) - 2, 3 if quick else 8))
                elif depth == 2:
                    combos += r.sample(hv, 6 if quick else 16)
                else:
                    combos += hv
            else:
                keep = [("normal", "honest"), (rot, "honest"), (rot, "replayed"), (rot, "request-id-alone/other-serial"), (rot, "honest-stale-config-prev")] + [(rot, v) for v in must]
                rest = [(rot, v) for v in VARIANTS[1:] + HEADER_VARIANTS] + [(n, "honest") for n in names]
                combos = list(dict.fromkeys(keep + r.sample([c for c in rest if c not in keep], (3 if depth == 1 else 1) if quick else 8)))
            for sname, variant in combos:
                if executed >= budget:
                    break
                executed += 1
                base = variant.partition("/")[0]
                sc = scenario_for(q, schemas[sname], "honest" if base in REUSE_ALONE else base, st.q, st.last_exp, st.req_id, text=text)
                if "/" in variant or base in REUSE_ALONE:
                    # a fresh request id (and with it fresh bundle ids) of its own, unless the base variant replays the previous one
                    if not base.startswith("replayed"):
                        sc.req_id = (text.rid if text else str)(f"req-q{q}-" + variant.replace("/", "-"))
                if executed % 2:
                    # the configuration lists the schema's slots in another order; the slot NUMBER decides
                    sc.schema_listing = sorted(sc.schema)
                    while sc.schema_listing == sorted(sc.schema):
                        r.shuffle(sc.schema_listing)
                ksr_xml = None
                extra: dict[str, Any] = {}
                if variant == "gap-declared-negative-min":
                    # the repository's duration reader adds a trailing integer as seconds: "P0D-86400" is minus one day
                    ksr_xml = C.request_to_xml(sc.request())
                    a0 = ksr_xml.index("<MinValidityOverlap>")
                    a1 = ksr_xml.index("</MinValidityOverlap>")
                    ksr_xml = ksr_xml[:a0] + "<MinValidityOverlap>P0D-86400" + ksr_xml[a1:]
                if "/" in variant or base in REUSE_ALONE:
                    ksr_xml, extra = header_variant(variant, st, sc)
                # what lies at the output path before the run (the previous quarter's SKR: one path re-used every quarter)
                pre_tag, pre = R.output_files(earlier_skr=st.skr_xml)[executed % 5]
                if variant.endswith("stale-config-prev"):
                    # the configuration still names the SKR before the previous one; the command line names the right file
                    if st.parent_xml is None:
                        continue
                    mode = "both"
                    src = {"prev_xml": st.parent_xml.decode(), "prev_cli_xml": st.skr_xml.decode()}
                else:
                    mode = R.PREV_MODES[executed % 3]
                    if mode == "both" and st.parent_xml is None:
                        mode = "cli"
                    src = {"config": {"prev_xml": st.skr_xml.decode()}, "cli": {"prev_cli_xml": st.skr_xml.decode()}, "both": {"prev_cli_xml": st.skr_xml.decode(), "prev_xml": (st.parent_xml or b"").decode()}}[mode]
                o = R.run_ceremony(sc, work, answer="Yes", ksr_xml=ksr_xml, preexisting=pre, **src, **extra)
                case = {"path": list(st.path), "schema": sname, "variant": variant, "quarter": q, "previous_skr_named_in": mode, "output_path_before": pre_tag, "slots_listed": sc.schema_listing or "ascending", "text": tag}
                if "/" in variant or base in REUSE_ALONE:
                    case["previous_skr_id_serial"] = [st.req_id, st.serial]
                    case["ksr_header"] = ksr_xml[ksr_xml.index("<KSR ") : ksr_xml.index(">", ksr_xml.index("<KSR ")) + 1]
                o["case"] = case
                runs.append(o)
                res.count(case)
                res.bump("variant:" + variant)
                res.bump("schema:" + sname)
                res.bump("previous-skr-source:" + mode)
                res.bump("output-path-before:" + pre_tag)
                res.bump("schema-listing:" + ("shuffled" if sc.schema_listing else "ascending"))
                res.bump("text:" + tag)
                if st.serial != 1:
                    res.bump("previous SKR with a serial other than 1")
                out = o["outcome"]
                ok = out == {"ok": True}
                res.bump("outcome:" + ("accepted" if ok else str(next(iter(out.values())))))
                if ok != o["written"]:
                    res.violation("result and write disagree", case, key="write", outcome=out)
                if not o["written"] and o["file_after"] != pre:
                    res.violation("a refused ceremony did not leave the output path as it was", case, key="clobbered:" + pre_tag, outcome=out)
                if variant == "honest":
                    honest_outcome[sname] = out
                if variant == "honest-stale-config-prev" and sname in honest_outcome and not lib.same_outcome(out, honest_outcome[sname]):
                    # which file the CONFIGURATION names must not matter when the command line names the previous SKR
                    res.violation("outcome is not that of the documented rules applied to the actual previous output", case, key="stale-config-prev", outcome=out, outcome_with_only_the_right_file=honest_outcome[sname])
                if base in REFUSED and ok:
                    res.violation("a replayed / gapped / re-keyed / unchained KSR was accepted", case, key="accepted:" + variant, outcome=out)
                if base in REFUSED and not ok and o["sign_ops"]:
                    res.violation("private-key operations for a KSR that does not chain", case, key="early-sign:" + variant, outcome=out, sign_ops=o["sign_ops"])
                if base in ROUTINE and not variant.endswith("other-domain") and sname == "normal" and st.routine():
                    # the quarterly routine: the honest successor of an emitted SKR, same schema, same keys — whatever its serial
                    res.bump("routine successor (must be accepted)")
                    if not ok:
                        res.violation("the honest successor of an emitted SKR was refused in the quarterly routine ('normal' after 'normal')", case, key="refused:" + variant, outcome=out)
                if o["written"]:
                    new_xml = o["file_after"]
                    # every emitted SKR must be loadable and acceptable as the next previous SKR
                    judge_written(res, work, o, case, sc, ksr_xml, st.skr_xml, variant, text=text)
                    if depth == 1 and variant == "honest":
                        # the same ceremony to a fresh path: what is found at a re-used path must not show in the result at all
                        twin = R.run_ceremony(sc, work, answer="Yes", ksr_xml=ksr_xml, preexisting=None, **src)
                        res.bump("fresh-path twin")
                        if twin["file_after"] != new_xml:
                            res.violation("the SKR at a re-used output path differs from the one the same ceremony writes to a fresh path", case, key="fresh-path:" + pre_tag, bytes_at_reused_path=len(new_xml), bytes_at_fresh_path=None if twin["file_after"] is None else len(twin["file_after"]))
                    if not variant.endswith("other-domain"):  # (its successors would need the widened policy: not a state of this tree)
                        import xml.etree.ElementTree as ET

                        try:
                            echoed = ET.fromstring(new_xml).get("id")
                        except Exception:  # noqa: BLE001
                            echoed = sc.req_id
                        nxt.append(Quarter(new_xml, q, st.path + (f"{sname}/{variant}",), sc.start + timedelta(days=101), echoed or sc.req_id, st.skr_xml, ksr_xml=ksr_xml if ksr_xml is not None else C.request_to_xml(sc.request())))
                if len(res.samples) < 3 and (ok or variant == "gapped"):
                    res.sample({"case": case, "outcome": out, "token_ops": len(o["log"])})
                if "/" in variant and not any(isinstance(x, dict) and "/" in str(x.get("case", {}).get("variant", "")) for x in res.samples):
                    res.sample({"case": case, "outcome": out}, limit=10)
        # keep the frontier small but varied
        cap = (6 if quick else 24) if full else (2 if quick else 4)
        if len(nxt) > cap:
            # (a state reached with another serial stays in: its successors meet a previous SKR whose serial is not 1)
            special = [x for x in nxt if x.serial != 1][:1]
            nxt = special + r.sample([x for x in nxt if x not in special], cap - len(special))
        frontier = nxt
        if not frontier:
            break


def run(tier: str, driver_ok: bool) -> Result:
    res = Result("C10")
    res.rule = (
        "tree of ceremonies over 7 example schemas x 10 KSR variants from a bootstrap 'normal' quarter; depth 1 and 2 complete for the honest "
        "variant, all variants at every visited state for a rotating schema, depth 3 (thorough: 4) sampled; states memoised (a refused ceremony "
        "leaves the state unchanged); rotating around every transition: bytes at the output path before the run (absent / short / 300 kB / previous "
        "SKR / previous SKR made longer), source of the previous SKR's name (configuration / command line / both with a stale file configured), "
        "listing order of the schema's slots; depth-1 honest transitions also to a fresh path (byte-identical); header variations: 6 kinds of re-use "
        "(request id alone, a bundle id alone first/last, replayed, re-keyed under the chained identifiers, unchained first keys) x 5 other header "
        "changes (serial +1 / 0 / 2^31, another accepted domain, a day late) + the honest successor with another serial, complete at depth 1, sampled "
        "below; the same tree (smaller) in 4 non-ASCII spellings of KSK labels / ZSK identifiers / request and bundle ids; every emitted SKR: "
        "load_skr, independent validator, loader reading == XML reading, bytes == the model writer's UTF-8 text; the routine honest successor must "
        "be accepted; the same tree in 4 spellings with XML-special text handed over verbatim by the repository's reader (entity / character references, &amp;amp;, apostrophe + tab, "
        "ampersands that are no reference) and 2 with identifiers related as strings (prefix, case), every kind of re-use (request id alone, bundle id first / last, replayed) at "
        "every state: emitted SKR echoes the KSR as the repository's reader reads both, re-use of the previous request's raw ids refused; configuration sections: num_bundles / "
        "validate_signatures of request_policy vs response_policy set apart x previous SKR honest / first- / last-bundle signature corrupted x KSR honest / proof of possession corrupted; "
        "policy-change histories: declared "
        "Min/MaxValidityOverlap changes between consecutive KSRs (6 old->new profile pairs) x chain overlap on {-1s,0,+1s} around each changed old and "
        "new bound and their midpoint, publish safety PT0S; non-trivial = distinct (path, schema, variant, overlap, rotation, spelling)"
    )
    r = lib.rng("C10")
    schemas = example_schemas()
    work = R.scratch_dir("C10")
    runs: list[dict[str, Any]] = []
    quick = tier == "quick"
    # the DEBUG-logging second pass of ./check repeats the ASCII tree on a smaller budget and one text profile of each family
    # (logging does not interact with the spelling of ids; the whole pass must stay within the quick tier's time)
    second = bool(os.environ.get("VERIF_PASS2_OUT"))
    try:
        explore(res, r, runs, work, schemas, tier, text=None, budget=(120 if second else 340) if quick else 2600, depth_max=3 if quick else 4, full=True)
        for text in list(R.TEXT_PROFILES.values())[: 1 if second else None]:
            explore(res, lib.rng("C10:" + text.name), runs, work, schemas, tier, text=text, budget=32 if quick else 100, depth_max=3, full=False)
        # XML-special content handed over verbatim, and identifiers related as strings: every kind of re-use at every state
        for text in (list(R.XML_TEXT_PROFILES.values()) + list(R.RELATED_TEXT_PROFILES.values()))[: 1 if second else None]:
            explore(res, lib.rng("C10:" + text.name), runs, work, schemas, tier, text=text, budget=20 if quick else 50, depth_max=2 if quick else 3, full=False, must=tuple(REUSE_ALONE))
        sections_stream(res, runs, work, schemas, tier)
        policy_change_stream(res, runs, work, schemas, tier)
        subday_policy_stream(res, runs, work, schemas, tier)
        if driver_ok:
            with_line = [x for x in runs if "line" in x]
            outs = lib.run_driver([x["line"] for x in with_line], exe=DRIVER)
            to_predict: list[tuple[dict[str, Any], Any, dict[str, Any], bytes]] = []
            for x, m in zip(with_line, outs):
                if "driver_error" in m:
                    res.disagreement("ksrsigner: driver error", x["case"], x["outcome"], m)
                    continue
                if lib.is_unsupported(m["result"]):
                    # nothing here is outside the modelled domain: the model left the recorded run (replay / oracle miss)
                    res.disagreement("ksrsigner: the model could not follow the implementation's run (it expects other token operations / oracle questions)", x["case"], x["outcome"], m["result"], log_difference=C.first_log_difference(x["log"], m["log"]))
                    continue
                if not lib.same_outcome(x["outcome"], m["result"]):
                    res.disagreement("ceremony outcome differs from the documented rules applied to the actual previous output", x["case"], x["outcome"], m["result"])
                d = C.first_log_difference(x["log"], m["log"])
                if d is not None:
                    res.disagreement("ksrsigner: model issues different token operations", x["case"], x["outcome"], m["result"], log_difference=d)
                writes = [e["write"] for e in m["events"] if isinstance(e, dict)]
                if bool(writes) != bool(x["written"]):
                    res.disagreement("model and implementation disagree on whether an SKR is written", x["case"], x["outcome"], m["result"])
                elif writes:
                    try:
                        same = S.response_sorted_j(writes[0]) == R.canon_written(x["file_after"])
                    except Exception:  # noqa: BLE001  (unreadable output is reported as a violation above)
                        same = True
                    if not same:
                        res.disagreement("model writes a different SKR", x["case"], x["outcome"], m["result"])
                    # the WHOLE file as an independent XML parser reads it (bundles in document order), not a readable prefix of it
                    try:
                        whole = S.response_sorted_j(R.skr_document(x["file_after"]))
                    except Exception:  # noqa: BLE001  (reported as a violation by judge_written)
                        whole = None
                    mine = S.response_sorted_j(writes[0])
                    prof = {**R.TEXT_PROFILES, **R.XML_TEXT_PROFILES, **R.RELATED_TEXT_PROFILES}.get(str(x["case"].get("text")))
                    if prof is not None and prof.references:
                        # the model's SKR holds the texts verbatim (as the repository's reader hands them over); a standard parser shows them with references resolved
                        try:
                            mine = S.response_sorted_j(R.resolve_document(mine))
                        except ValueError:
                            whole = None
                    if whole is not None and mine != whole:
                        res.disagreement("the file at the output path is not exactly the SKR the model writes", x["case"], x["outcome"], m["result"], first_difference=R.first_difference(mine, whole))
                    to_predict.append((x["case"], x["outcome"], writes[0], x["file_after"]))
            # the bytes at the output path against the model's WRITER (C11's skrToXml) applied to the SKR the ceremony model writes
            R.compare_written_bytes(res, to_predict)
    finally:
        R.cleanup(work)
    return res


def replay(obj: dict[str, Any]) -> Any:
    return {"recorded": obj, "note": "cases are (path of accepted ceremonies, schema, variant, chain overlap, rotation of output-path content / previous-SKR source / slot listing); re-run ./check C10 with the same VERIF_SEED"}
