"""C12 correspondence: the KSR/SKR reader agrees with a standard XML parser, in any sibling order.

Three readings of every generated document are compared:

  * the IMPLEMENTATION  request_from_xml / response_from_xml of /repo's working tree (run in the
    watchdog pool of corr_C13: some layouts make the pinned reader loop forever);
  * the MODEL           `request_from_xml` / `response_from_xml` ops of kskm_driver_pkgd
                        (lean/Kskm/Xml.lean + XmlGlue.lean);
  * the STANDARD PARSER `xml.etree.ElementTree` + `et_extract()` below, an extractor written from
                        schema/ksr.rnc and the XSD datatypes (not from the reader's code): which
                        element / attribute holds which datum, whitespace-collapse for numbers,
                        dateTime, duration and base64Binary, none for xsd:string.

  implementation != standard parser      -> res.violation("reader differs from a standard XML parser", key=<feature>)
  implementation(doc) != implementation(doc with siblings permuted)  -> res.violation(…, key=<order feature>)
  implementation != model, rest agrees   -> res.disagreement
  model `unsupported`                    -> counted

Documents come from harness/xmlgen.py (grammar-based over the schema: 1..9 bundles, 1..3 keys,
1..3 signatures, 0..3 signers, 1..3 algorithms incl. RSA and ECDSA entries; random inter-element
whitespace incl. newlines / tabs / CR LF / none, spaces and tabs inside start tags, permuted attribute
order, self-closing vs empty-pair form, XML prolog and comments before `<KSR`), plus all single-node
sibling permutations and whole-tree shuffles of small documents.  Schema-conformant shapes on which the
pinned reader is known to differ are generated on purpose, one per document, so that each difference is
attributable to a stable key.

PROLOG LAYOUT (stream "prolog-layout"; "anything preceding the KSR element is ignored"): what precedes the root is generated
from the XML grammar of a prolog (xmlgen.prolog_lattice: XML declaration in 4 spellings, comments incl. empty / multi-line /
with markup and the letters KSR inside, processing instructions, document type declarations, in the 16 item sequences XML
allows, or nothing at all) and — the point of the stream — in every LAYOUT relative to the root element: the root start tag
directly after the last item on the SAME line (no separator, one / two / forty blanks, tabs), on the next line (with and
without indentation), after CR LF, after a bare CR, after blank lines; leading white space of every XML kind before `<KSR`
with no item at all, and `<KSR` as the very first characters of the text; each with the element tree in a random / the
canonical layout AND on one line (the whole document on ONE line where the prolog has no line break either), on generated
requests / responses and on the archived signed 2018 KSR / SKR.  No item contains the characters `<KSR` (outside the
property: KskmProofs.C12 ksr_in_comment_counterexample).  Judged like every other document: implementation == ElementTree
reading, model (KskmProofs.C12 C12_reader_prolog is the theorem for this grammar) == implementation.  The random-layout
stream draws half of its prologs from the same grammar (xmlgen.gen_prolog).

DUPLICATES among siblings (stream "duplicates"; the schema has no uniqueness constraint): two or three
sibling versions of one element that agree in their identifying attribute / some fields and differ in
others, or are repeated verbatim (xmlgen.DUP_KINDS: <Key> with equal keyIdentifier — other key material
with the old or the right key tag, same material with other keyTag / Flags / TTL, verbatim, verbatim in
another lexical form; <Signature> with equal keyIdentifier — other data / key tag / expiration, verbatim;
<Signer> repeated; <SignatureAlgorithm> with equal number — other size / exponent, verbatim; bundles with
equal id — another period, verbatim), placed in generated documents, in the ARCHIVED genuinely signed KSRs /
SKRs of /repo's test data and in honestly signed requests made from the fixture keys (so that validation
ACCEPTS the unduplicated document), each in EVERY order of the group plus shuffles of all children of the
parent.  Judged like every other document — against the ElementTree reading mapped through the data
model's own equality (keys, signatures, signers and algorithms are SETS of value objects: verbatim
duplicates, also in another lexical form, are one member; anything that differs in a field is another
member; bundles are a list) — and additionally: the VERDICT of validation (validate_request /
validate_response under the policy that accepts the unduplicated document, and under the default policy)
must be the same for every order.  The verdict is also computed for the plain permutation stream.
"""

from __future__ import annotations

import json
import os
import random
import re
import xml.etree.ElementTree as ET
from typing import Any

import lib
import regex_diff
import xmlgen
from corr_C13 import BUDGET, HANG_CONFIRM_BUDGET, WatchdogPool, canon_obj, canon_outcome, _short
from lib import Result, same_outcome
from regex_diff import drive, hx

DRIVER = "kskm_driver_pkgd"
WHAT = "reader differs from a standard XML parser"
ASSUMPTIONS = [
    "xml.etree.ElementTree (expat) is the standards-conforming parser of the property; et_extract() reads the data out of its tree as schema/ksr.rnc places them",
    "a dateTime without a time zone is UTC (the tool's documented reading); only UTC spellings are generated (non-UTC times are C13's subject: rejected)",
    "attribute values are generated without tab / CR / LF (XML attribute-value normalisation would turn them into spaces) and without `<`, `&`, `\"`; element texts without `<`, `&`",
    "algorithm numbers are drawn from those the data classes can represent (5, 8, 10 with an RSA child; 13, 14 with an ECDSA child)",
    "python `set` fields are compared as sorted lists; the standard parser's reading is mapped through the data model's equality before the comparison: keys, signatures, signers "
    "and policy algorithms are sets of value objects (members equal in EVERY field — after the schema type's lexical-to-value mapping — are one member), bundles are a list",
    "validation verdicts are compared as outcome classes (accepted / policy violation by rule / other error by class); the clock of the horizon rule is pinned 5 days before the first inception of the document",
    "end tags are written exactly as `</name>`: white space inside an END tag (`</Request >`, XML-legal) is outside the property's plain form (it speaks of start tags) — the reader rejects it with ValueError, which C13's syntax dictionary covers as an accept-or-reject case",
    "bundles with equal ids are generated with different times or verbatim (stream duplicates); with equal (expiration, inception, id) and DIFFERENT content two bundles may still come out in document order (KskmProofs.C12 C12_order_key_tie): not generated",
]
TRUSTED = ["xml.etree.ElementTree as the standard XML parser", "harness/xmlgen.py (generator) — cross-checked against et_extract on every document"]

FEATURE_KEY = {
    "one-signer": "one-signer",
    "one-response-bundle": "one-response-bundle",
    "timestamp": "timestamp-on-request",
    "equal-expiration": "equal-expiration-order",
    "equal-times": "equal-expiration-order",
    "space-in-attrless-start-tag": "space-in-attrless-start-tag",
    "gt-in-attribute-value": "gt-in-attribute-value",
    "response-bundle-permutation": "response-bundle-order",
}

# --------------------------------------------------------------------------------------
# the standard-parser reading, from the schema
# --------------------------------------------------------------------------------------

XML_WS = " \t\r\n"
SEC = 10**6
RR_TYPES = {"DNSKEY": 48}


class SchemaError(Exception):
    pass


def collapse(s: str | None) -> str:
    return (s or "").strip(XML_WS)


def xsd_nonneg_int(s: str | None) -> int:
    t = collapse(s)
    if not re.fullmatch(r"\+?[0-9]+", t):
        raise SchemaError(f"not a nonNegativeInteger: {t!r}")
    return int(t)


def xsd_datetime_us(s: str | None) -> int:
    from datetime import datetime, timedelta, timezone

    t = collapse(s)
    m = re.fullmatch(r"(\d{4})-(\d\d)-(\d\d)T(\d\d):(\d\d):(\d\d)(\.\d+)?(Z|[+-]\d\d:\d\d)?", t)
    if not m:
        raise SchemaError(f"not a dateTime: {t!r}")
    y, mo, d, h, mi, sec = (int(m.group(i)) for i in range(1, 7))
    frac = int(((m.group(7) or ".0")[1:] + "000000")[:6])
    off = 0
    z = m.group(8)
    if z and z != "Z":
        off = (int(z[1:3]) * 60 + int(z[4:6])) * (1 if z[0] == "+" else -1)
    dt = datetime(y, mo, d, h, mi, sec, frac, tzinfo=timezone.utc) - timedelta(minutes=off)
    return (dt - datetime(1970, 1, 1, tzinfo=timezone.utc)) // timedelta(microseconds=1)


def xsd_duration_us(s: str | None) -> int:
    t = collapse(s)
    m = re.fullmatch(r"P(?:(\d+)D)?(?:T(?:(\d+)H)?(?:(\d+)M)?(?:(\d+)S)?)?", t)
    if not m or t == "P" or t.endswith("T"):
        raise SchemaError(f"not a (day-time) duration: {t!r}")
    d, h, mi, sec = (int(x) if x else 0 for x in m.groups())
    return ((d * 24 + h) * 60 + mi) * 60 * SEC + sec * SEC


def one(parent: ET.Element, name: str) -> ET.Element:
    xs = parent.findall(name)
    if len(xs) != 1:
        raise SchemaError(f"{parent.tag}: {len(xs)} <{name}> children")
    return xs[0]


def attr(e: ET.Element, name: str) -> str:
    v = e.get(name)
    if v is None:
        raise SchemaError(f"<{e.tag}> lacks attribute {name}")
    return v


def et_policy(e: ET.Element) -> dict[str, Any]:
    algs = []
    for a in e.findall("SignatureAlgorithm"):
        n = xsd_nonneg_int(attr(a, "algorithm"))
        kids = list(a)
        if len(kids) != 1:
            raise SchemaError("SignatureAlgorithm needs exactly one of RSA | ECDSA")
        k = kids[0]
        if k.tag == "RSA":
            algs.append({"kind": "rsa", "bits": xsd_nonneg_int(attr(k, "size")), "algorithm": n, "exponent": xsd_nonneg_int(attr(k, "exponent"))})
        elif k.tag == "ECDSA":
            algs.append({"kind": "ecdsa", "bits": xsd_nonneg_int(attr(k, "size")), "algorithm": n, "exponent": None})
        else:
            raise SchemaError(f"unknown algorithm element {k.tag}")
    if not algs:
        raise SchemaError("no SignatureAlgorithm")
    return {
        "publishSafety": xsd_duration_us(one(e, "PublishSafety").text),
        "retireSafety": xsd_duration_us(one(e, "RetireSafety").text),
        "maxSignatureValidity": xsd_duration_us(one(e, "MaxSignatureValidity").text),
        "minSignatureValidity": xsd_duration_us(one(e, "MinSignatureValidity").text),
        "maxValidityOverlap": xsd_duration_us(one(e, "MaxValidityOverlap").text),
        "minValidityOverlap": xsd_duration_us(one(e, "MinValidityOverlap").text),
        "algorithms": algs,
    }


def et_key(k: ET.Element) -> dict[str, Any]:
    return {
        "keyIdentifier": attr(k, "keyIdentifier"),
        "keyTag": xsd_nonneg_int(attr(k, "keyTag")),
        "ttl": xsd_nonneg_int(one(k, "TTL").text),
        "flags": xsd_nonneg_int(one(k, "Flags").text),
        "protocol": xsd_nonneg_int(one(k, "Protocol").text),
        "algorithm": xsd_nonneg_int(one(k, "Algorithm").text),
        "publicKey": collapse(one(k, "PublicKey").text),
    }


def et_sig(s: ET.Element) -> dict[str, Any]:
    tc = one(s, "TypeCovered").text or ""
    if tc not in RR_TYPES:
        raise SchemaError(f"unknown RR type {tc!r}")
    return {
        "keyIdentifier": attr(s, "keyIdentifier"),
        "ttl": xsd_nonneg_int(one(s, "TTL").text),
        "typeCovered": RR_TYPES[tc],
        "algorithm": xsd_nonneg_int(one(s, "Algorithm").text),
        "labels": xsd_nonneg_int(one(s, "Labels").text),
        "originalTtl": xsd_nonneg_int(one(s, "OriginalTTL").text),
        "expiration": xsd_datetime_us(one(s, "SignatureExpiration").text),
        "inception": xsd_datetime_us(one(s, "SignatureInception").text),
        "keyTag": xsd_nonneg_int(one(s, "KeyTag").text),
        "signersName": one(s, "SignersName").text or "",
        "signatureData": collapse(one(s, "SignatureData").text),
    }


def et_extract(text: str) -> dict[str, Any]:
    """What a standards-conforming parser extracts, in the JSON shape of lib.request_j / response_j;
    bundles in DOCUMENT order."""
    root = ET.fromstring(text.encode("utf-8"))
    if root.tag != "KSR":
        raise SchemaError(f"root is <{root.tag}>")
    req = root.findall("Request")
    rsp = root.findall("Response")
    if len(req) + len(rsp) != 1:
        raise SchemaError("KSR needs exactly one Request or Response")
    is_req = bool(req)
    inner = (req or rsp)[0]
    ts = inner.get("timestamp")
    out: dict[str, Any] = {
        "id": attr(root, "id"),
        "serial": xsd_nonneg_int(attr(root, "serial")),
        "domain": attr(root, "domain"),
        "timestamp": None if ts is None else xsd_datetime_us(ts),
    }
    pol = one(inner, "RequestPolicy" if is_req else "ResponsePolicy")
    out["zskPolicy"] = et_policy(one(pol, "ZSK"))
    if not is_req:
        out["kskPolicy"] = et_policy(one(pol, "KSK"))
    bundles = []
    bl = inner.findall("RequestBundle" if is_req else "ResponseBundle")
    if not bl:
        raise SchemaError("no bundles")
    for b in bl:
        keys = [et_key(k) for k in b.findall("Key")]
        sigs = [et_sig(s) for s in b.findall("Signature")]
        if not keys or not sigs:
            raise SchemaError("bundle needs key+ and signature+")
        signers = [attr(s, "keyIdentifier") for s in b.findall("Signer")] if is_req else None
        bundles.append(
            {
                "id": attr(b, "id"),
                "inception": xsd_datetime_us(one(b, "Inception").text),
                "expiration": xsd_datetime_us(one(b, "Expiration").text),
                "keys": keys,
                "signatures": sigs,
                "signers": (signers or None) if is_req else None,
            }
        )
    out["bundles"] = bundles
    return canon_obj(out)


def as_data_model(j: Any) -> Any:
    """The reading of a standard parser (element LISTS) mapped through the equality of the repository's data
    model: `keys`, `signatures`, `signers` of a bundle and `algorithms` of a policy are sets of frozen value
    objects — members that agree in every field are one member.  Bundles stay a list."""
    if not isinstance(j, dict) or "bundles" not in j:
        return j

    def uniq(xs: list[Any]) -> list[Any]:
        seen: set[str] = set()
        out = []
        for x in xs:
            k = json.dumps(x, sort_keys=True)
            if k not in seen:
                seen.add(k)
                out.append(x)
        return out

    j = json.loads(json.dumps(j))
    for b in j["bundles"]:
        b["keys"] = uniq(b["keys"])
        b["signatures"] = uniq(b["signatures"])
        if b.get("signers") is not None:
            b["signers"] = uniq(b["signers"])
    for p in ("zskPolicy", "kskPolicy"):
        if p in j:
            j[p]["algorithms"] = uniq(j[p]["algorithms"])
    return canon_obj(j)


def unordered(j: Any) -> Any:
    """the same data with the bundle list as a multiset"""
    if not isinstance(j, dict) or "bundles" not in j:
        return j
    j = dict(j)
    j["bundles"] = sorted(j["bundles"], key=lambda b: json.dumps(b, sort_keys=True))
    return j


# --------------------------------------------------------------------------------------
# the run
# --------------------------------------------------------------------------------------


def features_of(doc: dict[str, Any]) -> set[str]:
    """risky shapes actually present in the data (independent of how the document was asked for)"""
    f = set()
    if doc["kind"] == "request" and any(b["signers"] is not None and len(b["signers"]) == 1 for b in doc["bundles"]):
        f.add("one-signer")
    if doc["kind"] == "response" and len(doc["bundles"]) == 1:
        f.add("one-response-bundle")
    if doc["timestamp"] is not None:
        f.add("timestamp")
    exps = [b["expiration"] for b in doc["bundles"]]
    if len(set(exps)) != len(exps):
        f.add("equal-expiration")
    if len({(b["expiration"], b["inception"]) for b in doc["bundles"]}) != len(exps):
        f.discard("equal-expiration")
        f.add("equal-times")
    return f


def first_inception(text: str) -> int | None:
    try:
        return min(b["inception"] for b in et_extract(text)["bundles"])
    except Exception:  # noqa: BLE001
        return None


def duplicate_sources(r: Any, quick: bool) -> list[dict[str, Any]]:
    """The documents that are given duplicate siblings: generated ones (random data: validation refuses them
    early), the archived KSRs / SKRs of /repo's test data and honestly signed requests from the fixture keys
    (validation ACCEPTS them under the first policy listed, so a verdict can flip both ways)."""
    from datetime import datetime, timedelta, timezone

    import ceremony
    import keys as K

    out: list[dict[str, Any]] = []
    for i in range(5 if quick else 24):
        kind = "request" if i % 5 < 3 else "response"
        doc = xmlgen.gen_doc(r, kind, nbundles=1 + i % 3, small=True, rich_ids=(i % 4 == 3))
        out.append({"name": f"generated-{kind}-{i}", "kind": kind, "tree": xmlgen.to_tree(doc, r), "policies": [kind + "-default"], "big": False})
    # honestly signed requests: RSA 1024 / 2048 and P-256 fixture keys, 1..3 bundles, 1..2 keys per bundle
    for i in range(3 if quick else 12):
        pool = [("ZSK-a", r.choice(K.rsa_keys(1024, 65537)), 8), ("ZSK-b", r.choice(K.rsa_keys(2048, 65537)), r.choice([8, 10])), ("ZSK-c", r.choice(K.ec_keys("P-256")), 13)]
        layout = [[[0]], [[0], [0, 1]], [[0, 1], [1], [1, 2]], [[2], [2, 0]]][i % 4]
        used = sorted({j for l in layout for j in l})
        req = ceremony.honest_request(pool, layout, start=datetime(2030, 1, 1, tzinfo=timezone.utc) + timedelta(days=90 * i), req_id=f"honest-{i}", bundle_prefix=f"h{i}-bundle")
        pol = {
            "num_bundles": len(layout), "num_keys_per_bundle": [len(l) for l in layout], "num_different_keys_in_all_bundles": len(used),
            "rsa_approved_key_sizes": sorted({pool[j][1].k * 8 for j in used if pool[j][1].kind == "rsa"}) or [2048],
            "rsa_approved_exponents": sorted({pool[j][1].e for j in used if pool[j][1].kind == "rsa"}) or [65537],
            "approved_algorithms": ["RSASHA256", "RSASHA512", "ECDSAP256SHA256"], "check_cycle_length": False, "enable_unsupported_ecdsa": True,
        }
        out.append({"name": f"honest-{i}", "kind": "request", "tree": xmlgen.tree_from_xml(ceremony.request_to_xml(req)), "policies": ["request:" + json.dumps(pol, sort_keys=True), "request-default"], "big": False})
    # the archive
    data = lib.REPO / "src/kskm"
    for f in sorted(data.glob("*/tests/data/*.xml")):
        kind = "request" if f.name.startswith("ksr") else "response"
        pols = ["request-default", "request-relaxed"] if kind == "request" else ["response-default"]
        out.append({"name": "archived:" + f.name, "kind": kind, "tree": xmlgen.tree_from_xml(f.read_text()), "policies": pols, "big": True})
    return out


def run(tier: str, driver_ok: bool) -> Result:
    res = Result("C12")
    res.rule = (
        "grammar-based documents over schema/ksr.rnc (requests and responses; 1..9 bundles, 1..3 keys, 1..3 signatures, 0/2/3 signers, 1..3 algorithms RSA+ECDSA) x random layouts "
        "(inter-element whitespace incl. none/tabs/CRLF, spaces+tabs in start tags, attribute order, 4 empty-element forms, padded collapsible texts, 6 classic prologs or a random prolog of the XML grammar); canonical layout; "
        "prolog layout lattice: 16 prolog shapes (declaration / comments / PIs / doctype / nothing) x 15 separators between the last item and <KSR (none, blanks, tabs, LF, CR LF, CR, blank lines, indentation) "
        "x leading white space x element tree multi-line / on one line (whole document on one line; <KSR as first characters), on generated documents and the archived 2018 KSR / SKR; "
        "every single-node sibling permutation and whole-tree shuffles of small documents; one risky feature per document in dedicated streams; "
        "duplicates among siblings (19 kinds: Key / Signature with equal keyIdentifier differing in material, tag, flags, TTL, data, times or verbatim / respelled; repeated Signer; "
        "SignatureAlgorithm with equal number; bundles with equal id) x 2 or 3 versions in generated, honestly signed and archived documents x every order of the group + shuffles of the parent, "
        "read AND validated (verdict must not depend on the order); the same texts read in worker processes whose local time zone is not UTC (four zones); a case is non-trivial when its text is new"
    )
    r = lib.rng("C12")
    quick = tier == "quick"
    cases: list[dict[str, Any]] = []

    def add(stream: str, doc: dict[str, Any] | None, text: str, feature: str | None = None, base: int | None = None, label: str = "", **kw: Any) -> int:
        c = {"stream": stream, "kind": doc["kind"] if doc is not None else kw["kind"], "doc": doc, "text": text, "feature": feature, "base": base, "label": label}
        c.update(kw)
        cases.append(c)
        return len(cases) - 1

    def now_of(doc: dict[str, Any]) -> int:
        return min(b["inception"] for b in doc["bundles"]) - 5 * xmlgen.DAY

    # 1. random documents x random layouts
    for i in range(3600 if quick else 30000):
        kind = "request" if i % 5 < 3 else "response"
        doc = xmlgen.gen_doc(r, kind, rich_ids=(i % 7 == 0), small=(i % 3 != 0))
        tree = xmlgen.to_tree(doc, r)
        add("random-layout", doc, xmlgen.render(tree, xmlgen.Layout(r)))
    # 2. canonical layout
    for i in range(300 if quick else 3000):
        kind = "request" if i % 2 else "response"
        doc = xmlgen.gen_doc(r, kind, small=(i % 2 == 0))
        add("canonical-layout", doc, xmlgen.render(xmlgen.to_tree(doc, r), xmlgen.canonical_layout(r)))
    # 3. sibling permutations of small documents: every permutation of one node's children, and whole-tree shuffles
    for i in range(22 if quick else 200):
        kind = "request" if i % 2 == 0 else "response"
        doc = xmlgen.gen_doc(r, kind, nbundles=2 + i % 2, small=True)
        tree = xmlgen.to_tree(doc, r)
        seed = r.getrandbits(32)
        vkw = {"validate": [kind + "-default"], "now": now_of(doc)}
        base = add("permutation-base", doc, xmlgen.render(tree, xmlgen.Layout(random.Random(seed), permute_attrs=False)), **vkw)
        for label, t2 in xmlgen.all_sibling_permutations(tree, max_children=4, limit=70 if quick else 150):
            feat = "response-bundle-permutation" if kind == "response" and label.startswith("Response:") else None
            add("permutation", doc, xmlgen.render(t2, xmlgen.Layout(random.Random(seed), permute_attrs=False)), feature=feat, base=base, label=label, **vkw)
        for k in range(6):
            # whole-tree shuffles keep the bundle order of responses (their order is reported on its own, above)
            t2 = xmlgen.shuffle_all(tree, r)
            if kind == "response":
                inner = t2.children[0]
                order = [b["id"] for b in doc["bundles"]]
                bs = sorted([c for c in inner.children if c.name == "ResponseBundle"], key=lambda c: order.index(dict(c.attrs)["id"]))
                it = iter(bs)
                inner.children = [next(it) if c.name == "ResponseBundle" else c for c in inner.children]
            add("permutation", doc, xmlgen.render(t2, xmlgen.Layout(r)), base=base, label=f"shuffle-all-{k}", **vkw)
    # 4. risky features, one per document
    nf = 40 if quick else 300
    for i in range(nf):
        doc = xmlgen.gen_doc(r, "request", feature="one-signer", small=True)
        add("feature", doc, xmlgen.render(xmlgen.to_tree(doc, r), xmlgen.Layout(r)), feature="one-signer")
        doc = xmlgen.gen_doc(r, "response", feature="one-response-bundle", small=True)
        add("feature", doc, xmlgen.render(xmlgen.to_tree(doc, r), xmlgen.Layout(r)), feature="one-response-bundle")
        kind = "request" if i % 2 == 0 else "response"
        doc = xmlgen.gen_doc(r, kind, feature="timestamp", small=True)
        add("feature", doc, xmlgen.render(xmlgen.to_tree(doc, r), xmlgen.Layout(r)), feature="timestamp")
        # equal expirations: the same document with the two tied bundles in either order
        doc = xmlgen.gen_doc(r, "request" if i % 4 else "response", nbundles=2 + i % 3, feature="equal-expiration" if i % 2 else "equal-times", small=True, rich_ids=(i % 3 == 0))
        tree = xmlgen.to_tree(doc, r)
        seed = r.getrandbits(32)
        base = add("feature", doc, xmlgen.render(tree, xmlgen.Layout(random.Random(seed), permute_attrs=False)), feature="equal-expiration")
        t2 = tree.copy()
        inner = t2.children[0]
        idx = [j for j, c in enumerate(inner.children) if c.name in ("RequestBundle", "ResponseBundle")]
        inner.children[idx[0]], inner.children[idx[1]] = inner.children[idx[1]], inner.children[idx[0]]
        add("feature", doc, xmlgen.render(t2, xmlgen.Layout(random.Random(seed), permute_attrs=False)), feature="equal-expiration", base=base, label="tied-bundles-swapped")
        if i < nf // 2:
            kind = "request" if i % 2 == 0 else "response"
            doc = xmlgen.gen_doc(r, kind, small=True)
            tree = xmlgen.to_tree(doc, r)
            add("feature", doc, xmlgen.render(tree, xmlgen.Layout(r, space_in_attrless_start_tag=0.15)), feature="space-in-attrless-start-tag")
            doc = xmlgen.gen_doc(r, kind, small=True)
            which = r.choice(["id", "bundle", "key"])
            if which == "id":
                doc["id"] = "a>b" + doc["id"]
            elif which == "bundle":
                doc["bundles"][0]["id"] = "x>" + doc["bundles"][0]["id"]
            else:
                old = doc["bundles"][0]["keys"][0]["keyIdentifier"]
                for b in doc["bundles"]:
                    for k in b["keys"]:
                        if k["keyIdentifier"] == old:
                            k["keyIdentifier"] = ">" + old
                    for s in b["signatures"]:
                        if s["keyIdentifier"] == old:
                            s["keyIdentifier"] = ">" + old
            add("feature", doc, xmlgen.render(xmlgen.to_tree(doc, r), xmlgen.Layout(r)), feature="gt-in-attribute-value")

    # 4b. the LAYOUT of the prolog relative to the root element ("anything preceding the KSR element is ignored"): every shape of
    #     prolog the XML grammar allows (declaration, comments, processing instructions, doctype, nothing) x what separates its last
    #     item from `<KSR` (nothing, blanks / tabs on the same line, line break, CR LF, bare CR, blank lines, indentation) x leading
    #     white space, with the element tree in a random / the canonical layout and on ONE line
    pl_docs = []
    for i in range(4 if quick else 12):
        kind = "request" if i % 2 == 0 else "response"
        doc = xmlgen.gen_doc(r, kind, nbundles=1 + (i // 2) % 2, small=True, rich_ids=(i % 4 == 3))
        pl_docs.append((doc, xmlgen.to_tree(doc, r)))
    li = 0
    for rep in range(1 if quick else 3):
        for pro, desc in xmlgen.prolog_lattice(r):
            _p, shape, lead, after = desc.split(":")
            last_kind = {"D": "declaration", "c": "comment", "p": "pi", "T": "doctype"}.get(shape[-1:], "nothing")
            hint = f"prolog-layout:root-after-{last_kind}:{after.split('=')[1]}"
            for body in ("multi-line", "one-line"):
                doc, tree = pl_docs[li % len(pl_docs)]
                li += 1
                if body == "one-line":
                    lay = xmlgen.one_line_layout(r, r.choice(["", "", " ", "\t"]))
                    trail = r.choice(["", "", " ", "\n"])
                else:
                    lay = xmlgen.Layout(r, prolog=False) if r.random() < 0.6 else xmlgen.canonical_layout(r)
                    trail = None
                text = xmlgen.render(tree, lay, prolog=pro, trail=trail)
                one_line = "\n" not in text.rstrip("\n") and "\r" not in text
                add("prolog-layout", doc, text, label=desc + ":" + body, key_hint=hint, prolog_desc=(shape or "none", lead.split("=")[1], after.split("=")[1], body, one_line))
    # … and on the archived, genuinely signed documents (their element tree re-rendered)
    for f in sorted((lib.REPO / "src/kskm").glob("*/tests/data/*.xml")):
        if "2018" not in f.name:
            continue
        kind = "request" if f.name.startswith("ksr") else "response"
        atree = xmlgen.tree_from_xml(f.read_text())
        lat = list(xmlgen.prolog_lattice(r))
        for pro, desc in r.sample(lat, 6 if quick else 40):
            _p, shape, lead, after = desc.split(":")
            body = r.choice(["multi-line", "one-line"])
            lay = xmlgen.one_line_layout(r, r.choice(["", " "])) if body == "one-line" else xmlgen.canonical_layout(r)
            text = xmlgen.render(atree, lay, prolog=pro, trail="" if body == "one-line" else None)
            last_kind = {"D": "declaration", "c": "comment", "p": "pi", "T": "doctype"}.get(shape[-1:], "nothing")
            add("prolog-layout", None, text, kind=kind, label="archived:" + f.name + ":" + desc + ":" + body, key_hint=f"prolog-layout:root-after-{last_kind}:{after.split('=')[1]}",
                prolog_desc=(shape or "none", lead.split("=")[1], after.split("=")[1], body, "\n" not in text.rstrip("\n") and "\r" not in text))

    # 5. duplicates among siblings, in every order of the group
    dup_kinds = list(xmlgen.DUP_KINDS)
    for si, src in enumerate(duplicate_sources(r, quick)):
        tree = src["tree"]
        plain = xmlgen.render(tree, xmlgen.Layout(r))
        now = first_inception(plain)
        now = None if now is None else now - 5 * xmlgen.DAY
        kw = {"kind": src["kind"], "validate": src["policies"], "now": now, "source": src["name"]}
        add("duplicates", None, plain, label=src["name"] + ":unduplicated", dup="none", **kw)
        if src["big"] and quick:
            kinds = [dup_kinds[(si * 5 + j * 4) % len(dup_kinds)] for j in range(5)]
        else:
            kinds = dup_kinds
        for dk in kinds:
            for copies in ((2, 3) if not src["big"] else (r.choice([2, 2, 3]),)):
                x = xmlgen.add_duplicates(tree, r, dk, copies)
                if x is None:
                    continue
                t2, ppath, idxs = x
                seed = r.getrandbits(32)
                lab = f"{src['name']}:{dk}x{copies}"
                base = add("duplicates", None, xmlgen.render(t2, xmlgen.Layout(random.Random(seed), permute_attrs=False)), label=lab, dup=dk, **kw)
                for olabel, t3 in xmlgen.group_orders(t2, ppath, idxs):
                    add("duplicates", None, xmlgen.render(t3, xmlgen.Layout(random.Random(seed), permute_attrs=False)), base=base, label=lab + ":" + olabel, dup=dk, **kw)
                for k in range(1 if src["big"] and quick else 2):
                    add("duplicates", None, xmlgen.render(xmlgen.shuffle_children(t2, ppath, r), xmlgen.Layout(r)), base=base, label=lab + f":shuffle-parent-{k}", dup=dk, **kw)

    # 6. the process time zone is part of the environment: the same texts read in a process whose local zone is not UTC (the
    #    reference clients write timestamps WITHOUT a zone; what they mean must not depend on where the reader runs)
    tz_pick = [c for c in cases if c["stream"] in ("canonical-layout", "random-layout") and c["base"] is None][: (24 if quick else 200)]
    tz_pick += [c for c in cases if c["stream"] == "prolog-layout" and c["label"].startswith("archived:")][:4]
    tz_pick += [c for c in cases if c["stream"] == "duplicates" and c.get("dup") == "none"][: (3 if quick else 12)]
    zones = lib.non_utc_zones()
    for ti, c0 in enumerate(tz_pick):
        for z in (zones if not quick else [zones[ti % len(zones)], zones[(ti + 1) % len(zones)]]):
            extra = {k: c0[k] for k in ("validate", "now", "source") if k in c0}
            add("process-tz", c0["doc"], c0["text"], kind=c0["kind"], label=f"{c0['stream']}:{c0['label']}@TZ={z[0]}"[:160], tz=list(z), key_hint="process-time-zone:" + z[0], **extra)

    # 0. corpus: minimised documents of the recorded findings (and their baseline), judged like the rest
    corpus: list[dict[str, Any]] = []
    for f in sorted((lib.VERIF / "corpus").glob("C12_*.json")):
        corpus += json.loads(f.read_text())

    # --- the three readings
    op = {"request": "request_from_xml", "response": "response_from_xml"}
    model = drive([{"op": op[c["kind"]], "s": hx(c["text"])} for c in cases]) if driver_ok else [None] * len(cases)
    tasks = []
    for c, m in zip(cases, model):
        task = {"kind": op[c["kind"]], "text": c["text"]}
        if c.get("validate"):
            task.update({"validate": c["validate"], "now": c.get("now")})
        if c.get("tz"):
            task["tz"] = c["tz"]
        tasks.append((task, HANG_CONFIRM_BUDGET * 2 if m == "hang" else BUDGET))
    ctasks = []
    for e in corpus:
        ctasks.append(({"kind": e["kind"], "text": e["text"]}, BUDGET))
        if e.get("permuted"):
            ctasks.append(({"kind": e["kind"], "text": e["permuted"]}, BUDGET))
    with WatchdogPool(min(16, os.cpu_count() or 4)) as pool:
        couts = pool.run(ctasks)
        outs = pool.run(tasks)
        res.stats["worker_restarts"] = pool.restarts
    # corpus verdicts
    ci = 0
    for e in corpus:
        o = couts[ci]
        ci += 1
        impl = o.get("outcome") if not (o.get("timeout") or o.get("died")) else {"hang": True}
        case = {"stream": "corpus", "kind": e["kind"], "feature": e["key"], "label": "", "text": e["text"]}
        res.count(e["text"])
        res.bump("stream:corpus")
        try:
            std = {"ok": et_extract(e["text"])}
        except (SchemaError, ET.ParseError) as exc:
            std = {"error": f"{type(exc).__name__}: {exc}"}
        if not (isinstance(impl, dict) and "ok" in impl) or unordered(impl["ok"]) != unordered(std.get("ok")):
            res.violation(WHAT, case, key=e["key"], impl=_short(impl), expected=_short(std))
        if e.get("permuted"):
            o2 = couts[ci]
            ci += 1
            impl2 = o2.get("outcome")
            if impl2 != impl:
                res.violation(WHAT, dict(case, text=e["permuted"], label="siblings permuted"), key=e["key"], impl=_short(impl2), impl_on_unpermuted=_short(impl), note="result depends on the document order of siblings", unpermuted_text=e["text"])
    impls: list[Any] = []
    verdicts: list[Any] = []
    for c, o, m in zip(cases, outs, model):
        impl = o.get("outcome") if not (o.get("timeout") or o.get("died")) else {"hang": True}
        impls.append(impl)
        verdicts.append(o.get("verdicts"))
    accepted_sources: set[str] = set()

    for i, (c, impl, m) in enumerate(zip(cases, impls, model)):
        doc = c["doc"]
        # the standard parser's reading, mapped through the data model's equality (sets of value objects)
        try:
            std: Any = {"ok": as_data_model(et_extract(c["text"]))}
        except (SchemaError, ET.ParseError) as exc:
            std = {"error": f"{type(exc).__name__}: {exc}"}
        if doc is None:
            # documents that do not come with the generator's record of their data (archived / duplicated trees):
            # the risky shapes are read off the standard parser's reading
            if "ok" not in std:
                res.disagreement("harness self-test: a duplicated document is not schema-conformant for the ElementTree extractor", {"stream": c["stream"], "label": c["label"], "text": c["text"]}, None, _short(std))
                continue
            doc = {"kind": c["kind"], "timestamp": std["ok"]["timestamp"], "bundles": std["ok"]["bundles"]}
        feats = features_of(doc)
        if c["feature"] in ("space-in-attrless-start-tag", "gt-in-attribute-value", "response-bundle-permutation"):
            feats.add(c["feature"])
        # attribution: a shape that is a recorded finding names the key on its own; the repaired shapes
        # (one signer, one response bundle, tied bundles, permuted response bundles) only when no such is present
        open_feats = feats & {"timestamp", "space-in-attrless-start-tag", "gt-in-attribute-value"}
        named = open_feats or feats
        key = "+".join(sorted(FEATURE_KEY[f] for f in named)) if named else (c.get("key_hint") or f"none:{c['stream']}")
        if "timestamp" in feats and doc["kind"] == "response":
            key = key.replace("timestamp-on-request", "timestamp-on-response")
        if c.get("dup") and not open_feats:
            key = "duplicate-siblings:" + c["dup"]
        case = {"stream": c["stream"], "kind": op[c["kind"]], "feature": c["feature"], "label": c["label"], "text": c["text"]}
        if c.get("tz"):
            case["tz"] = c["tz"]
            res.bump("process-tz:" + c["tz"][0])
        if c.get("validate"):
            case.update({"validate": c["validate"], "now": c.get("now")})
        if c.get("dup"):
            res.bump("duplicates:" + c["dup"])
            res.bump("duplicates-source:" + c["source"].split("-")[0].split(":")[0])
        res.count(c["text"])
        res.bump("stream:" + c["stream"])
        res.bump("kind:" + c["kind"])
        res.bump(f"bundles:{len(doc['bundles'])}")
        if c.get("prolog_desc"):
            pshape, plead, pafter, pbody, pone = c["prolog_desc"]
            res.bump("prolog-layout:shape:" + pshape)
            res.bump("prolog-layout:leading-white-space:" + plead)
            res.bump("prolog-layout:root-after-last-item:" + pafter)
            res.bump("prolog-layout:element-tree:" + pbody)
            if pone:
                res.bump("prolog-layout:whole-document-on-one-line")
            if c["text"].startswith("<KSR"):
                res.bump("prolog-layout:<KSR-is-the-very-first-text")
        for f in feats:
            res.bump("feature:" + f)
        # the harness self-test: the standard parser's reading must be what the generator put in
        if c["doc"] is not None:
            want = {"ok": as_data_model(xmlgen.expected_j(doc))}
            if unordered(std.get("ok")) != unordered(want["ok"]) or (c["base"] is None and c["stream"] != "feature" and std != want):
                res.disagreement("harness self-test: ElementTree extractor != what the generator wrote", case, _short(std), _short(want))
                continue
        # 1. implementation vs standard parser (bundle order aside)
        differs = False
        if impl == {"hang": True}:
            differs = True
            res.bump("impl:hang")
            res.violation(WHAT, case, key=key, impl="does not terminate within the budget", expected=_short(std))
        elif not (isinstance(impl, dict) and "ok" in impl):
            differs = True
            res.bump("impl:error")
            res.violation(WHAT, case, key=key, impl=impl, expected=_short(std))
        elif unordered(impl["ok"]) != unordered(std["ok"]):
            differs = True
            res.bump("impl:different-data")
            res.violation(WHAT, case, key=key, impl=_short(impl), expected=_short(std))
        else:
            res.bump("impl:agrees")
            # chronological ordering of request bundles (the fourth mechanism of the property's anchors)
            ex = [b["expiration"] for b in impl["ok"]["bundles"]]
            if doc["kind"] == "request" and ex != sorted(ex):
                res.violation(WHAT, case, key="request-bundles-not-chronological", impl=ex)
        # 2. order independence: the same data with siblings permuted must give the same result
        if c["base"] is not None and not differs:
            b_impl = impls[c["base"]]
            if isinstance(b_impl, dict) and "ok" in b_impl and impl != b_impl:
                res.bump("impl:order-dependent")
                res.violation(WHAT, case, key=key if feats else "order:" + c["label"].split(":")[0], impl=_short(impl), impl_on_unpermuted=_short(b_impl), note="result depends on the document order of siblings", unpermuted_text=cases[c["base"]]["text"])
            else:
                res.bump("impl:order-independent")
        # 2b. the verdict of validation must not depend on the order either
        v = verdicts[i]
        if v is not None:
            for pname, vd in v.items():
                res.bump("verdict:" + ("accepted" if vd == {"ok": True} else "policy-violation" if "violation" in vd else "error"))
            if c.get("dup") == "none" and v.get(c["validate"][0]) == {"ok": True}:
                accepted_sources.add(c["source"])
            if c["base"] is not None and verdicts[c["base"]] is not None:
                bv = verdicts[c["base"]]
                if v != bv:
                    res.bump("verdict:order-dependent")
                    res.violation(
                        WHAT, case, key=(key if feats and not c.get("dup") else ("order-verdict:" + (c.get("dup") or c["label"].split(":")[0]))), verdicts=v, verdicts_on_unpermuted=bv,
                        note="the verdict of validation depends on the document order of siblings", unpermuted_text=cases[c["base"]]["text"],
                    )
                else:
                    res.bump("verdict:order-independent")
        # 3. the tie
        if m is None:
            continue
        if m == "hang":
            if impl != {"hang": True}:
                res.disagreement("model predicts non-termination, implementation terminated", case, _short(impl), m)
            continue
        if impl == {"hang": True}:
            res.disagreement("implementation overran the budget, model terminates", case, impl, _short(m))
            continue
        if lib.is_unsupported(m):
            res.unsupported += 1
            continue
        mc = canon_outcome(m)
        if not same_outcome(impl, mc):
            res.disagreement("model != implementation", case, _short(impl), _short(mc))
        elif impl != mc:
            res.soft_error_kind_mismatch += 1
        if len(res.samples) < 4 and c["stream"] == "random-layout" and r.random() < 0.01:
            res.sample({"stream": c["stream"], "input": c["text"][:400], "impl==model": impl == mc, "impl==ElementTree": not differs})
    # non-vacuity of the verdict comparison: the unduplicated signed documents are ACCEPTED under their first policy
    res.stats["duplicates:sources-accepted-unduplicated"] = sorted(accepted_sources)
    if not any(x.startswith("honest") for x in accepted_sources) or not any(x.startswith("archived:ksr") for x in accepted_sources) or not any(x.startswith("archived:skr") for x in accepted_sources):
        res.disagreement("harness self-test: no honestly signed / archived document is accepted by validation before duplicates are added (the verdict comparison would be vacuous)", {"stream": "duplicates"}, sorted(accepted_sources), None)
    if driver_ok:
        regex_diff.run(res, "quick", "C12-regex")
    return res


def replay(obj: dict[str, Any]) -> Any:
    v = obj.get("violation") or obj.get("disagreement") or {}
    c = v.get("case") or {}
    out: dict[str, Any] = {"recorded": {k: _short(v.get(k)) for k in ("what", "key", "impl", "expected", "model", "note", "verdicts", "verdicts_on_unpermuted")}}
    if "text" not in c:
        return out
    out["text"] = c["text"] if len(c["text"]) < 3000 else c["text"][:3000] + "..."
    out["model_now"] = _short(canon_outcome(drive([{"op": c["kind"], "s": hx(c["text"])}])[0]))
    task = {"kind": c["kind"], "text": c["text"]}
    if c.get("validate"):
        task.update({"validate": c["validate"], "now": c.get("now")})
    if c.get("tz"):
        task["tz"] = c["tz"]
    with WatchdogPool(1) as pool:
        o = pool.run([(task, BUDGET)])[0]
        o2 = pool.run([(dict(task, text=v["unpermuted_text"]), BUDGET)])[0] if v.get("unpermuted_text") else None
    out["implementation_now"] = _short(o.get("outcome", o))
    if "verdicts" in o:
        out["verdicts_now"] = o["verdicts"]
    if o2 is not None:
        out["implementation_now_on_unpermuted"] = _short(o2.get("outcome", o2))
        if "verdicts" in o2:
            out["verdicts_now_on_unpermuted"] = o2["verdicts"]
    try:
        out["standard_parser_now"] = _short(as_data_model(et_extract(c["text"])))
    except Exception as exc:  # noqa: BLE001
        out["standard_parser_now"] = f"{type(exc).__name__}: {exc}"
    return out
