"""C12 correspondence: the KSR/SKR reader agrees with a standard XML parser, in any sibling order.

Three readings of every generated document are compared:

  * the IMPLEMENTATION  request_from_xml / response_from_xml of /repo's working tree (run in the
    watchdog pool of corr_C13: some layouts make the pinned reader loop forever);
  * the MODEL           `request_from_xml` / `response_from_xml` ops of kskm_driver_pkgd
                        (lean/Kskm/Xml.lean + XmlGlue.lean);
  * the STANDARD PARSER `xml.etree.ElementTree` + `et_extract()` below, an extractor written from
                        schema/ksr.rnc and the XSD datatypes (not from the reader's code): which
                        element / attribute holds which datum, whitespace-collapse for numbers,
                        dateTime, duration and base64Binary, none for xsd:string.

  implementation != standard parser      -> res.violation("reader differs from a standard XML parser", key=<feature>)
  implementation(doc) != implementation(doc with siblings permuted)  -> res.violation(…, key=<order feature>)
  implementation != model, rest agrees   -> res.disagreement
  model `unsupported`                    -> counted

Documents come from harness/xmlgen.py (grammar-based over the schema: 1..9 bundles, 1..3 keys,
1..3 signatures, 0..3 signers, 1..3 algorithms incl. RSA and ECDSA entries; random inter-element
whitespace incl. newlines / tabs / CR LF / none, spaces and tabs inside start tags, permuted attribute
order, self-closing vs empty-pair form, XML prolog and comments before `<KSR`), plus all single-node
sibling permutations and whole-tree shuffles of small documents.  Schema-conformant shapes on which the
pinned reader is known to differ are generated on purpose, one per document, so that each difference is
attributable to a stable key.
"""

from __future__ import annotations

import json
import os
import random
import re
import xml.etree.ElementTree as ET
from typing import Any

import lib
import regex_diff
import xmlgen
from corr_C13 import BUDGET, HANG_CONFIRM_BUDGET, WatchdogPool, canon_obj, canon_outcome, _short
from lib import Result, same_outcome
from regex_diff import drive, hx

DRIVER = "kskm_driver_pkgd"
WHAT = "reader differs from a standard XML parser"
ASSUMPTIONS = [
    "xml.etree.ElementTree (expat) is the standards-conforming parser of the property; et_extract() reads the data out of its tree as schema/ksr.rnc places them",
    "a dateTime without a time zone is UTC (the tool's documented reading); only UTC spellings are generated (non-UTC times are C13's subject: rejected)",
    "attribute values are generated without tab / CR / LF (XML attribute-value normalisation would turn them into spaces) and without `<`, `&`, `\"`; element texts without `<`, `&`",
    "algorithm numbers are drawn from those the data classes can represent (5, 8, 10 with an RSA child; 13, 14 with an ECDSA child)",
    "python `set` fields are compared as sorted lists; duplicate keys / signatures within a bundle are not generated",
    "end tags are written exactly as `</name>`: white space inside an END tag (`</Request >`, XML-legal) is outside the property's plain form (it speaks of start tags) — the reader rejects it with ValueError, which C13's syntax dictionary covers as an accept-or-reject case",
    "bundle ids are pairwise distinct within a document (the schema does not say so, validation demands it): with equal (expiration, inception, id) two bundles may still come out in document order (KskmProofs.C12 C12_order_key_tie)",
]
TRUSTED = ["xml.etree.ElementTree as the standard XML parser", "harness/xmlgen.py (generator) — cross-checked against et_extract on every document"]

FEATURE_KEY = {
    "one-signer": "one-signer",
    "one-response-bundle": "one-response-bundle",
    "timestamp": "timestamp-on-request",
    "equal-expiration": "equal-expiration-order",
    "equal-times": "equal-expiration-order",
    "space-in-attrless-start-tag": "space-in-attrless-start-tag",
    "gt-in-attribute-value": "gt-in-attribute-value",
    "response-bundle-permutation": "response-bundle-order",
}

# --------------------------------------------------------------------------------------
# the standard-parser reading, from the schema
# --------------------------------------------------------------------------------------

XML_WS = " \t\r\n"
SEC = 10**6
RR_TYPES = {"DNSKEY": 48}


class SchemaError(Exception):
    pass


def collapse(s: str | None) -> str:
    return (s or "").strip(XML_WS)


def xsd_nonneg_int(s: str | None) -> int:
    t = collapse(s)
    if not re.fullmatch(r"\+?[0-9]+", t):
        raise SchemaError(f"not a nonNegativeInteger: {t!r}")
    return int(t)


def xsd_datetime_us(s: str | None) -> int:
    from datetime import datetime, timedelta, timezone

    t = collapse(s)
    m = re.fullmatch(r"(\d{4})-(\d\d)-(\d\d)T(\d\d):(\d\d):(\d\d)(\.\d+)?(Z|[+-]\d\d:\d\d)?", t)
    if not m:
        raise SchemaError(f"not a dateTime: {t!r}")
    y, mo, d, h, mi, sec = (int(m.group(i)) for i in range(1, 7))
    frac = int(((m.group(7) or ".0")[1:] + "000000")[:6])
    off = 0
    z = m.group(8)
    if z and z != "Z":
        off = (int(z[1:3]) * 60 + int(z[4:6])) * (1 if z[0] == "+" else -1)
    dt = datetime(y, mo, d, h, mi, sec, frac, tzinfo=timezone.utc) - timedelta(minutes=off)
    return (dt - datetime(1970, 1, 1, tzinfo=timezone.utc)) // timedelta(microseconds=1)


def xsd_duration_us(s: str | None) -> int:
    t = collapse(s)
    m = re.fullmatch(r"P(?:(\d+)D)?(?:T(?:(\d+)H)?(?:(\d+)M)?(?:(\d+)S)?)?", t)
    if not m or t == "P" or t.endswith("T"):
        raise SchemaError(f"not a (day-time) duration: {t!r}")
    d, h, mi, sec = (int(x) if x else 0 for x in m.groups())
    return ((d * 24 + h) * 60 + mi) * 60 * SEC + sec * SEC


def one(parent: ET.Element, name: str) -> ET.Element:
    xs = parent.findall(name)
    if len(xs) != 1:
        raise SchemaError(f"{parent.tag}: {len(xs)} <{name}> children")
    return xs[0]


def attr(e: ET.Element, name: str) -> str:
    v = e.get(name)
    if v is None:
        raise SchemaError(f"<{e.tag}> lacks attribute {name}")
    return v


def et_policy(e: ET.Element) -> dict[str, Any]:
    algs = []
    for a in e.findall("SignatureAlgorithm"):
        n = xsd_nonneg_int(attr(a, "algorithm"))
        kids = list(a)
        if len(kids) != 1:
            raise SchemaError("SignatureAlgorithm needs exactly one of RSA | ECDSA")
        k = kids[0]
        if k.tag == "RSA":
            algs.append({"kind": "rsa", "bits": xsd_nonneg_int(attr(k, "size")), "algorithm": n, "exponent": xsd_nonneg_int(attr(k, "exponent"))})
        elif k.tag == "ECDSA":
            algs.append({"kind": "ecdsa", "bits": xsd_nonneg_int(attr(k, "size")), "algorithm": n, "exponent": None})
        else:
            raise SchemaError(f"unknown algorithm element {k.tag}")
    if not algs:
        raise SchemaError("no SignatureAlgorithm")
    return {
        "publishSafety": xsd_duration_us(one(e, "PublishSafety").text),
        "retireSafety": xsd_duration_us(one(e, "RetireSafety").text),
        "maxSignatureValidity": xsd_duration_us(one(e, "MaxSignatureValidity").text),
        "minSignatureValidity": xsd_duration_us(one(e, "MinSignatureValidity").text),
        "maxValidityOverlap": xsd_duration_us(one(e, "MaxValidityOverlap").text),
        "minValidityOverlap": xsd_duration_us(one(e, "MinValidityOverlap").text),
        "algorithms": algs,
    }


def et_key(k: ET.Element) -> dict[str, Any]:
    return {
        "keyIdentifier": attr(k, "keyIdentifier"),
        "keyTag": xsd_nonneg_int(attr(k, "keyTag")),
        "ttl": xsd_nonneg_int(one(k, "TTL").text),
        "flags": xsd_nonneg_int(one(k, "Flags").text),
        "protocol": xsd_nonneg_int(one(k, "Protocol").text),
        "algorithm": xsd_nonneg_int(one(k, "Algorithm").text),
        "publicKey": collapse(one(k, "PublicKey").text),
    }


def et_sig(s: ET.Element) -> dict[str, Any]:
    tc = one(s, "TypeCovered").text or ""
    if tc not in RR_TYPES:
        raise SchemaError(f"unknown RR type {tc!r}")
    return {
        "keyIdentifier": attr(s, "keyIdentifier"),
        "ttl": xsd_nonneg_int(one(s, "TTL").text),
        "typeCovered": RR_TYPES[tc],
        "algorithm": xsd_nonneg_int(one(s, "Algorithm").text),
        "labels": xsd_nonneg_int(one(s, "Labels").text),
        "originalTtl": xsd_nonneg_int(one(s, "OriginalTTL").text),
        "expiration": xsd_datetime_us(one(s, "SignatureExpiration").text),
        "inception": xsd_datetime_us(one(s, "SignatureInception").text),
        "keyTag": xsd_nonneg_int(one(s, "KeyTag").text),
        "signersName": one(s, "SignersName").text or "",
        "signatureData": collapse(one(s, "SignatureData").text),
    }


def et_extract(text: str) -> dict[str, Any]:
    """What a standards-conforming parser extracts, in the JSON shape of lib.request_j / response_j;
    bundles in DOCUMENT order."""
    root = ET.fromstring(text.encode("utf-8"))
    if root.tag != "KSR":
        raise SchemaError(f"root is <{root.tag}>")
    req = root.findall("Request")
    rsp = root.findall("Response")
    if len(req) + len(rsp) != 1:
        raise SchemaError("KSR needs exactly one Request or Response")
    is_req = bool(req)
    inner = (req or rsp)[0]
    ts = inner.get("timestamp")
    out: dict[str, Any] = {
        "id": attr(root, "id"),
        "serial": xsd_nonneg_int(attr(root, "serial")),
        "domain": attr(root, "domain"),
        "timestamp": None if ts is None else xsd_datetime_us(ts),
    }
    pol = one(inner, "RequestPolicy" if is_req else "ResponsePolicy")
    out["zskPolicy"] = et_policy(one(pol, "ZSK"))
    if not is_req:
        out["kskPolicy"] = et_policy(one(pol, "KSK"))
    bundles = []
    bl = inner.findall("RequestBundle" if is_req else "ResponseBundle")
    if not bl:
        raise SchemaError("no bundles")
    for b in bl:
        keys = [et_key(k) for k in b.findall("Key")]
        sigs = [et_sig(s) for s in b.findall("Signature")]
        if not keys or not sigs:
            raise SchemaError("bundle needs key+ and signature+")
        signers = [attr(s, "keyIdentifier") for s in b.findall("Signer")] if is_req else None
        bundles.append(
            {
                "id": attr(b, "id"),
                "inception": xsd_datetime_us(one(b, "Inception").text),
                "expiration": xsd_datetime_us(one(b, "Expiration").text),
                "keys": keys,
                "signatures": sigs,
                "signers": (signers or None) if is_req else None,
            }
        )
    out["bundles"] = bundles
    return canon_obj(out)


def unordered(j: Any) -> Any:
    """the same data with the bundle list as a multiset"""
    if not isinstance(j, dict) or "bundles" not in j:
        return j
    j = dict(j)
    j["bundles"] = sorted(j["bundles"], key=lambda b: json.dumps(b, sort_keys=True))
    return j


# --------------------------------------------------------------------------------------
# the run
# --------------------------------------------------------------------------------------


def features_of(doc: dict[str, Any]) -> set[str]:
    """risky shapes actually present in the data (independent of how the document was asked for)"""
    f = set()
    if doc["kind"] == "request" and any(b["signers"] is not None and len(b["signers"]) == 1 for b in doc["bundles"]):
        f.add("one-signer")
    if doc["kind"] == "response" and len(doc["bundles"]) == 1:
        f.add("one-response-bundle")
    if doc["timestamp"] is not None:
        f.add("timestamp")
    exps = [b["expiration"] for b in doc["bundles"]]
    if len(set(exps)) != len(exps):
        f.add("equal-expiration")
    if len({(b["expiration"], b["inception"]) for b in doc["bundles"]}) != len(exps):
        f.discard("equal-expiration")
        f.add("equal-times")
    return f


def run(tier: str, driver_ok: bool) -> Result:
    res = Result("C12")
    res.rule = (
        "grammar-based documents over schema/ksr.rnc (requests and responses; 1..9 bundles, 1..3 keys, 1..3 signatures, 0/2/3 signers, 1..3 algorithms RSA+ECDSA) x random layouts "
        "(inter-element whitespace incl. none/tabs/CRLF, spaces+tabs in start tags, attribute order, 4 empty-element forms, padded collapsible texts, 6 prologs); canonical layout; "
        "every single-node sibling permutation and whole-tree shuffles of small documents; one risky feature per document in dedicated streams; "
        "a case is non-trivial when its text is new"
    )
    r = lib.rng("C12")
    quick = tier == "quick"
    cases: list[dict[str, Any]] = []

    def add(stream: str, doc: dict[str, Any], text: str, feature: str | None = None, base: int | None = None, label: str = "") -> int:
        cases.append({"stream": stream, "kind": doc["kind"], "doc": doc, "text": text, "feature": feature, "base": base, "label": label})
        return len(cases) - 1

    # 1. random documents x random layouts
    for i in range(3600 if quick else 30000):
        kind = "request" if i % 5 < 3 else "response"
        doc = xmlgen.gen_doc(r, kind, rich_ids=(i % 7 == 0), small=(i % 3 != 0))
        tree = xmlgen.to_tree(doc, r)
        add("random-layout", doc, xmlgen.render(tree, xmlgen.Layout(r)))
    # 2. canonical layout
    for i in range(300 if quick else 3000):
        kind = "request" if i % 2 else "response"
        doc = xmlgen.gen_doc(r, kind, small=(i % 2 == 0))
        add("canonical-layout", doc, xmlgen.render(xmlgen.to_tree(doc, r), xmlgen.canonical_layout(r)))
    # 3. sibling permutations of small documents: every permutation of one node's children, and whole-tree shuffles
    for i in range(22 if quick else 200):
        kind = "request" if i % 2 == 0 else "response"
        doc = xmlgen.gen_doc(r, kind, nbundles=2 + i % 2, small=True)
        tree = xmlgen.to_tree(doc, r)
        seed = r.getrandbits(32)
        base = add("permutation-base", doc, xmlgen.render(tree, xmlgen.Layout(random.Random(seed), permute_attrs=False)))
        for label, t2 in xmlgen.all_sibling_permutations(tree, max_children=4, limit=70 if quick else 150):
            feat = "response-bundle-permutation" if kind == "response" and label.startswith("Response:") else None
            add("permutation", doc, xmlgen.render(t2, xmlgen.Layout(random.Random(seed), permute_attrs=False)), feature=feat, base=base, label=label)
        for k in range(6):
            # whole-tree shuffles keep the bundle order of responses (their order is reported on its own, above)
            t2 = xmlgen.shuffle_all(tree, r)
            if kind == "response":
                inner = t2.children[0]
                order = [b["id"] for b in doc["bundles"]]
                bs = sorted([c for c in inner.children if c.name == "ResponseBundle"], key=lambda c: order.index(dict(c.attrs)["id"]))
                it = iter(bs)
                inner.children = [next(it) if c.name == "ResponseBundle" else c for c in inner.children]
            add("permutation", doc, xmlgen.render(t2, xmlgen.Layout(r)), base=base, label=f"shuffle-all-{k}")
    # 4. risky features, one per document
    nf = 40 if quick else 300
    for i in range(nf):
        doc = xmlgen.gen_doc(r, "request", feature="one-signer", small=True)
        add("feature", doc, xmlgen.render(xmlgen.to_tree(doc, r), xmlgen.Layout(r)), feature="one-signer")
        doc = xmlgen.gen_doc(r, "response", feature="one-response-bundle", small=True)
        add("feature", doc, xmlgen.render(xmlgen.to_tree(doc, r), xmlgen.Layout(r)), feature="one-response-bundle")
        kind = "request" if i % 2 == 0 else "response"
        doc = xmlgen.gen_doc(r, kind, feature="timestamp", small=True)
        add("feature", doc, xmlgen.render(xmlgen.to_tree(doc, r), xmlgen.Layout(r)), feature="timestamp")
        # equal expirations: the same document with the two tied bundles in either order
        doc = xmlgen.gen_doc(r, "request" if i % 4 else "response", nbundles=2 + i % 3, feature="equal-expiration" if i % 2 else "equal-times", small=True, rich_ids=(i % 3 == 0))
        tree = xmlgen.to_tree(doc, r)
        seed = r.getrandbits(32)
        base = add("feature", doc, xmlgen.render(tree, xmlgen.Layout(random.Random(seed), permute_attrs=False)), feature="equal-expiration")
        t2 = tree.copy()
        inner = t2.children[0]
        idx = [j for j, c in enumerate(inner.children) if c.name in ("RequestBundle", "ResponseBundle")]
        inner.children[idx[0]], inner.children[idx[1]] = inner.children[idx[1]], inner.children[idx[0]]
        add("feature", doc, xmlgen.render(t2, xmlgen.Layout(random.Random(seed), permute_attrs=False)), feature="equal-expiration", base=base, label="tied-bundles-swapped")
        if i < nf // 2:
            kind = "request" if i % 2 == 0 else "response"
            doc = xmlgen.gen_doc(r, kind, small=True)
            tree = xmlgen.to_tree(doc, r)
            add("feature", doc, xmlgen.render(tree, xmlgen.Layout(r, space_in_attrless_start_tag=0.15)), feature="space-in-attrless-start-tag")
            doc = xmlgen.gen_doc(r, kind, small=True)
            which = r.choice(["id", "bundle", "key"])
            if which == "id":
                doc["id"] = "a>b" + doc["id"]
            elif which == "bundle":
                doc["bundles"][0]["id"] = "x>" + doc["bundles"][0]["id"]
            else:
                old = doc["bundles"][0]["keys"][0]["keyIdentifier"]
                for b in doc["bundles"]:
                    for k in b["keys"]:
                        if k["keyIdentifier"] == old:
                            k["keyIdentifier"] = ">" + old
                    for s in b["signatures"]:
                        if s["keyIdentifier"] == old:
                            s["keyIdentifier"] = ">" + old
            add("feature", doc, xmlgen.render(xmlgen.to_tree(doc, r), xmlgen.Layout(r)), feature="gt-in-attribute-value")

    # 0. corpus: minimised documents of the recorded findings (and their baseline), judged like the rest
    corpus: list[dict[str, Any]] = []
    for f in sorted((lib.VERIF / "corpus").glob("C12_*.json")):
        corpus += json.loads(f.read_text())

    # --- the three readings
    op = {"request": "request_from_xml", "response": "response_from_xml"}
    model = drive([{"op": op[c["kind"]], "s": hx(c["text"])} for c in cases]) if driver_ok else [None] * len(cases)
    tasks = []
    for c, m in zip(cases, model):
        tasks.append(({"kind": op[c["kind"]], "text": c["text"]}, HANG_CONFIRM_BUDGET * 2 if m == "hang" else BUDGET))
    ctasks = []
    for e in corpus:
        ctasks.append(({"kind": e["kind"], "text": e["text"]}, BUDGET))
        if e.get("permuted"):
            ctasks.append(({"kind": e["kind"], "text": e["permuted"]}, BUDGET))
    with WatchdogPool(min(16, os.cpu_count() or 4)) as pool:
        couts = pool.run(ctasks)
        outs = pool.run(tasks)
        res.stats["worker_restarts"] = pool.restarts
    # corpus verdicts
    ci = 0
    for e in corpus:
        o = couts[ci]
        ci += 1
        impl = o.get("outcome") if not (o.get("timeout") or o.get("died")) else {"hang": True}
        case = {"stream": "corpus", "kind": e["kind"], "feature": e["key"], "label": "", "text": e["text"]}
        res.count(e["text"])
        res.bump("stream:corpus")
        try:
            std = {"ok": et_extract(e["text"])}
        except (SchemaError, ET.ParseError) as exc:
            std = {"error": f"{type(exc).__name__}: {exc}"}
        if not (isinstance(impl, dict) and "ok" in impl) or unordered(impl["ok"]) != unordered(std.get("ok")):
            res.violation(WHAT, case, key=e["key"], impl=_short(impl), expected=_short(std))
        if e.get("permuted"):
            o2 = couts[ci]
            ci += 1
            impl2 = o2.get("outcome")
            if impl2 != impl:
                res.violation(WHAT, dict(case, text=e["permuted"], label="siblings permuted"), key=e["key"], impl=_short(impl2), impl_on_unpermuted=_short(impl), note="result depends on the document order of siblings", unpermuted_text=e["text"])
    impls: list[Any] = []
    for c, o, m in zip(cases, outs, model):
        impl = o.get("outcome") if not (o.get("timeout") or o.get("died")) else {"hang": True}
        impls.append(impl)

    for i, (c, impl, m) in enumerate(zip(cases, impls, model)):
        doc = c["doc"]
        feats = features_of(doc)
        if c["feature"] in ("space-in-attrless-start-tag", "gt-in-attribute-value", "response-bundle-permutation"):
            feats.add(c["feature"])
        # attribution: a shape that is a recorded finding names the key on its own; the repaired shapes
        # (one signer, one response bundle, tied bundles, permuted response bundles) only when no such is present
        open_feats = feats & {"timestamp", "space-in-attrless-start-tag", "gt-in-attribute-value"}
        named = open_feats or feats
        key = "+".join(sorted(FEATURE_KEY[f] for f in named)) if named else f"none:{c['stream']}"
        if "timestamp" in feats and doc["kind"] == "response":
            key = key.replace("timestamp-on-request", "timestamp-on-response")
        case = {"stream": c["stream"], "kind": op[c["kind"]], "feature": c["feature"], "label": c["label"], "text": c["text"]}
        res.count(c["text"])
        res.bump("stream:" + c["stream"])
        res.bump("kind:" + c["kind"])
        res.bump(f"bundles:{len(doc['bundles'])}")
        for f in feats:
            res.bump("feature:" + f)
        # the standard parser's reading, and the harness self-test: it must be what the generator put in
        try:
            std: Any = {"ok": et_extract(c["text"])}
        except (SchemaError, ET.ParseError) as exc:
            std = {"error": f"{type(exc).__name__}: {exc}"}
        want = {"ok": canon_obj(xmlgen.expected_j(doc))}
        if unordered(std.get("ok")) != unordered(want["ok"]) or (c["base"] is None and c["stream"] != "feature" and std != want):
            res.disagreement("harness self-test: ElementTree extractor != what the generator wrote", case, _short(std), _short(want))
            continue
        # 1. implementation vs standard parser (bundle order aside)
        differs = False
        if impl == {"hang": True}:
            differs = True
            res.bump("impl:hang")
            res.violation(WHAT, case, key=key, impl="does not terminate within the budget", expected=_short(std))
        elif not (isinstance(impl, dict) and "ok" in impl):
            differs = True
            res.bump("impl:error")
            res.violation(WHAT, case, key=key, impl=impl, expected=_short(std))
        elif unordered(impl["ok"]) != unordered(std["ok"]):
            differs = True
            res.bump("impl:different-data")
            res.violation(WHAT, case, key=key, impl=_short(impl), expected=_short(std))
        else:
            res.bump("impl:agrees")
            # chronological ordering of request bundles (the fourth mechanism of the property's anchors)
            ex = [b["expiration"] for b in impl["ok"]["bundles"]]
            if doc["kind"] == "request" and ex != sorted(ex):
                res.violation(WHAT, case, key="request-bundles-not-chronological", impl=ex)
        # 2. order independence: the same data with siblings permuted must give the same result
        if c["base"] is not None and not differs:
            b_impl = impls[c["base"]]
            if isinstance(b_impl, dict) and "ok" in b_impl and impl != b_impl:
                res.bump("impl:order-dependent")
                res.violation(WHAT, case, key=key if feats else "order:" + c["label"].split(":")[0], impl=_short(impl), impl_on_unpermuted=_short(b_impl), note="result depends on the document order of siblings", unpermuted_text=cases[c["base"]]["text"])
            else:
                res.bump("impl:order-independent")
        # 3. the tie
        if m is None:
            continue
        if m == "hang":
            if impl != {"hang": True}:
                res.disagreement("model predicts non-termination, implementation terminated", case, _short(impl), m)
            continue
        if impl == {"hang": True}:
            res.disagreement("implementation overran the budget, model terminates", case, impl, _short(m))
            continue
        if lib.is_unsupported(m):
            res.unsupported += 1
            continue
        mc = canon_outcome(m)
        if not same_outcome(impl, mc):
            res.disagreement("model != implementation", case, _short(impl), _short(mc))
        elif impl != mc:
            res.soft_error_kind_mismatch += 1
        if len(res.samples) < 4 and c["stream"] == "random-layout" and r.random() < 0.01:
            res.sample({"stream": c["stream"], "input": c["text"][:400], "impl==model": impl == mc, "impl==ElementTree": not differs})
    if driver_ok:
        regex_diff.run(res, "quick", "C12-regex")
    return res


def replay(obj: dict[str, Any]) -> Any:
    v = obj.get("violation") or obj.get("disagreement") or {}
    c = v.get("case") or {}
    out: dict[str, Any] = {"recorded": {k: _short(v.get(k)) for k in ("what", "key", "impl", "expected", "model", "note")}}
    if "text" not in c:
        return out
    out["text"] = c["text"] if len(c["text"]) < 3000 else c["text"][:3000] + "..."
    out["model_now"] = _short(canon_outcome(drive([{"op": c["kind"], "s": hx(c["text"])}])[0]))
    with WatchdogPool(1) as pool:
        o = pool.run([({"kind": c["kind"], "text": c["text"]}, BUDGET)])[0]
    out["implementation_now"] = _short(o.get("outcome", o))
    try:
        out["standard_parser_now"] = _short(et_extract(c["text"]))
    except Exception as exc:  # noqa: BLE001
        out["standard_parser_now"] = f"{type(exc).__name__}: {exc}"
    return out
