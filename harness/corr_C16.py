"""C16 correspondence: configuration loading — implementation vs. Lean model vs. the property's own oracle.

Streams (all judged three ways: real `KSKMConfig.from_dict` / `from_yaml`, the model driver, and `Oracle`
below, which is written from the property text and the comments of config/ksrsigner.yaml, not from the code):
  example   the example file with each option in turn deleted / retyped (null, bool, int, negative int,
            float, string, list, map) / misspelled / perturbed across its bound, and an unknown key added to
            every object at every nesting level (incl. a key definition, a schema slot, an hsm entry, hsm.env)
  duration  unparsable and exotic durations through both parsers (request_policy: pydantic's own;
            ksk_policy: the repository's duration_to_timedelta), plus the two parsers called directly
  scalar    pydantic's lax coercion table per field type (bool/int/str/timedelta/datetime/paths/…)
  random    random well-formed configurations, yaml.safe_dump -> KSKMConfig.from_yaml, every loaded value
            compared exactly (durations and datetimes in microseconds) with the generator's intent
  main      the real kskm.tools.ksrsigner.main() in subprocesses: exit statuses
  flags     single-flag-off policies x requests violating exactly one rule (builders of corr_C05)

impl violates the oracle -> failing input of the property (VIOLATION); impl != model -> broken tie.
"""

from __future__ import annotations

import copy
import datetime as dt
import io
import os
import re
import shutil
from pathlib import Path
from typing import Any, Iterator

import lib
import tables_config
from lib import DAY_US, Result, run_driver
from tables_config import canon

DRIVER = "kskm_driver_pkgf"

ASSUMPTIONS = [
    "yaml.safe_load is trusted: the model starts from the value tree PyYAML produced",
    "pydantic's validation semantics are modelled (coercion table established by experiment), not verified; strings the model does not cover are answered `unsupported` and judged by the oracle alone",
    "file existence (pydantic FilePath) is passed to the model as the list of existing paths",
    "exit statuses are observed on real subprocesses; what happens after a configuration is loaded is other properties' subject (no KSR is supplied, so status 0 is unreachable here)",
]
TRUSTED = ["PyYAML (safe_load / safe_dump)", "the documented-form oracle in corr_C16 (Oracle, DOC_*)"]

SCRATCH_TOKEN = "@SCRATCH@"
SEC = 10**6

# ------------------------------------------------------------------------------------------------
# documented forms (property text + comments of config/ksrsigner.yaml); independent of the code
# ------------------------------------------------------------------------------------------------

DOC_ALGORITHMS = {  # IANA DNSSEC algorithm numbers, by the names the tool documents
    "RSAMD5": 1, "DSA": 3, "RSASHA1": 5, "DSA_NSEC3_SHA1": 6, "RSASHA1_NSEC3_SHA1": 7, "RSASHA256": 8,
    "RSASHA512": 10, "ECC_GOST": 12, "ECDSAP256SHA256": 13, "ECDSAP384SHA384": 14, "ED25519": 15, "ED448": 16,
}  # fmt: skip

CHECK_FLAGS = [
    "validate_signatures", "keys_match_zsk_policy", "rsa_exponent_match_zsk_policy", "check_cycle_length",
    "check_bundle_overlap", "signature_algorithms_match_zsk_policy", "signature_validity_match_zsk_policy",
    "check_keys_match_ksk_operator_policy", "signature_check_expire_horizon", "check_bundle_intervals",
    "check_chain_keys", "check_chain_keys_in_hsm", "check_chain_overlap", "check_keys_publish_safety",
    "check_keys_retire_safety",
]  # fmt: skip

# option -> (kind, documented default).  kinds: bool | int(lo,hi) | duration | domain | str | keyname | hex | alg
# | datetime | file | path | pin | list(kind) | names(kind) (a key name or a list of key names)
DOC_REQUEST_POLICY: dict[str, tuple[Any, Any]] = {
    "acceptable_domains": (("list", "domain"), ["."]),
    "num_bundles": (("int", 1, None), 9),
    "enable_unsupported_ecdsa": ("bool", False),
    "enable_unsupported_edwards_dsa": ("bool", False),
    "min_cycle_inception_length": ("duration", {"td": 79 * DAY_US}),
    "max_cycle_inception_length": ("duration", {"td": 81 * DAY_US}),
    "min_bundle_interval": ("duration", {"td": 9 * DAY_US}),
    "max_bundle_interval": ("duration", {"td": 11 * DAY_US}),
    "approved_algorithms": (("list", "str"), ["RSASHA256"]),
    "rsa_approved_exponents": (("list", ("int", 1, None)), [65537]),
    "rsa_approved_key_sizes": (("list", ("int", 1, 65535)), [2048]),
    "num_keys_per_bundle": (("list", ("int", 1, None)), [2, 1, 1, 1, 1, 1, 1, 1, 2]),
    "num_different_keys_in_all_bundles": (("int", 1, None), 3),
    "dns_ttl": (("int", 0, None), 0),
    "signature_horizon_days": (("int", 1, None), 180),
}
for _f in CHECK_FLAGS:
    DOC_REQUEST_POLICY[_f] = ("bool", True)  # "every check on"
DOC_RESPONSE_POLICY = {"num_bundles": (("int", 1, None), 9), "validate_signatures": ("bool", True)}
DOC_KSK_POLICY = {
    "ttl": (("int", 0, None), 172800),
    "signers_name": ("domain", "."),
    "publish_safety": ("duration", {"td": 0}),
    "retire_safety": ("duration", {"td": 0}),
    "max_signature_validity": ("duration", {"td": 0}),
    "min_signature_validity": ("duration", {"td": 0}),
    "max_validity_overlap": ("duration", {"td": 0}),
    "min_validity_overlap": ("duration", {"td": 0}),
}
DOC_KEY = {
    "description": ("str", "REQUIRED"),
    "label": ("keyname", "REQUIRED"),
    "key_tag": (("int", 1, 65535), None),
    "algorithm": ("alg", "REQUIRED"),
    "valid_from": ("datetime", "REQUIRED"),
    "valid_until": ("datetime", None),
    "rsa_size": (("int", 1, 65535), None),
    "rsa_exponent": (("int", 1, None), None),
    "ds_sha256": ("hex", None),
    "hash_using_hsm": ("bool", None),
}
DOC_HSM = {"module": ("str", "REQUIRED"), "pin": ("pin", None), "so_pin": ("pin", None), "env": ("env", {})}
DOC_FILENAMES = {"previous_skr": ("file", None), "input_ksr": ("file", None), "output_skr": ("path", None), "output_trustanchor": ("path", None)}
DOC_ACTION = {"publish": ("names", "REQUIRED"), "sign": ("names", "REQUIRED"), "revoke": ("names", [])}
DOC_TOP = ["hsm", "filenames", "keys", "request_policy", "response_policy", "ksk_policy", "schemas"]

# names the loader itself uses after `_transform_config`; accepted when written directly, documented nowhere
UNDOCUMENTED_ALIASES = {("ksk_keys",), ("ksk_policy", "signature_policy")}

ISO_STRICT = re.compile(r"P(?:([0-9]{1,6})W)?(?:([0-9]{1,6})D)?(?:T(?:([0-9]{1,6})H)?(?:([0-9]{1,6})M)?(?:([0-9]{1,6})S)?)?")
GARBAGE_DURATIONS = ["X", "abc", "P1X", "PxD", "--", "P1D!", "1 fortnight", "D1P", "P1D P1D"]


def iso_wdhms(s: str) -> int | None:
    """ISO 8601 week/day/hour/minute/second durations, exactly: microseconds, or None if not of that form."""
    m = ISO_STRICT.fullmatch(s)
    if not m or all(g is None for g in m.groups()):
        return None
    if "T" in s and all(g is None for g in m.groups()[2:]):
        return None
    w, d, h, mi, sec = (int(g) if g is not None else 0 for g in m.groups())
    return ((w * 7 + d) * 86400 + h * 3600 + mi * 60 + sec) * SEC


def ascii_only(s: str) -> bool:
    return all(ord(c) < 128 for c in s)


def model_dicts() -> dict[tuple[str, ...], dict[str, tuple[Any, Any]]]:
    return {}


def spec_for(path: tuple[Any, ...]) -> tuple[str, Any]:
    """What the documentation says sits at `path` of a configuration file:
    ("model", table) an object with fixed options; ("names", None) a map of free names; ("slots", None) the
    int-keyed slots of a schema; ("env", None) the free-form map; ("leaf", (kind, default)); ("unknown", None)."""
    if path == ():
        return ("model", {k: (None, None) for k in DOC_TOP})
    head = path[0]
    if head in ("request_policy", "response_policy", "ksk_policy", "filenames"):
        table = {"request_policy": DOC_REQUEST_POLICY, "response_policy": DOC_RESPONSE_POLICY, "ksk_policy": DOC_KSK_POLICY, "filenames": DOC_FILENAMES}[head]
        if len(path) == 1:
            return ("model", table)
        if path[1] in table:
            return leaf_spec(table[path[1]], path[2:])
        return ("unknown", None)
    if head in ("hsm", "keys"):
        table = DOC_HSM if head == "hsm" else DOC_KEY
        if len(path) == 1:
            return ("names", None)
        if len(path) == 2:
            return ("model", table)
        if head == "hsm" and path[2] == "env":
            return ("env", None)
        if path[2] in table:
            return leaf_spec(table[path[2]], path[3:])
        return ("unknown", None)
    if head == "schemas":
        if len(path) == 1:
            return ("names", None)
        if len(path) == 2:
            return ("slots", None)
        if len(path) == 3:
            return ("model", DOC_ACTION)
        if path[3] in DOC_ACTION:
            return leaf_spec(DOC_ACTION[path[3]], path[4:])
        return ("unknown", None)
    return ("unknown", None)


def leaf_spec(entry: tuple[Any, Any], rest: tuple[Any, ...]) -> tuple[str, Any]:
    kind, default = entry
    if not rest:
        return ("leaf", (kind, default))
    if isinstance(kind, tuple) and kind[0] == "list" and len(rest) == 1 and isinstance(rest[0], int):
        return ("leaf", (kind[1], "ELEMENT"))
    if kind == "names" and len(rest) == 1 and isinstance(rest[0], int):
        return ("leaf", ("keyname", "ELEMENT"))
    return ("unknown", None)


def leaf_verdict(kind: Any, v: Any, files: set[str]) -> tuple[bool | None, Any]:
    """(documented?, expected loaded value).  True: of the documented form -> must load exactly as `expected`;
    False: violates a documented constraint / cannot be a value of this option -> must be rejected;
    None: a spelling the documentation does not speak about (pydantic may or may not coerce it): no demand."""
    if isinstance(kind, tuple) and kind[0] == "int":
        _, lo, hi = kind
        if isinstance(v, bool) or isinstance(v, float):
            return (None, None)
        if isinstance(v, int):
            ok = (lo is None or v >= lo) and (hi is None or v <= hi)
            return (ok, v)
        if isinstance(v, str):
            return (False, None) if (ascii_only(v) and not any(c.isdigit() for c in v)) else (None, None)
        return (False, None)
    if isinstance(kind, tuple) and kind[0] == "list":
        if not isinstance(v, list):
            return (False, None)
        out = []
        verdict: bool | None = True
        for x in v:
            ok, e = leaf_verdict(kind[1], x, files)
            if ok is False:
                return (False, None)
            if ok is None:
                verdict = None
            out.append(e)
        return (verdict, out)
    if kind == "bool":
        if isinstance(v, bool):
            return (True, v)
        if v is None or isinstance(v, (list, dict, dt.date)):
            return (False, None)
        if isinstance(v, str) and v.lower() not in ("0", "off", "f", "false", "n", "no", "1", "on", "t", "true", "y", "yes"):
            return (False, None)
        return (None, None)
    if kind == "duration":
        if isinstance(v, str):
            us = iso_wdhms(v)
            if us is not None:
                return (True, {"td": us})
            if v in GARBAGE_DURATIONS:
                return (False, None)
            return (None, None)
        if isinstance(v, (list, dict)) and v:
            return (False, None)
        return (None, None)
    if kind in ("domain", "keyname", "hex", "str"):
        if not isinstance(v, str):
            return (False, None)
        if kind == "str":
            return (True, v)
        if not ascii_only(v):
            return (None, None) if kind != "hex" else (False, None)
        pat = {"domain": r"[A-Za-z0-9_.]+", "keyname": r"[A-Za-z0-9_]+", "hex": r"[0-9a-fA-F]+"}[kind]
        return (re.fullmatch(pat, v) is not None, v)
    if kind == "alg":
        if isinstance(v, str):
            return (v in DOC_ALGORITHMS, DOC_ALGORITHMS.get(v))
        return (False, None)
    if kind == "datetime":
        if isinstance(v, dt.datetime):
            return (True, canon(v))
        if v is None or isinstance(v, (bool, list, dict)):
            return (False, None)
        if isinstance(v, str) and not any(c.isdigit() for c in v):
            return (False, None)
        return (None, None)
    if kind == "file":
        if isinstance(v, str):
            if v not in files:
                return (False, None)
            return (True, v) if str(Path(v)) == v else (None, None)
        return (True, None) if v is None else (False, None)
    if kind == "path":
        if isinstance(v, str):
            return (True, v) if (v and str(Path(v)) == v) else (None, None)
        return (True, None) if v is None else (False, None)
    if kind == "pin":
        if isinstance(v, bool) or isinstance(v, float):
            return (None, None)
        if v is None or isinstance(v, (str, int)):
            return (True, v)
        return (False, None)
    if kind == "names":
        if isinstance(v, str):
            ok, _ = leaf_verdict("keyname", v, files)
            return (ok, [v])
        return leaf_verdict(("list", "keyname"), v, files)
    if kind == "env":
        if isinstance(v, dict) and all(isinstance(k, str) for k in v):
            return (True, plain(canon(v)))
        return (False, None) if not isinstance(v, dict) else (None, None)
    return (None, None)


class Oracle:
    """The property evaluated on a configuration tree, without looking at the code.

    verdict(tree) -> ("reject", why) | ("accept", expected_loaded | None) | ("nodemand", why)
    """

    def __init__(self, files: set[str]) -> None:
        self.files = files

    def verdict(self, tree: Any) -> tuple[str, Any]:
        if not isinstance(tree, dict):
            return ("nodemand", "top level is not a mapping")
        state = {"reject": None, "nodemand": None}
        self._walk(tree, (), state)
        if state["reject"]:
            return ("reject", state["reject"])
        if state["nodemand"]:
            return ("nodemand", state["nodemand"])
        return ("accept", self.expected(tree))

    def _walk(self, v: Any, path: tuple[Any, ...], st: dict[str, Any]) -> None:
        sh = SHARED
        if sh is not None and isinstance(v, (dict, list)) and id(v) in sh.ids:
            key = (path, id(v))
            if key not in sh.walk:
                sub = {"reject": None, "nodemand": None}
                self._walk1(v, path, sub)
                sh.walk[key] = (sub["reject"], sub["nodemand"])
            rj, nd = sh.walk[key]
            st["reject"] = st["reject"] or rj
            st["nodemand"] = st["nodemand"] or nd
            return
        self._walk1(v, path, st)

    def _walk1(self, v: Any, path: tuple[Any, ...], st: dict[str, Any]) -> None:
        what, info = spec_for(path)
        if what == "model":
            if not isinstance(v, dict):
                st["reject"] = st["reject"] or f"{fmt_path(path)}: an options object is required"
                return
            for k, x in v.items():
                if (path + (k,)) in UNDOCUMENTED_ALIASES:
                    st["nodemand"] = st["nodemand"] or f"{fmt_path(path + (k,))}: the loader's internal name (undocumented alias)"
                elif k not in info:
                    st["reject"] = st["reject"] or f"unknown option {fmt_path(path + (k,))}"
                else:
                    self._walk(x, path + (k,), st)
            for k, (kind, default) in info.items():
                if default == "REQUIRED" and k not in v:
                    st["reject"] = st["reject"] or f"required option {fmt_path(path + (k,))} is missing"
        elif what == "names":
            if not isinstance(v, dict):
                st["reject"] = st["reject"] or f"{fmt_path(path)}: a mapping of names is required"
                return
            for k, x in v.items():
                if not isinstance(k, str):
                    st["nodemand"] = st["nodemand"] or f"{fmt_path(path)}: non-string name"
                self._walk(x, path + (k,), st)
        elif what == "slots":
            if not isinstance(v, dict):
                st["reject"] = st["reject"] or f"{fmt_path(path)}: a mapping of slots is required"
                return
            for k, x in v.items():
                if isinstance(k, bool) or not isinstance(k, int):
                    if isinstance(k, str) and ascii_only(k) and not any(c.isdigit() for c in k):
                        st["reject"] = st["reject"] or f"{fmt_path(path)}: slot {k!r} is not a number"
                    else:
                        st["nodemand"] = st["nodemand"] or f"{fmt_path(path)}: slot spelled {k!r}"
                self._walk(x, path + (k,), st)
        elif what == "env":
            ok, _ = leaf_verdict("env", v, self.files)
            if ok is False:
                st["reject"] = st["reject"] or f"{fmt_path(path)}: env must be a mapping"
            elif ok is None:
                st["nodemand"] = st["nodemand"] or f"{fmt_path(path)}: env with non-string names"
        elif what == "leaf":
            kind, default = info
            ok, _ = leaf_verdict(kind, v, self.files)
            if v is None and default is None:
                ok = True  # an optional option left empty
            if ok is False:
                st["reject"] = st["reject"] or f"{fmt_path(path)} = {short(v)} violates the documented form ({kind})"
            elif ok is None:
                st["nodemand"] = st["nodemand"] or f"{fmt_path(path)} = {short(v)}: undocumented spelling"
        else:
            st["nodemand"] = st["nodemand"] or f"{fmt_path(path)}: outside the documented structure"

    # ---- the expected loaded configuration of a well-formed tree (every leaf of a documented form) ----
    def _section(self, table: dict[str, tuple[Any, Any]], given: dict[str, Any]) -> list[list[Any]]:
        out = []
        for k, (kind, default) in table.items():
            if k in given:
                if self.identity:
                    out.append([k, given[k]])
                else:
                    out.append([k, None if (given[k] is None and default is None) else leaf_verdict(kind, given[k], self.files)[1]])
            else:
                out.append([k, default])
        return out

    identity = False

    def expected(self, tree: dict[str, Any]) -> dict[str, Any]:
        exp: dict[str, Any] = {}
        exp["hsm"] = {n: dict(self._section(DOC_HSM, h)) for n, h in tree.get("hsm", {}).items()}
        exp["ksk_keys"] = {n: dict(self._section(DOC_KEY, k)) for n, k in tree.get("keys", {}).items()}
        kp = dict(self._section(DOC_KSK_POLICY, tree.get("ksk_policy", {})))
        exp["ksk_policy"] = {
            "ttl": kp.pop("ttl"),
            "signers_name": kp.pop("signers_name"),
            "signature_policy": dict(kp, algorithms=[]),
        }
        rp = dict(self._section(DOC_REQUEST_POLICY, tree.get("request_policy", {})))
        if rp["dns_ttl"] == 0:
            # "if this is 0 the config value ksk_policy.ttl will be used instead": demanded when the file states both
            if "ksk_policy" in tree and "ttl" in tree["ksk_policy"] and "dns_ttl" in tree.get("request_policy", {}):
                rp["dns_ttl"] = exp["ksk_policy"]["ttl"]
            else:
                rp["dns_ttl"] = "NODEMAND"
        exp["request_policy"] = rp
        exp["response_policy"] = dict(self._section(DOC_RESPONSE_POLICY, tree.get("response_policy", {})))
        exp["filenames"] = dict(self._section(DOC_FILENAMES, tree.get("filenames", {})))
        exp["schemas"] = {n: {slot: dict(self._section(DOC_ACTION, a)) for slot, a in s.items()} for n, s in tree.get("schemas", {}).items()}
        return exp


class Intent(Oracle):
    """fills the documented defaults around a tree whose leaves already are the intended loaded values"""

    identity = True


def fmt_path(path: tuple[Any, ...]) -> str:
    return ".".join(str(p) for p in path) or "<top>"


def short(v: Any) -> str:
    s = repr(v)
    return s if len(s) < 60 else s[:57] + "..."


def plain(j: Any) -> Any:
    """canonical transport form -> plain nested dicts (maps as dicts) for path-wise comparison"""
    if isinstance(j, list):
        return [plain(x) for x in j]
    if isinstance(j, dict) and "map" in j:
        return {(k if not isinstance(k, (dict, list)) else repr(k)): plain(v) for k, v in j["map"]}
    if isinstance(j, dict) and "f" in j:
        return {"f": j["f"]}
    return j


def diff_expected(exp: Any, got: Any, path: str = "") -> str | None:
    """first difference between the oracle's expected loaded value and the observed one (None = equal)"""
    if exp == "NODEMAND":
        return None
    if isinstance(exp, dict) and not ("td" in exp or "ts" in exp or "f" in exp or "date" in exp):
        if not isinstance(got, dict):
            return f"{path}: expected an object, loaded {short(got)}"
        if set(exp) != set(got):
            return f"{path}: options differ: expected {sorted(map(str, exp))}, loaded {sorted(map(str, got))}"
        for k in exp:
            d = diff_expected(exp[k], got[k], f"{path}.{k}" if path else str(k))
            if d:
                return d
        return None
    if isinstance(exp, list):
        if not isinstance(got, list) or len(exp) != len(got):
            return f"{path}: expected {short(exp)}, loaded {short(got)}"
        for i, (a, b) in enumerate(zip(exp, got)):
            d = diff_expected(a, b, f"{path}[{i}]")
            if d:
                return d
        return None
    if type(exp) is not type(got) or exp != got:
        return f"{path}: expected {short(exp)}, loaded {short(got)}"
    return None


# ------------------------------------------------------------------------------------------------
# running the implementation and the model
# ------------------------------------------------------------------------------------------------


def uncanon(j: Any, scratch: str) -> Any:
    """transport form -> Python value (for replays); SCRATCH_TOKEN in strings is replaced"""
    if isinstance(j, str):
        return j.replace(SCRATCH_TOKEN, scratch)
    if isinstance(j, list):
        return [uncanon(x, scratch) for x in j]
    if isinstance(j, dict):
        if "map" in j:
            out = {}
            for k, v in j["map"]:
                kk = uncanon(k, scratch)
                out[tuple(kk) if isinstance(kk, list) else kk] = uncanon(v, scratch)
            return out
        if "f" in j:
            return float(j.get("r", j["f"][0] if j["f"][0] is not None else "nan"))
        if "td" in j:
            return dt.timedelta(microseconds=j["td"])
        if "date" in j:
            return dt.date(1970, 1, 1) + dt.timedelta(days=j["date"])
        if "ts" in j:
            us, off = j["ts"]
            base = dt.datetime(1970, 1, 1) + dt.timedelta(microseconds=us)
            if off is None:
                return base
            tz = dt.timezone(dt.timedelta(seconds=off))
            return (base.replace(tzinfo=dt.timezone.utc)).astimezone(tz)
    return j


def tokenise(j: Any, scratch: str) -> Any:
    """replace the scratch directory by SCRATCH_TOKEN in a transport value (stable replays)"""
    if isinstance(j, str):
        return j.replace(scratch, SCRATCH_TOKEN)
    if isinstance(j, list):
        return [tokenise(x, scratch) for x in j]
    if isinstance(j, dict):
        return {k: tokenise(v, scratch) for k, v in j.items()}
    return j


def strings_in(v: Any) -> Iterator[str]:
    if isinstance(v, str):
        yield v
    elif isinstance(v, dict):
        for k, x in v.items():
            yield from strings_in(k)
            yield from strings_in(x)
    elif isinstance(v, (list, tuple)):
        for x in v:
            yield from strings_in(x)


_IS_FILE: dict[str, bool] = {}


def is_file(s: str) -> bool:
    if s not in _IS_FILE:
        try:
            _IS_FILE[s] = "\x00" not in s and ("/" in s or len(s) < 64) and Path(s).is_file()
        except (OSError, ValueError):
            _IS_FILE[s] = False
    return _IS_FILE[s]


def existing_files(tree: Any) -> list[str]:
    return sorted(s for s in set(strings_in(tree)) if is_file(s))


def error_class(exc: BaseException) -> str:
    import pydantic

    if type(exc).__name__ == "ConfigurationError":
        return "configuration"
    if isinstance(exc, pydantic.ValidationError):
        return "validation"
    return lib.error_kind(exc)


def load_impl(tree: Any, via_yaml: str | None = None) -> dict[str, Any]:
    """KSKMConfig.from_dict(tree) (or from_yaml(text)) -> {"ok": canonical loaded} | {"error": class}"""
    from kskm.common.config import KSKMConfig

    try:
        if via_yaml is not None:
            loaded = KSKMConfig.from_yaml(io.StringIO(via_yaml))
        else:
            loaded = KSKMConfig.from_dict(copy.deepcopy(tree))
    except (KeyboardInterrupt, SystemExit):
        raise
    except BaseException as exc:  # noqa: BLE001
        return {"error": error_class(exc)}
    return {"ok": canon(loaded)}


def coarse(o: Any) -> str:
    """outcome class at the level the exit status depends on"""
    if o == "unsupported":
        return "unsupported"
    if "ok" in o:
        return "ok"
    e = o.get("error")
    return e if e in ("configuration", "validation") else "other"


def same_load(impl: Any, model: Any) -> bool:
    if coarse(impl) != coarse(model):
        return False
    if "ok" in impl:
        return impl["ok"] == model["ok"]
    return True


# ------------------------------------------------------------------------------------------------
# stream: the example file, each option in turn
# ------------------------------------------------------------------------------------------------

RETYPES: list[tuple[str, Any]] = [
    ("null", None), ("true", True), ("false", False), ("int0", 0), ("int7", 7), ("negint", -3), ("float", 2.5),
    ("float-integral", 3.0), ("string", "abc"), ("empty-string", ""), ("numeric-string", "12"), ("list", []),
    ("list1", ["x"]), ("map", {}), ("map1", {"a": 1}),
]  # fmt: skip
BOUNDS = [0, -1, 1, 2, 65535, 65536, 2**31 - 1, 2**31, 2**63, 2**64]
STRMODS = [("nl", lambda s: s + "\n"), ("dash", lambda s: s + "-"), ("space", lambda s: s + " "), ("lead-space", lambda s: " " + s),
           ("dot", lambda s: s + "."), ("empty", lambda s: ""), ("nonascii", lambda s: s + "é"), ("nul", lambda s: s + "\x00")]  # fmt: skip


def example_base(scratch: Path) -> dict[str, Any]:
    import yaml

    base = yaml.safe_load((lib.REPO / "config" / "ksrsigner.yaml").read_text())
    base["filenames"]["previous_skr"] = str(scratch / "prev-skr.xml")
    base["filenames"]["input_ksr"] = str(scratch / "ksr.xml")
    return base


def walk_paths(v: Any, path: tuple[Any, ...] = ()) -> Iterator[tuple[tuple[Any, ...], Any]]:
    yield path, v
    if isinstance(v, dict):
        for k, x in v.items():
            yield from walk_paths(x, path + (k,))
    elif isinstance(v, list):
        for i, x in enumerate(v):
            yield from walk_paths(x, path + (i,))


def get_at(tree: Any, path: tuple[Any, ...]) -> Any:
    for p in path:
        tree = tree[p]
    return tree


def mutated(base: Any, path: tuple[Any, ...], fn: Any) -> Any:
    """copy of `base` with fn(parent, key) applied at `path`; containers along the path are copied, everything
    else is SHARED with `base` (nothing downstream mutates a tree: load_impl deep-copies)"""
    if not path:
        return fn(None, None, copy.copy(base))
    t = copy.copy(base)
    node = t
    for p in path[:-1]:
        child = copy.copy(node[p])
        node[p] = child
        node = child
    fn(node, path[-1], t)
    return t


class Shared:
    """memo tables for the nodes of the (never mutated) base tree, which mutated trees share"""

    def __init__(self, base: Any) -> None:
        self.base = base
        self.ids: set[int] = set()
        self.canon: dict[int, Any] = {}
        self.strings: dict[int, frozenset[str]] = {}
        self.walk: dict[tuple[tuple[Any, ...], int], tuple[Any, Any]] = {}
        for _, v in walk_paths(base):
            if isinstance(v, (dict, list)):
                self.ids.add(id(v))

    def canon_of(self, v: Any) -> Any:
        if isinstance(v, dict):
            if id(v) in self.ids:
                if id(v) not in self.canon:
                    self.canon[id(v)] = {"map": [[self.canon_of(k), self.canon_of(x)] for k, x in v.items()]}
                return self.canon[id(v)]
            return {"map": [[self.canon_of(k), self.canon_of(x)] for k, x in v.items()]}
        if isinstance(v, list):
            if id(v) in self.ids:
                if id(v) not in self.canon:
                    self.canon[id(v)] = [self.canon_of(x) for x in v]
                return self.canon[id(v)]
            return [self.canon_of(x) for x in v]
        return canon(v)

    def strings_of(self, v: Any) -> frozenset[str]:
        if isinstance(v, str):
            return frozenset([v])
        if isinstance(v, (dict, list)):
            known = id(v) in self.ids
            if known and id(v) in self.strings:
                return self.strings[id(v)]
            acc: set[str] = set()
            if isinstance(v, dict):
                for k, x in v.items():
                    acc |= self.strings_of(k)
                    acc |= self.strings_of(x)
            else:
                for x in v:
                    acc |= self.strings_of(x)
            out = frozenset(acc)
            if known:
                self.strings[id(v)] = out
            return out
        return frozenset()


SHARED: Shared | None = None


def rename_key(parent: dict[Any, Any], old: Any, new: Any) -> None:
    items = [(new if k == old else k, v) for k, v in parent.items()]
    parent.clear()
    parent.update(items)


def example_cases(base: dict[str, Any], tier: str, r: Any) -> Iterator[dict[str, Any]]:
    schema_names = list(base["schemas"])
    full_schemas = set(schema_names) if tier == "thorough" else {"normal", "revoke"}
    yield {"stream": "example", "tag": "unchanged", "tree": base}
    for path, v in walk_paths(base):
        if path and path[0] == "schemas" and len(path) >= 2 and path[1] not in full_schemas:
            # the other schemas: a sample of their options
            if len(path) > 2 and r.random() > 0.06:
                continue
        what, info = spec_for(path)
        p = fmt_path(path)
        if path:
            def _del(parent: Any, key: Any, t: Any) -> None:
                del parent[key]
            yield {"stream": "example", "tag": f"delete:{p}", "tree": mutated(base, path, _del), "path": path, "mutation": "delete"}
            for name, val in RETYPES:
                if type(val) is type(v) and val == v:
                    continue
                def _set(parent: Any, key: Any, t: Any, val: Any = val) -> None:
                    parent[key] = copy.deepcopy(val)
                yield {"stream": "example", "tag": f"retype:{name}:{p}", "tree": mutated(base, path, _set), "path": path, "mutation": "retype"}
            parent = get_at(base, path[:-1])
            if isinstance(parent, dict):
                for suffix in (["_x"] if tier == "quick" else ["_x", "s", " "]):
                    key = path[-1]
                    new = (str(key) + suffix) if isinstance(key, str) else f"{key}x"
                    def _ren(parent: Any, key: Any, t: Any, new: Any = new) -> None:
                        rename_key(parent, key, new)
                    yield {"stream": "example", "tag": f"misspell:{p}->{new}", "tree": mutated(base, path, _ren), "path": path, "mutation": "misspell"}
        if isinstance(v, dict):
            for newkey, newval in [("bogus_option", 1), ("Bogus", None), ("num_bundles ", 9), (7, 7)]:
                if newkey in v:
                    continue
                def _add(parent: Any, key: Any, t: Any, path: Any = path, newkey: Any = newkey, newval: Any = newval) -> Any:
                    get_at(t, path)[newkey] = newval
                    return t
                def _addk(parent: Any, key: Any, t: Any, newkey: Any = newkey, newval: Any = newval) -> Any:
                    if parent is None:
                        t[newkey] = newval
                        return t
                    node = copy.copy(parent[key])
                    node[newkey] = newval
                    parent[key] = node
                    return t
                tree = mutated(base, path, _addk)
                yield {"stream": "example", "tag": f"unknown:{p}+{newkey!r}", "tree": tree, "path": path, "mutation": "unknown"}
        if isinstance(v, int) and not isinstance(v, bool):
            for b in BOUNDS:
                if b == v:
                    continue
                def _setb(parent: Any, key: Any, t: Any, b: int = b) -> None:
                    parent[key] = b
                yield {"stream": "example", "tag": f"bound:{b}:{p}", "tree": mutated(base, path, _setb), "path": path, "mutation": "bound"}
        if isinstance(v, str):
            for name, f in STRMODS:
                nv = f(v)
                if nv == v:
                    continue
                def _sets(parent: Any, key: Any, t: Any, nv: str = nv) -> None:
                    parent[key] = nv
                yield {"stream": "example", "tag": f"strmod:{name}:{p}", "tree": mutated(base, path, _sets), "path": path, "mutation": "strmod"}
    # options the example file does not spell out, added with their boundary values
    extras: list[tuple[tuple[Any, ...], Any]] = []
    for opt, (kind, default) in DOC_REQUEST_POLICY.items():
        if opt not in base["request_policy"]:
            vals = [True, False, None, 0, "abc"] if kind == "bool" else [0, 1, -1, None, "abc"]
            extras += [(("request_policy", opt), x) for x in vals]
    for opt in ("valid_until", "hash_using_hsm", "rsa_size", "key_tag"):
        extras += [(("keys", "ksk_next", opt), x) for x in (None, 0, 1, 65535, 65536, True, "abc", dt.datetime(2030, 1, 1, tzinfo=dt.timezone.utc), dt.date(2030, 1, 1))]
    extras += [(("filenames", "output_trustanchor"), x) for x in ("ta.xml", "a//b", "", None, 5)]
    extras += [(("filenames", "input_ksr"), x) for x in ("does-not-exist.xml", str(Path(base["filenames"]["input_ksr"]).parent), None)]
    extras += [(("ksk_policy", "signature_policy"), x) for x in ({}, None, {"publish_safety": "P1D"}, [])]
    extras += [(("ksk_policy", "algorithms"), x) for x in ("P1D", None, [])]
    extras += [(("ksk_keys",), x) for x in ({}, {"k": 1}, None)]
    extras += [(("hsm", "softhsm", "env", "X"), x) for x in (None, 1, [1, {"a": None}], {"deep": {"deeper": 2.5}})]
    extras += [(("hsm", "softhsm", "env", 5), "non-string name")]
    for path, val in extras:
        def _setv(parent: Any, key: Any, t: Any, val: Any = val) -> None:
            parent[key] = val
        tree = mutated(base, path, _setv)
        yield {"stream": "example", "tag": f"add:{fmt_path(path)}={short(val)}", "tree": tree, "path": path, "mutation": "add"}
    # whole-file shapes
    for name, tree in [("null", None), ("empty-map", {}), ("empty-list", []), ("list", [1]), ("string", "abc"), ("empty-string", ""), ("int", 5), ("bool", True), ("float", 2.5)]:
        yield {"stream": "example", "tag": f"whole-file:{name}", "tree": tree, "mutation": "whole"}
    # sections dropped pairwise with dns_ttl (the only cross-section transform)
    for ttl in ("absent", 0, 5, "0", "7", False, 0.5, 2.5, None, "x", []):
        for kp in ("absent", "as-is", "no-ttl", "ttl-0", "ttl-string", "ttl-negative", "with-signature_policy"):
            tree = copy.deepcopy(base)
            if ttl == "absent":
                del tree["request_policy"]["dns_ttl"]
            else:
                tree["request_policy"]["dns_ttl"] = ttl
            if kp == "absent":
                del tree["ksk_policy"]
            elif kp == "no-ttl":
                del tree["ksk_policy"]["ttl"]
            elif kp == "ttl-0":
                tree["ksk_policy"]["ttl"] = 0
            elif kp == "ttl-string":
                tree["ksk_policy"]["ttl"] = "3600"
            elif kp == "ttl-negative":
                tree["ksk_policy"]["ttl"] = -1
            elif kp == "with-signature_policy":
                tree["ksk_policy"] = {"signature_policy": {}, "ttl": 42}
            yield {"stream": "example", "tag": f"dns_ttl:{ttl!r}:ksk_policy:{kp}", "tree": tree, "mutation": "dns_ttl"}


# ------------------------------------------------------------------------------------------------
# judging one configuration tree three ways
# ------------------------------------------------------------------------------------------------


def judge_tree(res: Result, case: dict[str, Any], impl: Any, model: Any, oracle: Oracle, scratch: str) -> None:
    tree = case["tree"]

    class _Rec(dict):  # built only when a violation / disagreement is reported
        pass

    def mk() -> dict[str, Any]:
        rec = {"stream": case["stream"], "tag": case["tag"], "tree": tokenise(canon_tree(tree), scratch)}
        if "yaml" in case:
            rec["yaml"] = case["yaml"].replace(scratch, SCRATCH_TOKEN)
        return rec

    res.count({"stream": case["stream"], "tag": case["tag"]})
    res.bump("stream:" + case["stream"])
    if case.get("mutation"):
        res.bump("mutation:" + case["mutation"])
    res.bump("impl:" + coarse(impl) + ("" if coarse(impl) != "other" else ":" + impl["error"]))
    verdict, info = oracle.verdict(tree)
    res.bump("oracle:" + verdict)
    if verdict == "reject" and "ok" in impl:
        what = "unknown option is accepted" if str(info).startswith("unknown option") else "configuration outside the documented form is accepted"
        res.violation(what, mk(), key=f"accepted:{case['tag']}", oracle=info, impl="accepted")
    elif verdict == "accept":
        if "ok" not in impl:
            res.violation("well-formed configuration is not loaded", mk(), key=f"{impl['error']}:{case['tag']}", impl=impl, oracle="every option is of its documented form")
        else:
            d = diff_expected(info, plain(impl["ok"]))
            if d:
                res.violation("loaded value differs from the configured value", mk(), key=f"{case['tag']}", difference=d)
    if "intent" in case and "ok" in impl:
        d = diff_expected(case["intent"], plain(impl["ok"]))
        if d:
            res.violation("loaded value differs from the configured value", mk(), key=f"intent:{case['tag']}", difference=d)
    if model is None:
        return
    if lib.is_unsupported(model):
        res.unsupported += 1
        res.bump("unsupported:" + case["stream"])
    elif not same_load(impl, model):
        res.disagreement("KSKMConfig.from_dict: model != implementation", mk(), summarise(impl), summarise(model), difference=first_diff(impl, model))
    elif "error" in impl and impl["error"] != model.get("error"):
        res.soft_error_kind_mismatch += 1


def canon_tree(tree: Any) -> Any:
    try:
        return canon(tree, r=True)
    except TypeError:
        return {"uncanonical": repr(tree)[:200]}


def summarise(o: Any) -> Any:
    if isinstance(o, dict) and "ok" in o:
        return {"ok": "(loaded configuration; see difference)"}
    return o


def first_diff(impl: Any, model: Any) -> str | None:
    if isinstance(impl, dict) and isinstance(model, dict) and "ok" in impl and "ok" in model:
        return diff_expected(plain(model["ok"]), plain(impl["ok"]))
    return None


def line_for(tree: Any) -> dict[str, Any]:
    if SHARED is not None:
        return {"op": "config_from_dict", "config": SHARED.canon_of(tree), "files": sorted(x for x in SHARED.strings_of(tree) if is_file(x))}
    return {"op": "config_from_dict", "config": canon(tree), "files": existing_files(tree)}


class Scratch:
    def __enter__(self) -> Path:
        self.dir = lib.VERIF / f".scratch_C16_{os.getpid()}"
        self.dir.mkdir(exist_ok=True)
        (self.dir / "prev-skr.xml").write_text("<SKR/>\n")
        (self.dir / "ksr.xml").write_text("<KSR/>\n")
        return self.dir

    def __exit__(self, *a: Any) -> None:
        shutil.rmtree(self.dir, ignore_errors=True)


def run(tier: str, driver_ok: bool) -> Result:
    res = Result("C16")
    res.rule = (
        "example file x every option path x {delete, 15 retypes, misspell, unknown key added to every object, 10 bound values per "
        "integer, 8 string perturbations}; dns_ttl x ksk_policy cross lattice; durations through both parsers; scalar coercion "
        "table; random well-formed configurations via YAML; subprocess main() exit statuses; single-flag-off policies x "
        "one-rule-violating requests; non-trivial = distinct (stream, tag, tree)"
    )
    r = lib.rng("C16")
    with Scratch() as scratch:
        sdir = str(scratch)
        files = {str(scratch / "prev-skr.xml"), str(scratch / "ksr.xml")}
        oracle = Oracle(files)
        base = example_base(scratch)
        global SHARED
        SHARED = Shared(base)
        # exit statuses first: a violation there (F3) is the first one reported
        for other in OTHER_STREAMS:
            if other is main_stream:
                other(res, tier, r, scratch, driver_ok)
        cases: list[dict[str, Any]] = list(example_cases(base, tier, r))
        for extra in EXTRA_TREE_STREAMS:
            cases.extend(extra(base, tier, r, scratch))
        impls = [load_impl(c["tree"], c.get("yaml")) for c in cases]
        lines = [line_for(c["tree"]) for c in cases]
        models = run_driver(lines, exe=DRIVER) if driver_ok else [None] * len(lines)
        for c, i, m in zip(cases, impls, models):
            judge_tree(res, c, i, m, oracle, sdir)
            if len(res.samples) < 3 and c["tag"] in ("unchanged", "delete:request_policy.num_bundles", "bound:0:request_policy.num_bundles"):
                res.sample({"tag": c["tag"], "impl": summarise(i), "model": summarise(m), "oracle": oracle.verdict(c["tree"])[0]})
        for other in OTHER_STREAMS:
            if other is not main_stream:
                other(res, tier, r, scratch, driver_ok)
        SHARED = None
    return res


EXTRA_TREE_STREAMS: list[Any] = []
OTHER_STREAMS: list[Any] = []


def replay(obj: dict[str, Any]) -> Any:
    v = obj.get("violation") or obj.get("disagreement") or {}
    case = v.get("case") or {}
    with Scratch() as scratch:
        sdir = str(scratch)
        if case.get("stream") == "main":
            return replay_main(case, scratch)
        if case.get("stream") == "flags":
            return replay_flags(case)
        if "op" in case:
            return {"case": case, "model": run_driver([case], exe=DRIVER)[0]}
        tree = uncanon(case.get("tree"), sdir)
        y = case.get("yaml")
        impl = load_impl(tree, y.replace(SCRATCH_TOKEN, sdir) if y else None)
        model = run_driver([line_for(tree)], exe=DRIVER)[0]
        files = {str(scratch / "prev-skr.xml"), str(scratch / "ksr.xml")}
        return {"case": {"stream": case.get("stream"), "tag": case.get("tag")}, "implementation": summarise(impl) if "ok" in impl else impl,
                "model": summarise(model), "oracle": list(Oracle(files).verdict(tree))[:1] + [str(Oracle(files).verdict(tree)[1])[:400]],
                "model_vs_implementation": first_diff(impl, model) if "ok" in impl and isinstance(model, dict) and "ok" in model else (coarse(impl), coarse(model))}


def replay_main(case: dict[str, Any], scratch: Path) -> Any:
    return {"error": "main replay not available"}


def replay_flags(case: dict[str, Any]) -> Any:
    return {"error": "flags replay not available"}


# ------------------------------------------------------------------------------------------------
# stream: durations through both parsers
# ------------------------------------------------------------------------------------------------

EXOTIC_DURATIONS: list[Any] = [
    "P79D", "P1W", "P1W2D", "P2D1W", "PT1H", "PT1M", "PT1S", "PT1H30M", "P1DT2H3M4S", "PT36H", "P0D", "PT0S", "P1DT", "P", "PT", "",
    "P1M", "P1Y", "P1Y2M3DT4H5M6S", "P1MT1M", "P1D5", "P1D5S", "P0D-86400", "P1D-5", "P1D+5", "P1D 5", "P1D5 ", "P1D1_0", "P1H", "PT1D", "P1S",
    "PT1H1H", "PT1S1M", "P1D1D", "P1DT1HT1M", "P1TD", "PT1.5S", "P1.5D", "P1,5D", "-P1D", "+P1D", "P-1D", "p1d", "P1d", "P 1D", " P1D", "P1D ",
    "P1D\n", "P1D\nP99D", "P1D\nXYZ", "P1D\r", "PT\n1S", "P\n1D", "P1D\x00", "P01D", "P0001D", "P999999999D", "P1000000000D", "P142857142W",
    "P142857143W", "PT4294967295S", "PT4294967296S", "P999999999DT86399S", "P999999999DT86400S", "PT86399999913600S", "-P999999999D",
    "-P999999999DT1S", "P99999999999999999999D", "1", "86400", "-3", "1.5", "1 day", "1 days, 0:00:00", "1:02:03", "12:30", "3d", "X", "abc",
    "P1X", "PxD", "--", "P1D!", "P１D", "P١D", "Ｐ1D", "P1D5٣", "PT5M1H", "P1W1D1H", "PTS", "PD", "P1", "P12", "T1S", "1D", "D",
    None, True, False, 0, 1, -5, 86400, 10**12, 86399999999999, 86400000000000, -86399999913600, -86399999913601, 0.0, 2.0, 1.5, -0.5,
    float("inf"), float("nan"), 1e18, [], ["P1D"], {}, {"a": 1}, dt.date(2020, 1, 1), dt.datetime(2020, 1, 1),
]  # fmt: skip


def random_duration(r: Any) -> str:
    units_d, units_t = "YMWD", "HMS"
    s = r.choice(["", "", "", "+", "-"]) + "P"
    for _ in range(r.randint(0, 3)):
        s += f"{r.choice([0, 1, r.randint(0, 99), r.randint(0, 10 ** r.randint(1, 10))])}{r.choice(units_d if r.random() < 0.9 else units_t)}"
    if r.random() < 0.6:
        s += "T"
        for _ in range(r.randint(0, 3)):
            s += f"{r.choice([0, 1, r.randint(0, 99), r.randint(0, 10 ** r.randint(1, 10)), 2**32 - 1, 2**32])}{r.choice(units_t if r.random() < 0.9 else units_d)}"
    if r.random() < 0.15:
        s += r.choice(["5", "-5", "+7", " 5", "\n", "\nX", "T", "x", "1_0", "0", "-86400"])
    if r.random() < 0.05:
        i = r.randrange(len(s) + 1)
        s = s[:i] + r.choice(["T", "P", " ", ".", "D", "9"]) + s[i:]
    return s


def duration_stream(base: dict[str, Any], tier: str, r: Any, scratch: Path) -> Iterator[dict[str, Any]]:
    vals = list(EXOTIC_DURATIONS) + [random_duration(r) for _ in range(150 if tier == "quick" else 1500)]
    for i, v in enumerate(vals):
        for sect, opt in (("request_policy", "min_bundle_interval"), ("ksk_policy", "publish_safety")):
            def _set(parent: Any, key: Any, t: Any, v: Any = v) -> None:
                parent[key] = v
            yield {"stream": "duration", "tag": f"{sect}.{opt}={short(v)}#{i}", "tree": mutated(base, (sect, opt), _set), "mutation": "duration"}


EXTRA_TREE_STREAMS.append(duration_stream)


def direct_duration_stream(res: Result, tier: str, r: Any, scratch: Path, driver_ok: bool) -> None:
    """the two parsers called directly, for volume: TypeAdapter(timedelta) vs pyd_duration, duration_to_timedelta vs
    repo_duration; the oracle: ISO W/D/H/M/S strings must give exactly the stated value in both."""
    from pydantic import TypeAdapter, ValidationError

    from kskm.common.parse_utils import duration_to_timedelta

    ta = TypeAdapter(dt.timedelta)
    n = 1500 if tier == "quick" else 20000
    strs = [v for v in EXOTIC_DURATIONS if isinstance(v, str)] + [random_duration(r) for _ in range(n)]
    # the documented grammar itself, systematically
    for w, d, h, m, sec in [(0, 1, 0, 0, 0), (1, 0, 0, 0, 0), (0, 0, 1, 0, 0), (0, 0, 0, 1, 0), (0, 0, 0, 0, 1), (2, 3, 4, 5, 6), (0, 79, 0, 0, 0), (52, 0, 0, 0, 0), (0, 0, 36, 90, 3600), (999999, 999999, 999999, 999999, 999999)]:
        date = (f"{w}W" if w else "") + (f"{d}D" if d else "")
        time_ = (f"{h}H" if h else "") + (f"{m}M" if m else "") + (f"{sec}S" if sec else "")
        strs.append("P" + date + ("T" + time_ if time_ else ""))
    lines: list[dict[str, Any]] = []
    impls: list[Any] = []
    for s in strs:
        try:
            impls.append({"ok": lib.td_us(ta.validate_python(s))})
        except ValidationError:
            impls.append({"error": "validation"})
        except Exception as exc:  # noqa: BLE001
            impls.append({"error": lib.error_kind(exc)})
        lines.append({"op": "pyd_duration", "text": s})
        try:
            impls.append({"ok": lib.td_us(duration_to_timedelta(s))})
        except Exception as exc:  # noqa: BLE001
            impls.append({"error": lib.error_kind(exc)})
        lines.append({"op": "repo_duration", "value": s})
    models = run_driver(lines, exe=DRIVER) if driver_ok else [None] * len(lines)
    for line, impl, m in zip(lines, impls, models):
        s = line.get("text", line.get("value"))
        res.count({"stream": "duration-direct", "op": line["op"], "s": s})
        res.bump("stream:duration-direct")
        want = iso_wdhms(s)
        if want is not None and impl != {"ok": want}:
            res.violation("ISO 8601 W/D/H/M/S duration is not loaded exactly", line, key=f"{line['op']}:{s}", impl=impl, expected=want)
        if s in GARBAGE_DURATIONS and "ok" in impl:
            res.violation("unparsable duration is accepted", line, key=f"{line['op']}:{s}", impl=impl)
        if "ok" in impl and want is None:
            res.bump(f"quirk:{line['op']}:accepts-beyond-WDHMS")
        if m is None:
            continue
        if lib.is_unsupported(m):
            res.unsupported += 1
            res.bump("unsupported:duration-direct")
        elif ("ok" in impl) != ("ok" in m) or ("ok" in impl and impl != m):
            res.disagreement(f"{line['op']}: model != implementation", line, impl, m)
        elif "error" in impl and (impl["error"] == "validation") != (m.get("error") == "validation"):
            res.disagreement(f"{line['op']}: error class differs", line, impl, m)


OTHER_STREAMS.append(direct_duration_stream)


# ------------------------------------------------------------------------------------------------
# stream: pydantic's lax coercion table, per field type
# ------------------------------------------------------------------------------------------------

SCALAR_VALUES: list[Any] = [
    None, True, False, 0, 1, 2, -1, 12, 65535, 65536, 2**53, 2**53 + 1, 2**64, -(2**64), 0.0, 1.0, -0.0, 12.0, 2.5, -2.5, 1e20, 2.0**53, float("inf"), float("nan"),
    "", "true", "True", "TRUE", "yes", "on", "1", "0", "y", "t", "no", "off", "false", "f", "n", " true", "true ", "2", "12", "-3", "+12", " 12", "12 ", "12.0", "1_000",
    "1e3", "0x10", "1x", "abc", "é", "١٢", "007", "-0", "--1", "+", "-", ".", "abc\n", "a.b", "a-b", "a_b", "a b", "ABCDEF0123", "abcdefg", "RSASHA256", "rsasha256", "ED448", "8",
    [], [1], ["a"], ["a", "b"], [["a"]], [None], {}, {"a": 1}, {1: 1}, dt.date(2010, 7, 15), dt.datetime(2010, 7, 15), dt.datetime(2010, 7, 15, 12, 30, 1, 5, tzinfo=dt.timezone.utc),
    dt.datetime(2010, 7, 15, tzinfo=dt.timezone(dt.timedelta(hours=2))), dt.datetime(1, 1, 1), dt.datetime(9999, 12, 31, 23, 59, 59, 999999),
    "2010-07-15T00:00:00+00:00", "2010-07-15T00:00:00Z", "2010-07-15T00:00:00", "2010-07-15 00:00:00", "2010-07-15T00:00", "2010-07-15", "2010-07-15T00:00:00.123456",
    "2010-07-15T00:00:00.1234567", "2010-07-15T00:00:00.5", "2010-07-15T00:00:00+02:00", "2010-07-15T00:00:00-0230", "2010-07-15T00:00:00+02", "2010-07-15t00:00:00z",
    "20100715T000000Z", "2010-7-15T00:00:00", "2010-07-15T24:00:00", "2010-02-30T00:00:00", "2012-02-29T00:00:00", "2100-02-29T00:00:00", "2000-02-29", "2010-13-01",
    "2010-00-10", "2010-07-15T00:00:60", "2010-07-15T00:60:00", "1500000000", "-1", "20000000000", "20000000001", "1500000000.5", "0001-01-01T00:00:00", "0000-01-01T00:00:00",
    "9999-12-31T23:59:59", "10000-01-01T00:00:00", "2010-07-15T00:00:00+24:00", "2010-07-15T00:00:00+23:59", "2010-07-15_00:00:00", "2010-07-15X00:00:00",
    " 2010-07-15T00:00:00", "2010-07-15T00:00:00 ", "1969-12-31T23:59:59.999999Z", "1600-02-29T12:00:00-11:30",
    1500000000, -1500000000, 20000000000, 20000000001, 1500000000000,
]  # fmt: skip
SCALAR_FIELDS = [
    ("RequestPolicy", "validate_signatures"), ("RequestPolicy", "num_bundles"), ("RequestPolicy", "dns_ttl"), ("RequestPolicy", "rsa_approved_key_sizes"),
    ("RequestPolicy", "rsa_approved_exponents"), ("RequestPolicy", "acceptable_domains"), ("RequestPolicy", "approved_algorithms"), ("RequestPolicy", "min_bundle_interval"),
    ("ResponsePolicy", "num_bundles"), ("KSKPolicy", "ttl"), ("KSKPolicy", "signers_name"), ("KSKPolicy", "signature_policy"), ("SignaturePolicy", "publish_safety"),
    ("SignaturePolicy", "algorithms"), ("KSKKey", "description"), ("KSKKey", "label"), ("KSKKey", "key_tag"), ("KSKKey", "algorithm"), ("KSKKey", "valid_from"),
    ("KSKKey", "valid_until"), ("KSKKey", "rsa_size"), ("KSKKey", "rsa_exponent"), ("KSKKey", "ds_sha256"), ("KSKKey", "hash_using_hsm"), ("SchemaAction", "publish"),
    ("SchemaAction", "revoke"), ("KSKMHSM", "module"), ("KSKMHSM", "pin"), ("KSKMHSM", "env"), ("KSKMFilenames", "previous_skr"), ("KSKMFilenames", "output_skr"),
    ("KSKMConfig", "hsm"), ("KSKMConfig", "ksk_keys"), ("KSKMConfig", "schemas"), ("KSKMConfig", "request_policy"), ("KSKMConfig", "filenames"),
]  # fmt: skip
REQUIRED_FILLERS: dict[str, dict[str, Any]] = {
    "KSKKey": {"description": "d", "label": "L", "algorithm": "RSASHA256", "valid_from": dt.datetime(2010, 1, 1)},
    "SchemaAction": {"publish": "a", "sign": "a"},
    "KSKMHSM": {"module": "m"},
}


def scalar_stream(res: Result, tier: str, r: Any, scratch: Path, driver_ok: bool) -> None:
    """each field type of each model against the whole value table: the model instantiated with just that field
    (required fields filled in), the loaded field compared with the model's `config_validate`."""
    import pydantic

    from kskm.common import config as cfg
    from kskm.common import config_misc as cm
    from kskm.common import data as cdata

    classes = {"RequestPolicy": cm.RequestPolicy, "ResponsePolicy": cm.ResponsePolicy, "KSKPolicy": cm.KSKPolicy, "SignaturePolicy": cdata.SignaturePolicy,
               "KSKKey": cm.KSKKey, "SchemaAction": cm.SchemaAction, "KSKMHSM": cm.KSKMHSM, "KSKMFilenames": cm.KSKMFilenames, "KSKMConfig": cfg.KSKMConfig}  # fmt: skip
    values = list(SCALAR_VALUES) + [str(scratch / "ksr.xml"), str(scratch), str(scratch / "nope.xml"), "ta.xml", "a/b.xml", "a//b", "./a", "a/", "/", "/abs/x"]
    values += [dt.timedelta(days=1), dt.timedelta(0)]
    lines: list[dict[str, Any]] = []
    impls: list[Any] = []
    for mname, fname in SCALAR_FIELDS:
        cls = classes[mname]
        for v in values:
            for wrap in (False, True):
                if wrap and not (isinstance(v, (str, int, float)) or v is None):
                    continue
                val = [v] if wrap else v
                data = dict(REQUIRED_FILLERS.get(mname, {}))
                data[fname] = copy.deepcopy(val)
                try:
                    tree_j = canon(val)
                except TypeError:
                    continue
                try:
                    obj = cls.model_validate(data)
                    impls.append({"ok": canon(getattr(obj, fname))})
                except pydantic.ValidationError:
                    impls.append({"error": "validation"})
                except Exception as exc:  # noqa: BLE001
                    impls.append({"error": lib.error_kind(exc)})
                lines.append({"op": "config_validate", "model": mname, "field": fname, "value": tree_j, "files": existing_files(val)})
    models = run_driver(lines, exe=DRIVER) if driver_ok else [None] * len(lines)
    for line, impl, m in zip(lines, impls, models):
        res.count({"stream": "scalar", "m": line["model"], "f": line["field"], "v": line["value"]})
        res.bump("stream:scalar")
        if m is None:
            continue
        if lib.is_unsupported(m):
            res.unsupported += 1
            res.bump("unsupported:scalar")
        elif coarse(impl) != coarse(m) or ("ok" in impl and impl != m):
            res.disagreement("field validation: model != implementation", tokenise(line, str(scratch)), impl, m)


OTHER_STREAMS.append(scalar_stream)


# ------------------------------------------------------------------------------------------------
# stream: random well-formed configurations round-tripped through YAML
# ------------------------------------------------------------------------------------------------

WORDS = ["ksk_current", "ksk_next", "K1", "k_2", "Kjqmt7v", "Klajeyz", "a", "B", "softhsm", "aep", "luna", "normal", "rollover", "revoke", "pre-publish", "x9", "_", "__a__", "0", "007", "on", "yes", "null", "1e3", "0x10"]


def gen_duration(r: Any) -> tuple[str, dict[str, int]]:
    w, d, h, m, s = (r.choice([0, 0, r.randint(0, 12), r.randint(0, 999999)]) for _ in range(5))
    if r.random() < 0.5:
        h = m = s = 0
    if w == d == h == m == s == 0:
        d = r.randint(0, 400)
        return f"P{d}D", {"td": d * DAY_US}
    date = (f"{w}W" if w else "") + (f"{d}D" if d else "")
    time_ = (f"{h}H" if h else "") + (f"{m}M" if m else "") + (f"{s}S" if s else "")
    return "P" + date + ("T" + time_ if time_ else ""), {"td": ((w * 7 + d) * 86400 + h * 3600 + m * 60 + s) * SEC}


def gen_datetime(r: Any) -> tuple[dt.datetime, dict[str, Any]]:
    base = dt.datetime(r.randint(1971, 2200), r.randint(1, 12), r.randint(1, 28), r.randint(0, 23), r.randint(0, 59), r.randint(0, 59), r.choice([0, 0, r.randint(0, 999999)]))
    kind = r.choice(["utc", "naive", "offset"])
    naive_us = (base - dt.datetime(1970, 1, 1)) // dt.timedelta(microseconds=1)
    if kind == "naive":
        return base, {"ts": [naive_us, None]}
    if kind == "utc":
        return base.replace(tzinfo=dt.timezone.utc), {"ts": [naive_us, 0]}
    off = r.choice([-12, -5, 1, 2, 9]) * 3600 + r.choice([0, 0, 1800])
    return base.replace(tzinfo=dt.timezone(dt.timedelta(seconds=off))), {"ts": [naive_us - off * SEC, off]}


def gen_value(kind: Any, r: Any, scratch: Path) -> tuple[Any, Any]:
    """(what is written into the file, the value it is meant to load as)"""
    if isinstance(kind, tuple) and kind[0] == "int":
        _, lo, hi = kind
        lo = 0 if lo is None else lo
        v = r.choice([lo, lo + 1, hi if hi is not None else 2**31, r.randint(lo, hi if hi is not None else 10**6), r.randint(lo, hi if hi is not None else 2**40)])
        return v, v
    if isinstance(kind, tuple) and kind[0] == "list":
        pairs = [gen_value(kind[1], r, scratch) for _ in range(r.choice([0, 1, 1, 2, 9]))]
        return [a for a, _ in pairs], [b for _, b in pairs]
    if kind == "bool":
        b = r.random() < 0.5
        return b, b
    if kind == "duration":
        return gen_duration(r)
    if kind == "domain":
        v = r.choice([".", "example.", "a.b.c", "xn__q9j", "A_1.", "arpa", "0", "on", "1.2"])
        return v, v
    if kind == "keyname":
        v = r.choice([w for w in WORDS if re.fullmatch(r"[A-Za-z0-9_]+", w)])
        return v, v
    if kind == "hex":
        v = "".join(r.choice("0123456789abcdefABCDEF") for _ in range(r.choice([1, 8, 64])))
        return v, v
    if kind == "str":
        v = r.choice(["Root DNSSEC KSK 2010", "", "x", "multi\nline", "ünï", "  padded ", "yes", "12", "a: b", "# not a comment", "RSASHA256", "NOSUCHALG"])
        return v, v
    if kind == "alg":
        v = r.choice(list(DOC_ALGORITHMS))
        return v, DOC_ALGORITHMS[v]
    if kind == "datetime":
        return gen_datetime(r)
    if kind == "file":
        v = str(scratch / r.choice(["ksr.xml", "prev-skr.xml"]))
        return v, v
    if kind == "path":
        v = r.choice(["skr.xml", "out/skr.xml", "/tmp/x.xml", "root-anchors.xml"])
        return v, v
    if kind == "pin":
        v = r.choice([123456, "123456", "p i n", 0, 2**70])
        return v, v
    if kind == "names":
        if r.random() < 0.5:
            v, _ = gen_value("keyname", r, scratch)
            return v, [v]
        return gen_value(("list", "keyname"), r, scratch)
    if kind == "env":
        d = {r.choice(["SOFTHSM2_CONF", "KEYPER_LIBRARY_PATH", "X", "y"]): r.choice(["softhsm.conf", 1, None, True, ["a", 1], {"n": {"m": 0}}]) for _ in range(r.randint(0, 3))}
        return d, d
    raise ValueError(kind)


def gen_section(table: dict[str, tuple[Any, Any]], r: Any, scratch: Path, density: float) -> tuple[dict[str, Any], dict[str, Any]]:
    given: dict[str, Any] = {}
    want: dict[str, Any] = {}
    keys = list(table)
    r.shuffle(keys)
    for k in keys:
        kind, default = table[k]
        if default == "REQUIRED" or r.random() < density:
            given[k], want[k] = gen_value(kind, r, scratch)
    return given, want


def random_config(r: Any, scratch: Path) -> tuple[dict[str, Any], dict[str, Any]]:
    tree: dict[str, Any] = {}
    want: dict[str, Any] = {}
    density = r.choice([0.1, 0.5, 0.9, 1.0])
    sections = list(DOC_TOP)
    r.shuffle(sections)
    for sect in sections:
        if r.random() < 0.25:
            continue
        if sect in ("request_policy", "response_policy", "ksk_policy", "filenames"):
            table = {"request_policy": DOC_REQUEST_POLICY, "response_policy": DOC_RESPONSE_POLICY, "ksk_policy": DOC_KSK_POLICY, "filenames": DOC_FILENAMES}[sect]
            tree[sect], want[sect] = gen_section(table, r, scratch, density)
        elif sect in ("hsm", "keys"):
            table = DOC_HSM if sect == "hsm" else DOC_KEY
            tree[sect], want[sect] = {}, {}
            for name in r.sample(WORDS, r.randint(0, 3)):
                tree[sect][name], want[sect][name] = gen_section(table, r, scratch, density)
        else:
            tree[sect], want[sect] = {}, {}
            for name in r.sample(WORDS, r.randint(0, 3)):
                tree[sect][name], want[sect][name] = {}, {}
                for slot in r.sample(range(0, 12), r.randint(0, 9)):
                    tree[sect][name][slot], want[sect][name][slot] = gen_section(DOC_ACTION, r, scratch, density)
    # the positivity / dns_ttl interplay: make the documented replacement observable
    if "request_policy" in tree and "ksk_policy" in tree and r.random() < 0.5:
        tree["request_policy"]["dns_ttl"] = want["request_policy"]["dns_ttl"] = 0
        if "ttl" not in tree["ksk_policy"]:
            tree["ksk_policy"]["ttl"] = want["ksk_policy"]["ttl"] = r.choice([0, 1, 3600, 172800])
    if "hsm" in want:
        for h in want["hsm"].values():
            if "env" in h:
                h["env"] = plain(canon(h["env"]))
    return tree, want


def random_stream(base: dict[str, Any], tier: str, r: Any, scratch: Path) -> Iterator[dict[str, Any]]:
    import yaml

    intent = Intent({str(scratch / "prev-skr.xml"), str(scratch / "ksr.xml")})
    for i in range(250 if tier == "quick" else 3000):
        tree, want = random_config(r, scratch)
        text = yaml.safe_dump(tree, default_flow_style=r.choice([None, False, True]), sort_keys=r.random() < 0.5)
        loaded_tree = yaml.safe_load(text)
        yield {"stream": "random", "tag": f"random#{i}:{lib.seed()}", "tree": loaded_tree, "yaml": text, "intent": intent.expected(want), "mutation": "random"}


EXTRA_TREE_STREAMS.append(random_stream)


# ------------------------------------------------------------------------------------------------
# stream: the real main() in subprocesses — exit statuses
# ------------------------------------------------------------------------------------------------

EXIT_CONFIG = 2  # the documented "configuration error" status (EXIT_CODES["config"]; re-read from the code below)


def main_cases(base: dict[str, Any], scratch: Path) -> list[dict[str, Any]]:
    import yaml

    ok = copy.deepcopy(base)
    ok["filenames"] = {"output_skr": "skr.xml"}

    def mut(path: tuple[Any, ...], val: Any = "DELETE") -> dict[str, Any]:
        t = copy.deepcopy(ok)
        parent = get_at(t, path[:-1])
        if val == "DELETE":
            del parent[path[-1]]
        else:
            parent[path[-1]] = val
        return t

    trees: list[tuple[str, Any]] = [
        ("validation:minimal", {"request_policy": {"bogus_option": 1}}),
        ("configuration:minimal", {"request_policy": {"num_bundles": 0}}),
        ("valid:example-without-ksr", ok),
        ("valid:empty-map", {}),
        ("valid:only-hsm", {"hsm": {"softhsm": {"module": "m.so"}}}),
        ("valid:no-normal-schema", mut(("schemas", "normal"))),
        ("configuration:num_bundles=0", mut(("request_policy", "num_bundles"), 0)),
        ("configuration:num_bundles=-1", mut(("request_policy", "num_bundles"), -1)),
        ("configuration:horizon=0", mut(("request_policy", "signature_horizon_days"), 0)),
        ("configuration:distinct-keys=0", mut(("request_policy", "num_different_keys_in_all_bundles"), 0)),
        ("validation:unknown-top-level", mut(("bogus_section",), {})),
        ("validation:unknown-request-option", mut(("request_policy", "bogus_option"), 1)),
        ("validation:unknown-response-option", mut(("response_policy", "bogus_option"), 1)),
        ("validation:unknown-ksk-policy-option", mut(("ksk_policy", "bogus_option"), "P1D")),
        ("validation:unknown-key-option", mut(("keys", "ksk_next", "bogus_option"), 1)),
        ("validation:unknown-schema-slot-option", mut(("schemas", "normal", 1, "bogus_option"), "ksk_current")),
        ("validation:unknown-hsm-option", mut(("hsm", "softhsm", "bogus_option"), 1)),
        ("validation:unknown-filenames-option", mut(("filenames", "bogus_option"), "x")),
        ("validation:negative-ttl", mut(("ksk_policy", "ttl"), -1)),
        ("validation:negative-dns-ttl", mut(("request_policy", "dns_ttl"), -1)),
        ("validation:rsa-size-0", mut(("keys", "ksk_next", "rsa_size"), 0)),
        ("validation:rsa-size-65536", mut(("request_policy", "rsa_approved_key_sizes"), [65536])),
        ("validation:key-tag-0", mut(("keys", "ksk_next", "key_tag"), 0)),
        ("validation:key-tag-65536", mut(("keys", "ksk_next", "key_tag"), 65536)),
        ("validation:label", mut(("keys", "ksk_next", "label"), "K-1")),
        ("validation:domain", mut(("request_policy", "acceptable_domains"), ["exa mple"])),
        ("validation:digest", mut(("keys", "ksk_next", "ds_sha256"), "xyz")),
        ("validation:algorithm-name", mut(("keys", "ksk_next", "algorithm"), "RSASHA257")),
        ("validation:duration", mut(("request_policy", "min_bundle_interval"), "X")),
        ("validation:response-num-bundles-0", mut(("response_policy", "num_bundles"), 0)),
        ("validation:missing-key-label", mut(("keys", "ksk_next", "label"))),
        ("validation:missing-input-file", mut(("filenames", "input_ksr"), "does-not-exist.xml")),
        ("validation:flag-null", mut(("request_policy", "check_chain_overlap"), None)),
        ("other:ksk-policy-duration-X", mut(("ksk_policy", "publish_safety"), "X")),
        ("other:ksk-policy-duration-P1M", mut(("ksk_policy", "publish_safety"), "P1M")),
        ("other:ksk-policy-null", mut(("ksk_policy",), None)),
        ("other:ksk-policy-without-ttl", mut(("ksk_policy", "ttl"))),
        ("other:dns-ttl-null", mut(("request_policy", "dns_ttl"), None)),
        ("other:algorithm-list", mut(("keys", "ksk_next", "algorithm"), ["RSASHA256"])),
    ]
    cases = [{"stream": "main", "name": n, "yaml": yaml.safe_dump(t)} for n, t in trees]
    cases += [
        {"stream": "main", "name": "file:missing", "yaml": None},
        {"stream": "main", "name": "file:empty", "yaml": ""},
        {"stream": "main", "name": "file:malformed-yaml", "yaml": "request_policy: {num_bundles: 0\n  - ]: [\n"},
        {"stream": "main", "name": "file:malformed-yaml-tab", "yaml": "a:\n\t- b\n"},
        {"stream": "main", "name": "file:python-tag", "yaml": "a: !!python/object/apply:os.system ['true']\n"},
        {"stream": "main", "name": "file:scalar", "yaml": "just a string\n"},
    ]
    return cases


def run_main_cases(cases: list[dict[str, Any]], scratch: Path, width: int = 12) -> list[int]:
    statuses: list[int] = []
    for i in range(0, len(cases), width):
        procs = []
        for k, c in enumerate(cases[i : i + width]):
            p = scratch / f"main_{i + k}.yaml"
            if c["yaml"] is not None:
                p.write_text(c["yaml"])
            elif p.exists():
                p.unlink()
            procs.append(tables_config.run_main(str(p), scratch))
        for pr in procs:
            pr.communicate(timeout=180)
            statuses.append(pr.returncode)
    return statuses


def loader_outcome(text: str | None) -> tuple[str, Any]:
    """what the loader reports for this file, observed in-process: (outcome class, tree or None)"""
    import yaml

    if text is None:
        return "fileNotFound", None
    try:
        tree = yaml.safe_load(text)
    except yaml.YAMLError:
        return "otherException", None
    impl = load_impl(tree)
    c = coarse(impl)
    return {"ok": "loaded", "configuration": "configurationError", "validation": "validationError"}.get(c, "otherException"), tree


def judge_main(res: Result, c: dict[str, Any], status: int, model: Any) -> None:
    from kskm.tools.ksrsigner import EXIT_CODES

    outcome, _ = loader_outcome(c["yaml"])
    rec = {"stream": "main", "name": c["name"], "yaml": c["yaml"]}
    res.count({"stream": "main", "name": c["name"]})
    res.bump("stream:main")
    res.bump(f"main:{outcome}:exit{status}")
    cfg_status = EXIT_CODES.get("config")
    if cfg_status != EXIT_CONFIG:
        res.violation("the configuration-error status is not the documented one", rec, key=f"exit-codes:{cfg_status}", exit_codes=dict(EXIT_CODES))
    if outcome in ("configurationError", "validationError") and status != EXIT_CONFIG:
        what = "schema-invalid configuration does not exit with the configuration-error status" if outcome == "validationError" else "configuration error does not exit with the configuration-error status"
        res.violation(what, rec, key=f"{'validation' if outcome == 'validationError' else 'configuration'}-error-exit-{status}", loader=outcome, status=status, expected=EXIT_CONFIG)
    if status == 0:
        res.violation("the signer exits 0 although no KSR was (or could be) processed", rec, key=f"exit-0:{c['name']}", loader=outcome, status=status)
    if model is None:
        return
    if lib.is_unsupported(model):
        res.unsupported += 1
        res.bump("unsupported:main")
        return
    if model.get("status") != status or (model.get("outcome") != outcome):
        res.disagreement("main(): model exit status != observed", rec, {"outcome": outcome, "status": status}, model)


def main_stream(res: Result, tier: str, r: Any, scratch: Path, driver_ok: bool) -> None:
    base = example_base(scratch)
    cases = main_cases(base, scratch)
    statuses = run_main_cases(cases, scratch)
    lines = []
    for c in cases:
        outcome, tree = loader_outcome(c["yaml"])
        if tree is None and outcome != "loaded" and (c["yaml"] is None or outcome == "otherException" and not _yaml_ok(c["yaml"])):
            lines.append({"op": "config_main_status", "outcome": outcome, "restOk": False})
        else:
            lines.append({"op": "config_load_status", "config": canon(tree), "files": existing_files(tree)})
    models = run_driver(lines, exe=DRIVER) if driver_ok else [None] * len(lines)
    for c, st, line, m in zip(cases, statuses, lines, models):
        if m is not None and line["op"] == "config_main_status":
            m = {"outcome": line["outcome"], "status": m}
        judge_main(res, c, st, m)
        if c["name"] in ("validation:minimal", "configuration:minimal"):
            res.sample({"main": c["name"], "exit_status": st, "model": m})


def _yaml_ok(text: str) -> bool:
    import yaml

    try:
        yaml.safe_load(text)
        return True
    except yaml.YAMLError:
        return False


OTHER_STREAMS.append(main_stream)


def replay_main(case: dict[str, Any], scratch: Path) -> Any:
    st = run_main_cases([case], scratch)[0]
    outcome, tree = loader_outcome(case.get("yaml"))
    return {"case": case.get("name"), "yaml": case.get("yaml"), "loader_reports": outcome, "exit_status_observed": st, "expected_by_property": EXIT_CONFIG if outcome in ("configurationError", "validationError") else "non-zero"}


# ------------------------------------------------------------------------------------------------
# stream: single-flag-off policies x requests violating exactly one rule
# ------------------------------------------------------------------------------------------------

# the rule each flag guards, as documented in config/ksrsigner.yaml (flag -> violation the rule raises)
FLAG_RULE = {
    "check_cycle_length": "bundleCycleDuration",
    "check_bundle_overlap": "policySigOverlap",
    "signature_validity_match_zsk_policy": "policySigValidity",
    "signature_check_expire_horizon": "policySigHorizon",
    "check_bundle_intervals": "policyBundleInterval",
    "check_keys_match_ksk_operator_policy": "policyKeys",
    "signature_algorithms_match_zsk_policy": "policyAlg",
    "check_chain_keys": "chainKeys",
    "check_chain_overlap": "chainOverlap",
}
# flags that may be toggled on these (key-less) requests without creating a violation of their own
NEUTRAL_FLAGS = ["rsa_exponent_match_zsk_policy", "check_chain_keys", "check_chain_keys_in_hsm", "check_chain_overlap", "check_keys_publish_safety", "check_keys_retire_safety"]


def flag_cases(tier: str, r: Any) -> list[dict[str, Any]]:
    """requests that violate exactly one switchable rule (plus a few violating none / the unswitchable part)"""
    import corr_C05

    out: list[dict[str, Any]] = []
    per_rule: dict[str, int] = {}
    limit = 6 if tier == "quick" else 40
    for n in (1, 2, 3, 9):
        for tag, timeline, zp, pol, now in corr_C05.lattice(n, r, "quick"):
            reg = corr_C05.region(timeline, zp, pol, now)
            failing = [f for f in corr_C05.TIMING_FLAGS if not reg[f]]
            if not reg["count"] or len(failing) > 1:
                continue
            name = failing[0] if failing else "none"
            if per_rule.get(name, 0) >= limit * (2 if name == "none" else 1):
                continue
            per_rule[name] = per_rule.get(name, 0) + 1
            out.append({"kind": "timing", "tag": tag, "n": n, "timeline": timeline, "zsk": zp, "policy": pol, "now": now, "violates": name})
    # operator key-count rule: n bundles without keys against a policy wanting one key per bundle
    for n in (1, 3):
        base = corr_C05.honest(n, 1_500_000_000 * SEC)
        zp, pol = corr_C05.profiles(n)[1]
        out.append({"kind": "keys", "tag": f"keys:{n}", "n": n, "timeline": base, "zsk": zp, "policy": pol, "now": base[0][0] - 5 * DAY_US, "violates": "check_keys_match_ksk_operator_policy"})
    # algorithm rules: an RSA size the operator does not approve (switchable) / a deprecated algorithm (NOT switchable)
    for n in (1, 3):
        base = corr_C05.honest(n, 1_500_000_000 * SEC)
        zp, pol = corr_C05.profiles(n)[1]
        out.append({"kind": "alg", "tag": f"alg:size:{n}", "n": n, "timeline": base, "zsk": zp, "policy": pol, "now": base[0][0] - 5 * DAY_US, "alg": [8, 1024, 65537], "violates": "signature_algorithms_match_zsk_policy"})
        out.append({"kind": "alg", "tag": f"alg:exponent:{n}", "n": n, "timeline": base, "zsk": zp, "policy": pol, "now": base[0][0] - 5 * DAY_US, "alg": [8, 2048, 3], "violates": "signature_algorithms_match_zsk_policy"})
        out.append({"kind": "alg", "tag": f"alg:unapproved:{n}", "n": n, "timeline": base, "zsk": zp, "policy": pol, "now": base[0][0] - 5 * DAY_US, "alg": [10, 2048, 65537], "violates": "signature_algorithms_match_zsk_policy"})
        out.append({"kind": "alg", "tag": f"alg:deprecated:{n}", "n": n, "timeline": base, "zsk": zp, "policy": pol, "now": base[0][0] - 5 * DAY_US, "alg": [1, 2048, 65537], "violates": "UNSWITCHABLE"})
        out.append({"kind": "alg", "tag": f"alg:unsupported:{n}", "n": n, "timeline": base, "zsk": zp, "policy": pol, "now": base[0][0] - 5 * DAY_US, "alg": [5, 2048, 65537], "violates": "UNSWITCHABLE"})
        out.append({"kind": "alg", "tag": f"alg:fine:{n}", "n": n, "timeline": base, "zsk": zp, "policy": pol, "now": base[0][0] - 5 * DAY_US, "alg": [8, 2048, 65537], "violates": "none"})
    return out


def build_flag_case(c: dict[str, Any], flags_off: list[str]) -> tuple[Any, Any]:
    import corr_C05
    from kskm.common.data import AlgorithmDNSSEC, AlgorithmPolicyRSA

    timing = {f: True for f in corr_C05.TIMING_FLAGS}
    req, policy = corr_C05.build([tuple(x) for x in c["timeline"]], c["zsk"], c["policy"], timing)
    upd: dict[str, Any] = {}
    if c["kind"] == "keys":
        upd.update(check_keys_match_ksk_operator_policy=True, num_keys_per_bundle=[1] * c["n"], num_different_keys_in_all_bundles=1)
    if c["kind"] == "alg":
        a, bits, e = c["alg"]
        zp = req.zsk_policy.replace(algorithms={AlgorithmPolicyRSA(bits=bits, algorithm=AlgorithmDNSSEC(a), exponent=e)})
        req = req.replace(zsk_policy=zp)
    for f in flags_off:
        upd[f] = False
    if upd:
        policy = policy.replace(**upd)
    return req, policy


def flags_stream(res: Result, tier: str, r: Any, scratch: Path, driver_ok: bool) -> None:
    import corr_C05
    from kskm.ksr.validate import validate_request
    from lib import PinnedClock, request_j, request_policy_j, run_impl

    cases = flag_cases(tier, r)
    for idx, c in enumerate(cases):
        c["idx"] = idx
    switchable = list(corr_C05.TIMING_FLAGS) + ["check_keys_match_ksk_operator_policy", "signature_algorithms_match_zsk_policy"]
    rows: list[dict[str, Any]] = []
    lines: list[dict[str, Any]] = []
    with PinnedClock() as clock:
        for c in cases:
            offs: list[list[str]] = [[]] + [[f] for f in switchable + NEUTRAL_FLAGS]
            for off in offs:
                if c["kind"] != "keys" and off == ["check_keys_match_ksk_operator_policy"]:
                    pass  # already off in the C05 builder: switching it "off" again must change nothing
                req, policy = build_flag_case(c, off)
                clock.now_us = c["now"]
                impl = run_impl(lambda: validate_request(req, policy))
                rows.append({"case": c, "off": off, "impl": impl})
                lines.append({"op": "validate_request", "request": request_j(req), "policy": request_policy_j(policy), "now": c["now"]})
    models = run_driver(lines, exe=DRIVER) if driver_ok else [None] * len(lines)
    # per case: the verdict with every flag on
    baseline: dict[str, Any] = {}
    for row in rows:
        if not row["off"]:
            baseline[row["case"]["idx"]] = row["impl"]
    for row, m in zip(rows, models):
        c, off, impl = row["case"], row["off"], row["impl"]
        rec = {"stream": "flags", "tag": c["tag"], "case": c, "off": off}
        res.count({"stream": "flags", "idx": c["idx"], "tag": c["tag"], "n": c["n"], "kind": c["kind"], "off": off})
        res.bump("stream:flags")
        res.bump("flags:violates:" + c["violates"])
        base = baseline[c["idx"]]
        v = c["violates"]
        # the property: with every check on, the request is refused by exactly the rule it violates …
        if not off:
            want = {"ok": None} if v == "none" else ({"violation": "policyAlg"} if v == "UNSWITCHABLE" else {"violation": FLAG_RULE[v]})
            if c["kind"] == "timing" and v == "signature_check_expire_horizon" and impl == {"violation": "policyBase"}:
                pass  # "expired already" is reported by the base class of the same rule
            elif impl != want:
                res.violation("request violating exactly one rule is not refused by that rule", rec, key=f"baseline:{c['tag']}", impl=impl, expected=want)
        else:
            f = off[0]
            # … switching off the flag of that rule accepts it, switching off any other flag changes nothing
            want = {"ok": None} if (f == v) else base
            if impl != want:
                what = "switching one check off does not disable exactly that check"
                res.violation(what, rec, key=f"{f}:{c['tag']}", impl=impl, expected=want, all_on=base)
        if m is None:
            continue
        if lib.is_unsupported(m):
            res.unsupported += 1
        elif not lib.same_outcome(impl, m):
            res.disagreement("validate_request under a single-flag-off policy: model != implementation", rec, impl, m)


OTHER_STREAMS.append(flags_stream)


def replay_flags(case: dict[str, Any]) -> Any:
    from kskm.ksr.validate import validate_request
    from lib import PinnedClock, request_j, request_policy_j, run_impl

    c, off = case["case"], case["off"]
    out = {}
    with PinnedClock() as clock:
        clock.now_us = c["now"]
        for name, o in (("all_on", []), ("flag_off", off)):
            req, policy = build_flag_case(c, o)
            out[name] = {"off": o, "implementation": run_impl(lambda: validate_request(req, policy)),
                         "model": run_driver([{"op": "validate_request", "request": request_j(req), "policy": request_policy_j(policy), "now": c["now"]}], exe=DRIVER)[0]}
    out["violates"] = c["violates"]
    return out


def chain_flags_stream(res: Result, tier: str, r: Any, scratch: Path, driver_ok: bool) -> None:
    """the chain rules of check_skr_and_ksr(): a KSR whose first bundle (a) overlaps the last SKR bundle too little,
    (b) carries a key the last SKR bundle does not; each under every single-flag-off policy."""
    import corr_C05
    from kskm.common.data import AlgorithmDNSSEC, Key, SignaturePolicy
    from kskm.signer.policy import check_skr_and_ksr
    from kskm.skr.data import Response, ResponseBundle
    from lib import request_j, request_policy_j, response_j, run_impl, us_dt

    start = 1_500_000_000 * SEC
    zp, pol = corr_C05.profiles(2)[1]
    key = Key(key_identifier="zsk1", key_tag=1, ttl=0, flags=256, protocol=3, algorithm=AlgorithmDNSSEC.RSASHA256, public_key=b"AwEAAQ==")
    rows: list[dict[str, Any]] = []
    lines: list[dict[str, Any]] = []
    chain_flags = ["check_chain_keys", "check_chain_keys_in_hsm", "check_chain_overlap"]
    others = ["check_bundle_overlap", "check_keys_publish_safety", "check_keys_retire_safety", "validate_signatures"]
    for name, violates, overlap_days, with_key in [("overlap", "check_chain_overlap", 1, False), ("overlap-long", "check_chain_overlap", 20, False),
                                                    ("keys", "check_chain_keys", 11, True), ("none", "none", 11, False)]:  # fmt: skip
        timeline = corr_C05.honest(2, start)
        req, policy = corr_C05.build(timeline, zp, pol, {f: True for f in corr_C05.TIMING_FLAGS})
        if with_key:
            req = req.replace(bundles=[req.bundles[0].replace(keys={key})] + list(req.bundles[1:]))
        last_exp = start + overlap_days * DAY_US
        last = Response(id="prev", serial=0, domain=".", timestamp=None, zsk_policy=req.zsk_policy, ksk_policy=SignaturePolicy(),
                        bundles=[ResponseBundle(id="pb", inception=us_dt(last_exp - 21 * DAY_US), expiration=us_dt(last_exp), keys=set(), signatures=set())])  # fmt: skip
        for off in [[]] + [[f] for f in chain_flags + others]:
            p = policy.replace(**{f: False for f in off}) if off else policy
            impl = run_impl(lambda: check_skr_and_ksr(req, last, p, None))
            rows.append({"name": name, "violates": violates, "off": off, "impl": impl})
            lines.append({"op": "check_skr_and_ksr", "request": request_j(req), "last": response_j(last), "policy": request_policy_j(p), "token": None})
    models = run_driver(lines, exe=DRIVER) if driver_ok else [None] * len(lines)
    base = {row["name"]: row["impl"] for row in rows if not row["off"]}
    for row, m in zip(rows, models):
        rec = {"stream": "chain-flags", "name": row["name"], "off": row["off"]}
        res.count(rec)
        res.bump("stream:chain-flags")
        v = row["violates"]
        if not row["off"]:
            want = {"ok": None} if v == "none" else {"violation": FLAG_RULE[v]}
        else:
            want = {"ok": None} if row["off"][0] == v else base[row["name"]]
        if row["impl"] != want:
            res.violation("switching one check off does not disable exactly that check", rec, key=f"chain:{row['name']}:{row['off']}", impl=row["impl"], expected=want)
        if m is None:
            continue
        if lib.is_unsupported(m):
            res.unsupported += 1
        elif not lib.same_outcome(row["impl"], m):
            res.disagreement("check_skr_and_ksr under a single-flag-off policy: model != implementation", rec, row["impl"], m)


OTHER_STREAMS.append(chain_flags_stream)
